# Builds the fact extractor (clang-14 libTooling) and byte-compiles the rule engine. Offline.
LLVM_CXXFLAGS := $(shell llvm-config-14 --cxxflags)
all: build/nvx pyc
build/nvx: nv/nvx.cc
	mkdir -p build
	clang++ $(LLVM_CXXFLAGS) -fno-rtti -O1 nv/nvx.cc -o build/nvx /usr/lib/llvm-14/lib/libclang-cpp.so.14 /usr/lib/llvm-14/lib/libLLVM-14.so
pyc:
	python3 -m compileall -q nv
clean:
	rm -rf build .cache
.PHONY: all pyc clean
