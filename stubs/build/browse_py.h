static const char kBrowsePy[] = "";
