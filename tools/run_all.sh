#!/bin/sh
# Runs every registered quick check on the current /repo tree and regenerates /verif/evidence.
cd /verif
rc=0
for p in $(python3 -c "import json; print(' '.join(c['property_id'] for c in json.load(open('MANIFEST.json'))['checks']))"); do
  python3 nv/check.py $p --tier ${1:-quick} | grep -v "^KNOWN-FINDING" || true
done
