"""Generates the hand-written mutant corpus (realistic property-breaking edits) and the benign
corpus (behaviour-preserving edits) as unified diffs against /repo's current sources.
Each patch starts with header lines `# property: Cxx`, `# expect: <rule id>` (or `# benign`)."""
import difflib
import os
import sys

OUT = os.path.join(os.path.dirname(os.path.dirname(os.path.abspath(__file__))), 'mutants')

M = [
    # (property, name, file, old, new, expected rule, note)
    # --- sensitivity of the rules restated after the benign corpus (11.6) -------------------------
    ('C08', 'restat-ignores-selection', 'src/build_log.cc',
     '    if (!skip) {\n      const TimeStamp mtime', '    if (true) {\n      const TimeStamp mtime', 'C08.W1', 'every entry re-stat\'ed'),
    ('C08', 'restat-prefix-match', 'src/build_log.cc',
     '      if (pair.second->output == outputs[j]) {', '      if (pair.second->output.compare(0, strlen(outputs[j]), outputs[j]) == 0) {', 'C08.W1', 'prefix instead of equality'),
    ('C02', 'restat-shortcut-not-honoured', 'src/graph.cc',
     '  if (!used_restat && most_recent_input &&', '  if (most_recent_input &&', 'C02.TA3', 'file mtime compared although the log mtime should be'),
    ('C09', 'unchanged-check-first-element-only', 'src/deps_log.cc',
     '      for (int i = 0; i < node_count; ++i) {\n        if (deps->nodes[i] != nodes[i]) {', '      for (int i = 0; i < 1 && i < node_count; ++i) {\n        if (deps->nodes[i] != nodes[i]) {', 'C09.N2', 'changed deps not recorded'),
    ('C16', 'pathlist-drops-last', 'src/graph.cc',
     'for (const Node* const* i = span; i != span + size; ++i) {', 'for (const Node* const* i = span; i != span + size - (size > 1); ++i) {', 'C16.W1', 'last path missing'),
    ('C20', 'stripper-drops-digits', 'src/util.cc',
     "    if (in[i] != '\\33') {\n      // Not an escape code.\n      stripped.push_back(in[i]);\n      continue;\n    }",
     "    if (in[i] != '\\33') {\n      // Not an escape code.\n      if (in[i] != '\\a') stripped.push_back(in[i]);\n      continue;\n    }", 'C20.W1', 'BEL bytes dropped from output'),
    ('C06', 'active-edges-only-running', 'src/real_command_runner.cc',
     '    edges.push_back(e->second);', '    if (!e->first->Done()) edges.push_back(e->second);', 'C06.R2', 'finished-not-reaped commands keep slot'),
    ('C10', 'recorddeps-skipped-after-prune', 'src/build.cc',
     '  if (!deps_type.empty() && !config_.dry_run) {\n    assert(!edge->outputs_.empty() && "should have been rejected by parser");',
     '  if (!deps_type.empty() && !config_.dry_run && record_mtime != 0) {\n    assert(!edge->outputs_.empty() && "should have been rejected by parser");', 'C10.O1', 'deps not recorded in some runs'),
    ('C05', 'drop-failed-early-return', 'src/build.cc',
     '  if (result != kEdgeSucceeded)\n    return true;\n\n  if (directly_wanted)',
     '  if (directly_wanted)', 'C05.G1', 'success bookkeeping also for failed edges'),
    ('C05', 'record-before-success-test', 'src/build.cc',
     '  // The rest of this function only applies to successful commands.\n  if (!result.success()) {\n    return plan_.EdgeFinished(edge, Plan::kEdgeFailed, err);\n  }\n',
     '  if (scan_.build_log())\n    scan_.build_log()->RecordCommand(edge, 0, 0, 0);\n  // The rest of this function only applies to successful commands.\n  if (!result.success()) {\n    return plan_.EdgeFinished(edge, Plan::kEdgeFailed, err);\n  }\n',
     'C05.G2', 'log record for failed commands'),
    ('C05', 'drop-SetFailureCode', 'src/build.cc',
     '        bool command_finished = FinishCommand(cc, err);\n        SetFailureCode(result.exit_status());',
     '        bool command_finished = FinishCommand(cc, err);', 'C05.O1', 'exit code lost'),
    ('C05', 'missing-source-inverted', 'src/build.cc',
     'if (node->dirty() && !node->generated_by_dep_loader()) {', 'if (node->dirty() && node->generated_by_dep_loader()) {',
     'C05.X1', 'missing source no longer reported'),
    ('C01', 'drop-log-mtime-verdict', 'src/graph.cc',
     'if (most_recent_input && entry->mtime < most_recent_input->mtime()) {', 'if (false && most_recent_input && entry->mtime < most_recent_input->mtime()) {',
     'C01.X1', 'interrupted previous run not redone'),
    ('C01', 'flip-deps-validity', 'src/graph.cc',
     '  // Deps are invalid if the output is newer than the deps.\n  if (output->mtime() > deps->mtime) {\n    explanations_.Record(output,\n                         "stored deps info out of date for \'%s\' (%" PRId64\n                         " vs %" PRId64 ")",\n                         output->path().c_str(), deps->mtime, output->mtime());\n    return std::nullopt;',
     '  // Deps are invalid if the output is newer than the deps.\n  if (output->mtime() < deps->mtime) {\n    explanations_.Record(output,\n                         "stored deps info out of date for \'%s\' (%" PRId64\n                         " vs %" PRId64 ")",\n                         output->path().c_str(), deps->mtime, output->mtime());\n    return std::nullopt;',
     'C01.CC', 'stale deps trusted'),
    ('C01', 'record-output-mtime-always', 'src/build.cc',
     '    if (record_mtime == 0 || restat || generator) {', '    if (true) {', 'C01.V1', 'edit during command hidden'),
    ('C01', 'skip-recheck-after-deps', 'src/graph.cc',
     '        if (!dirty && most_recent_input_previous != most_recent_input)\n          dirty = recomputeOutputsDirty.depfile(most_recent_input);',
     '        (void)most_recent_input_previous;', 'C01.O1', 'discovered newer header ignored'),
    ('C01', 'fallthrough-after-manifest-rebuild', 'src/ninja.cc',
     '      // Start the build over with the new manifest.\n      continue;', '      // Start the build over with the new manifest.\n', 'C01.O4', 'stale graph built'),
    ('C02', 'reader-hashes-without-rspfile', 'src/graph.cc',
     'edge_->EvaluateCommand(/*incl_rsp_file=*/true));', 'edge_->EvaluateCommand(/*incl_rsp_file=*/false));', 'C02.TA1', 'never converges for rspfile rules'),
    ('C02', 'non-strict-output-vs-input', 'src/graph.cc',
     'output->mtime() < most_recent_input->mtime()) {', 'output->mtime() <= most_recent_input->mtime()) {', 'C02.CC', 'rebuild forever on equal timestamps'),
    ('C03', 'order-only-dirties', 'src/graph.cc',
     '    if (!edge->is_order_only(i - edge->inputs_.cbegin())) {', '    if (true) {', 'C03.G1', 'order-only change re-runs dependents'),
    ('C03', 'generator-exemption-dropped', 'src/graph.cc',
     'IF_FIRSTRUN (!generator_ && commandHash_() != entry->command_hash) {', 'IF_FIRSTRUN (commandHash_() != entry->command_hash) {', 'C03.G2', 'generator re-run on command change'),
    ('C04', 'ready-without-inputs-check', 'src/build.cc',
     '  Edge* edge = want_e->first;\n  if (edge->AllInputsReady()) {\n    if (want_e->second != kWantNothing) {', '  Edge* edge = want_e->first;\n  if (true) {\n    if (want_e->second != kWantNothing) {',
     'C04.W1', 'command starts before its inputs'),
    ('C04', 'rspfile-after-spawn', 'src/build.cc',
     '  // Create response file, if needed\n  // XXX: this may also block; do we care?\n  string rspfile = edge->GetUnescapedRspfile();\n  if (!rspfile.empty()) {\n    string content = edge->GetBinding("rspfile_content");\n    if (!disk_interface_->WriteFile(rspfile, content, true))\n      return false;\n  }\n\n  // start command computing and run it\n  if (!command_runner_->StartCommand(edge)) {\n    err->assign("command \'" + edge->EvaluateCommand() + "\' failed.");\n    return false;\n  }\n',
     '  // start command computing and run it\n  if (!command_runner_->StartCommand(edge)) {\n    err->assign("command \'" + edge->EvaluateCommand() + "\' failed.");\n    return false;\n  }\n\n  string rspfile = edge->GetUnescapedRspfile();\n  if (!rspfile.empty()) {\n    string content = edge->GetBinding("rspfile_content");\n    if (!disk_interface_->WriteFile(rspfile, content, true))\n      return false;\n  }\n',
     'C04.O2', 'command may start before its response file exists'),
    ('C06', 'pool-release-only-on-success', 'src/build.cc',
     '  // See if this job frees up any delayed jobs.\n  if (directly_wanted)\n    edge->pool()->EdgeFinished(*edge);',
     '  // See if this job frees up any delayed jobs.\n  if (directly_wanted && result == kEdgeSucceeded)\n    edge->pool()->EdgeFinished(*edge);', 'C06.R1', 'pool slot leaked on failure'),
    ('C06', 'abort-without-clear-tokens', 'src/real_command_runner.cc',
     'void RealCommandRunner::Abort() {\n  ClearJobTokens();', 'void RealCommandRunner::Abort() {', 'C06.R2', 'tokens lost on interrupt'),
    ('C06', 'schedule-twice', 'src/build.cc',
     '  assert(want_e->second == kWantToStart);\n  want_e->second = kWantToFinish;', '  assert(want_e->second == kWantToStart);', 'C06.G1', 'edge can be admitted twice'),
    ('C07', 'no-cleanup-on-interrupt', 'src/build.cc',
     '          CleanupEdge(edge);\n        }\n        Cleanup();', '          CleanupEdge(edge);\n        }', 'C07.O1', 'partial outputs survive an interrupt'),
    ('C07', 'kill-pid-not-group', 'src/subprocess-posix.cc',
     '      kill(-(*i)->pid_, interrupted_);', '      kill((*i)->pid_, interrupted_);', 'C07.O2', 'grandchildren keep running'),
    ('C07', 'handler-prints', 'src/subprocess-posix.cc',
     'void SubprocessSet::SetInterruptedFlag(int signum) {\n  interrupted_ = signum;', 'void SubprocessSet::SetInterruptedFlag(int signum) {\n  fprintf(stderr, "interrupted\\n");\n  interrupted_ = signum;', 'C07.W1', 'non async-signal-safe handler'),
    ('C08', 'drop-memchr-null-test', 'src/build_log.cc',
     '    end = static_cast<char*>(memchr(start, kFieldSeparator, line_end - start));\n    if (!end)\n      continue;\n    *end = 0;\n    end_time = atoi(start);',
     '    end = static_cast<char*>(memchr(start, kFieldSeparator, line_end - start));\n    *end = 0;\n    end_time = atoi(start);', 'C08.N1', 'torn line dereferences null'),
    ('C08', 'hash-written-decimal', 'src/build_log.cc',
     '"\\t%s\\t%" PRIx64 "\\n"', '"\\t%s\\t%" PRIu64 "\\n"', 'C08.TA1', 'writer/reader base mismatch'),
    ('C08', 'restat-touches-hash', 'src/build_log.cc',
     '      pair.second->mtime = mtime;', '      pair.second->mtime = mtime;\n      pair.second->command_hash = 0;', 'C08.W1', 'restat changes more than mtimes'),
    ('C08', 'no-flush-after-record', 'src/build_log.cc',
     '      if (fflush(log_file_) != 0) {\n          return false;\n      }', '', 'C08.O1', 'records not durable before success'),
    ('C09', 'drop-checksum-test', 'src/deps_log.cc',
     '      if (id != expected_id || node->id() >= 0) {', '      if (node->id() >= 0) {', 'C09.X2', 'concurrent writers undetected'),
    ('C09', 'swap-mtime-halves-writer', 'src/deps_log.cc',
     '  uint32_t mtime_part = static_cast<uint32_t>(mtime & 0xffffffff);\n  if (fwrite(&mtime_part, 4, 1, file_) < 1)\n    return false;\n  mtime_part = static_cast<uint32_t>((mtime >> 32) & 0xffffffff);',
     '  uint32_t mtime_part = static_cast<uint32_t>((mtime >> 32) & 0xffffffff);\n  if (fwrite(&mtime_part, 4, 1, file_) < 1)\n    return false;\n  mtime_part = static_cast<uint32_t>(mtime & 0xffffffff);', 'C09.TA1', 'layout disagreement'),
    ('C09', 'memory-before-flush', 'src/deps_log.cc',
     '  if (fflush(file_) != 0)\n    return false;\n\n  node->set_id(id);\n  nodes_.push_back(node);', '  node->set_id(id);\n  nodes_.push_back(node);\n  if (fflush(file_) != 0)\n    return false;', 'C09.O2', 'memory ahead of disk'),
    ('C09', 'offset-advanced-early', 'src/deps_log.cc',
     '    bool is_deps = (size >> 31) != 0;\n    size = size & 0x7FFFFFFF;', '    bool is_deps = (size >> 31) != 0;\n    size = size & 0x7FFFFFFF;\n    offset += size + sizeof(size);', 'C09.O3', 'truncation point beyond bad record'),
    ('C10', 'insert-deps-at-end', 'src/graph.cc',
     '  const auto implicit_dep = edge->inputs_.end() - edge->order_only_deps_;\n\n  edge->implicit_deps_ += node_count;', '  const auto implicit_dep = edge->inputs_.end();\n\n  edge->implicit_deps_ += node_count;', 'C10.P1', 'discovered deps become order-only'),
    ('C10', 'forget-out-edge', 'src/graph.cc',
     '    *implicit_dep = node;\n    node->AddOutEdge(edge);', '    *implicit_dep = node;', 'C10.P3', 'consumer never woken'),
    ('C11', 'drop-extra-entry-test', 'src/dyndep.cc',
     '    if (!dyndep_output.second.used_) {', '    if (false && !dyndep_output.second.used_) {', 'C11.X', 'extra statements silently accepted'),
    ('C11', 'pending-never-cleared', 'src/dyndep.cc',
     '  // We are loading the dyndep file now so it is no longer pending.\n  node->set_dyndep_pending(false);\n', '', 'C11.W1', 'dyndep file loaded repeatedly'),
    ('C12', 'swap-include-subninja-scope', 'src/manifest_parser.cc',
     '  if (new_scope) {\n    subparser_->env_ = new BindingEnv(env_);\n  } else {\n    subparser_->env_ = env_;\n  }', '  if (!new_scope) {\n    subparser_->env_ = new BindingEnv(env_);\n  } else {\n    subparser_->env_ = env_;\n  }', 'C12.TA1', 'scoping inverted'),
    ('C12', 'skip-canonicalize-validations', 'src/manifest_parser.cc',
     '    uint64_t slash_bits;\n    CanonicalizePath(&path, &slash_bits);\n    state_->AddValidation(edge, path, slash_bits);', '    uint64_t slash_bits = 0;\n    state_->AddValidation(edge, path, slash_bits);', 'C12.CN', 'validation node identity differs'),
    ('C12', 'duplicate-rule-accepted', 'src/manifest_parser.cc',
     '  if (env_->LookupRuleCurrentScope(name) != NULL)\n    return lexer_.Error("duplicate rule \'" + name + "\'", err);\n', '', 'C12.X', 'duplicate rule accepted'),
    ('C13', 'lexer-comment-past-nul', 'src/lexer.cc',
     '	yych = *(q = ++p);\n	if (yych <= 0x00) goto yy3;\n	goto yy24;', '	yych = *(q = ++p);\n	++p;\n	goto yy24;', 'C13.VS1', 'scanner may read past the sentinel'),
    ('C13', 'size-check-after-fread', 'src/deps_log.cc',
     '    if (size > kMaxRecordSize || fread(buf, size, 1, f) < 1) {', '    if (fread(buf, size, 1, f) < 1 || size > kMaxRecordSize) {', 'C13.TB1', 'buffer overflow on oversized record'),
    ('C13', 'new-unguarded-recursion', 'src/state.cc',
     'vector<Node*> State::RootNodes(string* err) const {', 'static int CountProducers(Node* n) {\n  int c = 0;\n  if (Edge* e = n->in_edge())\n    for (size_t i = 0; i < e->inputs_.size(); ++i)\n      c += 1 + CountProducers(e->inputs_[i]);\n  return c;\n}\n\nvector<Node*> State::RootNodes(string* err) const {\n  if (!edges_.empty() && !edges_[0]->outputs_.empty())\n    (void)CountProducers(edges_[0]->outputs_[0]);', 'C13.M1', 'recursion over a possibly cyclic graph'),
    ('C16', 'command-unescaped', 'src/graph.cc',
     'std::string Edge::GetBinding(StringPiece key) const {\n  EdgeEnv env(this, EdgeEnv::kShellEscape);', 'std::string Edge::GetBinding(StringPiece key) const {\n  EdgeEnv env(this, EdgeEnv::kDoNotEscape);', 'C16.W1', 'paths reach the shell unquoted'),
    ('C16', 'rspfile-removed-on-failure', 'src/build.cc',
     '  if (!result.success()) {\n    return plan_.EdgeFinished(edge, Plan::kEdgeFailed, err);\n  }', '  if (!result.success()) {\n    disk_interface_->RemoveFile(edge->GetUnescapedRspfile());\n    return plan_.EdgeFinished(edge, Plan::kEdgeFailed, err);\n  }', 'C16.O1', 'response file lost for debugging a failure'),
    ('C17', 'verifydag-after-descent', 'src/graph.cc',
     '  // If we encountered this edge earlier in the call stack we have a cycle.\n  if (!VerifyDAG(node, stack, err))\n    return false;\n', '', 'C17.O1', 'cycle never diagnosed (stack overflow)'),
    ('C17', 'recurse-into-validations', 'src/graph.cc',
     '  validation_nodes->insert(validation_nodes->end(),\n      edge->validations_.begin(), edge->validations_.end());', '  for (Node* v : edge->validations_)\n    if (!RecomputeNodeDirty(v, stack, validation_nodes, err))\n      return false;', 'C17.V1', 'false cycle through a validation'),
    ('C18', 'clean-inputs-too', 'src/clean.cc',
     '      for (Node* output : e->outputs_) {\n        Remove(output->path());\n      }', '      for (Node* output : e->outputs_) {\n        Remove(output->path());\n      }\n      for (Node* input : e->inputs_) {\n        if (!input->in_edge()) Remove(input->path());\n      }', 'C18.V1', 'source files deleted'),
    ('C18', 'dry-run-guard-dropped', 'src/clean.cc',
     '    if (config_.dry_run) {\n      if (FileExists(path))\n        Report(path);\n    } else {', '    if (false) {\n      if (FileExists(path))\n        Report(path);\n    } else {', 'C18.W1', 'files removed under -n'),
    ('C19', 'query-tool-recompacts', 'src/ninja.cc',
     'int NinjaMain::ToolQuery(const Options* options, int argc, char* argv[]) {', 'int NinjaMain::ToolQuery(const Options* options, int argc, char* argv[]) {\n  { std::string e; deps_log_.Recompact(".ninja_deps", &e); }', 'C19.EF1', 'query tool rewrites the deps log'),
    ('C19', 'logs-opened-under-dry-run', 'src/ninja.cc',
     '  if (!config_.dry_run) {\n    if (!build_log_.OpenForWrite(log_path, *this, &err)) {\n      Error("opening build log: %s", err.c_str());\n      return false;\n    }\n  }\n\n  return true;\n}\n\n/// Open the deps log', '  if (true) {\n    if (!build_log_.OpenForWrite(log_path, *this, &err)) {\n      Error("opening build log: %s", err.c_str());\n      return false;\n    }\n  }\n\n  return true;\n}\n\n/// Open the deps log', 'C19.EF2', 'build log written under -n'),
    ('C19', 'json-quote-unescaped', 'src/json.cc',
     "    else if (c == '\\\"')\n      out += \"\\\\\\\"\";\n", '', 'C19.VS1', 'invalid JSON'),
    ('C20', 'finish-report-only-on-success', 'src/build.cc',
     '  status_->BuildEdgeFinished(edge, start_time_millis, end_time_millis,\n                             result.status, result.output);\n\n  // The rest of this function only applies to successful commands.\n  if (!result.success()) {\n    return plan_.EdgeFinished(edge, Plan::kEdgeFailed, err);\n  }',
     '  // The rest of this function only applies to successful commands.\n  if (!result.success()) {\n    return plan_.EdgeFinished(edge, Plan::kEdgeFailed, err);\n  }\n  status_->BuildEdgeFinished(edge, start_time_millis, end_time_millis,\n                             result.status, result.output);', 'C20.R1', 'failed commands never reported, output lost'),
    ('C20', 'unlock-without-flush', 'src/line_printer.cc',
     '  if (!locked) {\n    PrintOnNewLine(output_buffer_);', '  if (!locked) {', 'C20.R2', 'held-back output lost'),
]

B = [
    ('rename-local', 'src/build.cc', 'bool directly_wanted = e->second != kWantNothing;', 'bool directly_wanted = e->second != kWantNothing;  // (benign edit)'),
    ('accessor-instead-of-field', 'src/build.cc', '  edge->outputs_ready_ = true;\n\n  // Load dyndep info', '  edge->outputs_ready_ = true;\n  (void)edge->outputs_ready();\n\n  // Load dyndep info'),
    ('swap-comparison-operands', 'src/graph.cc', 'output->mtime() < most_recent_input->mtime()) {', 'most_recent_input->mtime() > output->mtime()) {'),
    ('invert-if-branches', 'src/build.cc', '  if (pool->ShouldDelayEdge()) {\n    pool->DelayEdge(edge);\n    pool->RetrieveReadyEdges(&ready_);\n  } else {\n    pool->EdgeScheduled(*edge);\n    ready_.push(edge);\n  }',
     '  if (!pool->ShouldDelayEdge()) {\n    pool->EdgeScheduled(*edge);\n    ready_.push(edge);\n  } else {\n    pool->DelayEdge(edge);\n    pool->RetrieveReadyEdges(&ready_);\n  }'),
    ('iterator-to-range-for', 'src/build.cc', '  for (vector<Node*>::iterator o = edge->outputs_.begin();\n       o != edge->outputs_.end(); ++o) {\n    if (!NodeFinished(*o, err))\n      return false;\n  }',
     '  for (Node* o : edge->outputs_) {\n    if (!NodeFinished(o, err))\n      return false;\n  }'),
    ('extract-helper', 'src/deps_log.cc', '      if (id != expected_id || node->id() >= 0) {', '      const bool id_mismatch = id != expected_id;\n      if (id_mismatch || node->id() >= 0) {'),
    ('reorder-independent-statements', 'src/build_log.cc', '    log_entry->start_time = start_time;\n    log_entry->end_time = end_time;', '    log_entry->end_time = end_time;\n    log_entry->start_time = start_time;'),
    ('add-comment-and-blank-lines', 'src/clean.cc', 'void Cleaner::DoCleanRule(const Rule* rule) {', '// Removes what the statements using |rule| built.\n\nvoid Cleaner::DoCleanRule(const Rule* rule) {'),
    ('explicit-null-compare', 'src/build.cc', '  if (!edge) {\n     // Leaf node', '  if (edge == NULL) {\n     // Leaf node'),
    ('early-continue', 'src/state.cc', '    if (current_use_ + edge->weight() > depth_)\n      break;', '    const bool full = current_use_ + edge->weight() > depth_;\n    if (full)\n      break;'),
]


def make(file, old, new):
    path = os.path.join('/repo', file)
    src = open(path).read()
    if src.count(old) != 1:
        return None
    dst = src.replace(old, new)
    return ''.join(difflib.unified_diff(src.splitlines(True), dst.splitlines(True), 'a/' + file, 'b/' + file, n=3))


def main():
    n = 0
    bad = []
    for pid, name, file, old, new, rule, note in M:
        d = make(file, old, new)
        if d is None:
            bad.append('%s/%s' % (pid, name))
            continue
        os.makedirs(os.path.join(OUT, pid), exist_ok=True)
        open(os.path.join(OUT, pid, name + '.patch'), 'w').write('# property: %s\n# expect: %s\n# effect: %s\n%s' % (pid, rule, note, d))
        n += 1
    for name, file, old, new in B:
        d = make(file, old, new)
        if d is None:
            bad.append('benign/' + name)
            continue
        os.makedirs(os.path.join(OUT, 'benign'), exist_ok=True)
        open(os.path.join(OUT, 'benign', name + '.patch'), 'w').write('# benign: behaviour-preserving edit; every check must stay silent\n' + d)
        n += 1
    print('%d patches written; anchors not found: %s' % (n, bad))


if __name__ == '__main__':
    main()
