"""Which check catches which change (tool, not a registered check).

For every patch under the given directories (seeded/<id>/patch.diff, mutants/**/*.patch, or
/tmp/seed-out/<id>/patch.diff) a scratch copy of /repo's sources is made outside /repo and /verif,
the patch is applied there, and every registered check is run against the copy (NV_REPO).  Prints
and writes a matrix {patch: {property: [rule/construct ...]}}.  Scratch copies are removed."""
import concurrent.futures
import json
import os
import shutil
import subprocess
import sys
import tempfile

VERIF = os.path.dirname(os.path.dirname(os.path.abspath(__file__)))
PROPS = [c['property_id'] for c in json.load(open(os.path.join(VERIF, 'MANIFEST.json')))['checks']]


def run_one(item):
    name, patch = item
    tmp = tempfile.mkdtemp(prefix='nvmx-')
    try:
        os.makedirs(os.path.join(tmp, 'repo'))
        shutil.copytree('/repo/src', os.path.join(tmp, 'repo', 'src'))
        shutil.copy('/repo/CMakeLists.txt', os.path.join(tmp, 'repo', 'CMakeLists.txt'))
        p = subprocess.run(['patch', '-p1', '--fuzz=3', '-s', '-i', patch], cwd=os.path.join(tmp, 'repo'),
                           stdout=subprocess.PIPE, stderr=subprocess.STDOUT, text=True)
        if p.returncode != 0:
            return name, {'error': 'patch does not apply: ' + p.stdout[-200:]}
        env = dict(os.environ, NV_REPO=os.path.join(tmp, 'repo'), NV_CACHE=os.path.join(tmp, 'cache'),
                   NV_EVIDENCE=os.path.join(tmp, 'evidence'),
                   NV_UNIT_CACHE=os.environ.get('NV_UNIT_CACHE') or os.path.join(tempfile.gettempdir(), 'nv-unit-cache'))
        res = {}
        # all twenty checks in one process (facts loaded once); MATRIX_SEPARATE=1 runs the registered one-process-per-property form
        outputs = {}
        if os.environ.get('MATRIX_SEPARATE'):
            for pid in PROPS:
                r = subprocess.run([sys.executable, os.path.join(VERIF, 'nv', 'check.py'), pid], env=env,
                                   stdout=subprocess.PIPE, stderr=subprocess.STDOUT, text=True)
                outputs[pid] = (r.returncode, r.stdout)
        else:
            r = subprocess.run([sys.executable, os.path.join(VERIF, 'tools', 'run_all_inproc.py')] + PROPS, env=env,
                               stdout=subprocess.PIPE, stderr=subprocess.STDOUT, text=True)
            cur = None
            for l in r.stdout.splitlines():
                if l.startswith('### '):
                    cur = l.split()[1]
                    outputs[cur] = (int(l.split('rc=')[1]), '')
                elif cur:
                    outputs[cur] = (outputs[cur][0], outputs[cur][1] + l + '\n')
            for pid in PROPS:
                outputs.setdefault(pid, (2, 'ANALYSIS-BROKEN property=%s: runner died: %s' % (pid, r.stdout[-300:])))
        for pid in PROPS:
            class R_:
                pass
            r = R_()
            r.returncode, r.stdout = outputs[pid]
            if r.returncode == 0:
                continue
            hits = []
            for l in r.stdout.splitlines():
                if l.startswith(('VIOLATION', 'KNOWN-FINDING', '    witness', 'note:', 'OK ')):
                    continue
                if l.startswith('ANALYSIS-BROKEN'):
                    hits.append('EXIT2: ' + l[:160])
                elif ': C' in l and '[' in l:
                    rule = l.split(': ')[1] if len(l.split(': ')) > 1 else '?'
                    cons = l[l.rfind('[') + 1:l.rfind(']')]
                    hits.append('%s [%s]' % (rule, cons[:110]))
            res[pid] = {'rc': r.returncode, 'hits': hits[:6]}
        return name, res
    finally:
        shutil.rmtree(tmp, ignore_errors=True)


def main():
    items = []
    for root in [os.path.abspath(r) for r in sys.argv[1:]]:
        for dirpath, dirs, files in os.walk(root):
            for f in sorted(files):
                if f == 'patch.adapted.diff':
                    items.append((os.path.basename(dirpath), os.path.join(dirpath, f)))
                elif f == 'patch.diff' and 'patch.adapted.diff' not in files:
                    items.append((os.path.basename(dirpath), os.path.join(dirpath, f)))
                elif f.endswith('.patch'):
                    items.append((os.path.relpath(os.path.join(dirpath, f), root), os.path.join(dirpath, f)))
    with concurrent.futures.ThreadPoolExecutor(int(os.environ.get("NV_JOBS", "8"))) as ex:
        out = dict(ex.map(run_one, items))
    for name in sorted(out):
        r = out[name]
        if 'error' in r:
            print('%-14s %s' % (name, r['error']))
            continue
        caught = {p: v for p, v in r.items() if v['rc'] == 1}
        broken = {p: v for p, v in r.items() if v['rc'] == 2}
        print('%-14s %s%s' % (name, 'caught by ' + ', '.join('%s(%s)' % (p, v['hits'][0].split(' [')[0] if v['hits'] else '?') for p, v in sorted(caught.items())) if caught else 'NOT CAUGHT',
                              ('  exit2: ' + ','.join(sorted(broken))) if broken else ''))
    json.dump(out, open(os.environ.get('MATRIX_OUT', '/tmp/matrix.json'), 'w'), indent=1)


if __name__ == '__main__':
    main()
