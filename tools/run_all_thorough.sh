#!/bin/sh
# tool: run every registered thorough command in sequence (evidence is rewritten)
cd "$(dirname "$0")/.." || exit 2
rc=0
for p in $(python3 -c "import json;print(' '.join(c['property_id'] for c in json.load(open('MANIFEST.json'))['checks']))"); do
  python3 nv/check.py $p --tier thorough | grep -v '^KNOWN-FINDING' || true
done
