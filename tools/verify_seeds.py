"""Confirm the seeded changes delivered by the sub-agents (tool, not a registered check).

For every /tmp/seed-out/<ID>-<X>/ : apply patch.diff to a scratch worktree of /repo HEAD (outside
/repo and /verif), build ninja + ninja_test there, require the unedited test suite to pass, run
the demonstration against the changed binary (must fail) and against /repo/_build/ninja (must
pass).  Writes /tmp/seed-out/verify.json.  Worktrees and build output are removed at the end."""
import concurrent.futures
import json
import os
import shutil
import subprocess
import sys

SEED = sys.argv[1] if len(sys.argv) > 1 else '/tmp/seed-out'
BASE_NINJA = os.environ.get('BASE_NINJA', '/repo/_build/ninja')      # reference binary for the "without the change" run
MAKE_NINJA = '/repo/_build/ninja'
NW = int(os.environ.get('NW', '1'))


def sh(cmd, cwd=None, timeout=600):
    p = subprocess.run(cmd, shell=True, cwd=cwd, stdout=subprocess.PIPE, stderr=subprocess.STDOUT, text=True, timeout=timeout)
    return p.returncode, p.stdout


def setup(k):
    wt = '/tmp/sv-%d' % k
    sh('git -C /repo worktree remove --force %s' % wt)
    shutil.rmtree(wt, ignore_errors=True)
    rc, out = sh('git -C /repo worktree add -f %s HEAD' % wt)
    assert rc == 0, out
    rc, out = sh('cmake -G Ninja -B _build -DCMAKE_BUILD_TYPE=Release -DGTest_DIR=/root/miniconda/lib/cmake/GTest '
                 '-DCMAKE_MAKE_PROGRAM=%s . >/dev/null && %s -C _build ninja ninja_test' % (MAKE_NINJA, MAKE_NINJA), cwd=wt, timeout=1200)
    assert rc == 0, out[-2000:]
    return wt


def verify(wt, sid):
    d = os.path.join(SEED, sid)
    res = {'id': sid}
    patch = os.path.join(d, 'patch.diff')
    alt = os.path.join(d, 'patch.adapted.diff')
    if os.path.exists(alt):
        patch = alt
        res['adapted'] = True
    sh('git checkout -- . && git clean -fdq -e _build', cwd=wt)
    rc, out = sh('git apply --whitespace=nowarn %s' % patch, cwd=wt)
    if rc != 0:
        rc, out = sh('patch -p1 --fuzz=3 -s < %s' % patch, cwd=wt)
        res['applied_with'] = 'patch --fuzz'
    if rc != 0:
        res['error'] = 'patch does not apply: ' + out[-300:]
        return res
    rc, out = sh('%s -C _build ninja ninja_test' % MAKE_NINJA, cwd=wt, timeout=1200)
    res['builds'] = rc == 0
    if rc != 0:
        res['error'] = out[-500:]
        return res
    rc, out = sh('./_build/ninja_test', cwd=wt, timeout=600)
    res['tests_pass'] = rc == 0 and 'PASSED' in out
    res['tests_tail'] = out.strip().splitlines()[-1] if out.strip() else ''
    demo = os.path.join(d, 'demo.sh')
    if not os.path.exists(demo):
        res['error'] = 'no demo.sh'
        return res
    rc1, out1 = sh('bash %s %s/_build/ninja' % (demo, wt), timeout=300)
    rc0, out0 = sh('bash %s %s' % (demo, BASE_NINJA), timeout=300)
    res['demo_with_change'] = rc1
    res['demo_without_change'] = rc0
    res['demo_with_tail'] = out1.strip().splitlines()[-1][:200] if out1.strip() else ''
    res['confirmed'] = bool(res['tests_pass'] and rc1 != 0 and rc0 == 0)
    sh('git checkout -- . && git clean -fdq -e _build', cwd=wt)
    return res


def worker(args):
    k, ids = args
    wt = setup(k)
    out = []
    for sid in ids:
        try:
            out.append(verify(wt, sid))
        except Exception as e:
            out.append({'id': sid, 'error': repr(e)})
        print(json.dumps(out[-1]), flush=True)
    sh('git -C /repo worktree remove --force %s' % wt)
    shutil.rmtree(wt, ignore_errors=True)
    return out


def main():
    ids = sorted(d for d in os.listdir(SEED) if os.path.isdir(os.path.join(SEED, d)) and os.path.exists(os.path.join(SEED, d, 'patch.diff')))
    if len(sys.argv) > 2:
        ids = [i for i in ids if i in sys.argv[2:]]
    chunks = [(k, ids[k::NW]) for k in range(NW)]
    with concurrent.futures.ThreadPoolExecutor(NW) as ex:
        res = [r for part in ex.map(worker, chunks) for r in part]
    old = {}
    if os.path.exists(os.path.join(SEED, 'verify.json')):
        old = {r['id']: r for r in json.load(open(os.path.join(SEED, 'verify.json')))}
    for r in res:
        old[r['id']] = r
    json.dump(sorted(old.values(), key=lambda r: r['id']), open(os.path.join(SEED, 'verify.json'), 'w'), indent=1)
    sh('git -C /repo worktree prune')


if __name__ == '__main__':
    main()
