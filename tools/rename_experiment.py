"""Rename experiment (tool, not a registered check): for every local / parameter name a rule mentions (is_var(...)), rename it
throughout the .cc files where the renamed file still compiles, and run that property check on the scratch copy.  A pure rename
must leave every check silent (nv/alpha.py maps such names back to the reference names)."""
import re, os, sys, subprocess, shutil, tempfile, glob, json, concurrent.futures
VER=os.path.dirname(os.path.dirname(os.path.abspath(__file__)))
pairs=set()
for pf in glob.glob(VER+'/nv/props/c*.py'):
    pid=os.path.basename(pf)[:-3].upper()
    if not re.match(r'C\d\d$',pid): continue
    for n in re.findall(r"is_var\('([A-Za-z_]+)'\)", open(pf).read()):
        pairs.add((pid,n))
STR=re.compile(r'"(?:\\.|[^"\\])*"|\'(?:\\.|[^\'\\])*\'')
def rename(src, name):
    """whole-word rename outside string / character literals and preprocessor lines; not a member access, not a call"""
    rx=re.compile(r'(?<![\w.>:])'+re.escape(name)+r'(?!\w|\s*\()')
    out=[]
    for line in src.split('\n'):
        if line.lstrip().startswith('#'):
            out.append(line); continue
        pos=0; res=[]
        for m in STR.finditer(line):
            res.append(rx.sub(name+'_rn', line[pos:m.start()])); res.append(m.group(0)); pos=m.end()
        res.append(rx.sub(name+'_rn', line[pos:]))
        out.append(''.join(res))
    return '\n'.join(out)


def one(pn):
    pid,name=pn
    tmp=tempfile.mkdtemp(prefix='nvren-',dir=os.environ.get('TMPDIR', '/tmp'))
    try:
        os.makedirs(tmp+'/repo'); shutil.copytree('/repo/src',tmp+'/repo/src'); shutil.copy('/repo/CMakeLists.txt',tmp+'/repo/')
        changed=[]
        for f in glob.glob(tmp+'/repo/src/*.cc'):
            if f.endswith('_test.cc') or 'win32' in f or 'msvc' in f or f.endswith('test.cc'): continue
            s=open(f).read()
            # strip nothing; rename whole-word uses that are not member accesses / calls / string contents
            s2=rename(s,name)
            if s2!=s:
                open(f,'w').write(s2); changed.append(f)
        bad=[]
        for f in changed:
            r=subprocess.run(['clang++','-fsyntax-only','-std=gnu++17','-DUSE_PPOLL=1','-DNDEBUG','-I',tmp+'/repo/src',f],stdout=subprocess.PIPE,stderr=subprocess.STDOUT,text=True)
            if r.returncode!=0: bad.append(os.path.basename(f))
        if bad:
            # restore files that do not compile (the name is also a field / label there): rename only where it compiles
            for f in changed:
                if os.path.basename(f) in bad: shutil.copy('/repo/src/'+os.path.basename(f),f)
            changed=[f for f in changed if os.path.basename(f) not in bad]
        if not changed: return pid,name,'no-valid-rename',bad
        env=dict(os.environ,NV_REPO=tmp+'/repo',NV_CACHE=tmp+'/cache',NV_EVIDENCE=tmp+'/ev')
        r=subprocess.run([sys.executable,VER+'/nv/check.py',pid],env=env,stdout=subprocess.PIPE,stderr=subprocess.STDOUT,text=True)
        lines=[l for l in r.stdout.splitlines() if not l.startswith(('KNOWN','OK','VIOLATION','    witness','note'))]
        return pid,name,'rc=%d files=%s skipped=%s'%(r.returncode,[os.path.basename(f) for f in changed],bad),[l[:200] for l in lines[:3]]
    finally:
        shutil.rmtree(tmp,ignore_errors=True)
with concurrent.futures.ThreadPoolExecutor(6) as ex:
    for res in ex.map(one,sorted(pairs)):
        print(res,flush=True)
