"""Tool (not a registered check): run all twenty quick checks on NV_REPO in ONE process (facts loaded and normalised
once) and print, per property, `### <id> rc=<n>` followed by the check's own output.  Used by tools/matrix.py to make
whole-corpus runs affordable; the registered commands stay one process per property."""
import contextlib
import importlib
import io
import json
import os
import sys
import traceback

sys.path.insert(0, os.path.join(os.path.dirname(os.path.dirname(os.path.abspath(__file__))), 'nv'))
from facts import AnalysisBroken, load_facts   # noqa: E402
from model import Program                       # noqa: E402
from core import Ctx                            # noqa: E402

props = sys.argv[1:] or ['C%02d' % k for k in range(1, 21)]
try:
    facts, info = load_facts()
    prog = Program(facts)
    if len(prog.functions) < 600:
        raise AnalysisBroken('only %d functions with bodies extracted (>= 600 confirmed)' % len(prog.functions))
    broken = None
except AnalysisBroken as e:
    broken = str(e)
except Exception:
    broken = 'internal error: ' + traceback.format_exc()[-400:]
for pid in props:
    buf = io.StringIO()
    rc = 2
    if broken is not None:
        buf.write('ANALYSIS-BROKEN property=%s: %s\n' % (pid, broken))
    else:
        with contextlib.redirect_stdout(buf):
            try:
                mod = importlib.import_module('props.' + pid.lower())
                ctx = Ctx(pid, prog, info, 'quick')
                mod.run(ctx)
                rc = ctx.finish()
                if rc == 0:
                    print('OK property=%s tier=quick' % pid)
            except AnalysisBroken as e:
                print('ANALYSIS-BROKEN property=%s: %s' % (pid, e))
            except Exception:
                traceback.print_exc(file=buf)
                print('ANALYSIS-BROKEN property=%s: internal error' % pid)
    print('### %s rc=%d' % (pid, rc))
    sys.stdout.write(buf.getvalue())
