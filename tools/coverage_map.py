"""Tool (not a registered check): which functions of the analysed program do the obligations of the 20 checks land in?
Runs every property's rules in-process, maps each obligation's file:line to the enclosing function (line ranges from the
facts) and prints the non-test functions, largest first, that no obligation touches - the blind spots a new rule or a
seeded change is most likely to find.  python3 tools/coverage_map.py [min_lines]"""
import collections
import importlib
import io
import json
import os
import re
import sys
import contextlib

sys.path.insert(0, '/verif/nv')
os.environ['NV_EVIDENCE'] = '/tmp/covmap-evidence'
from facts import load_facts      # noqa: E402
from model import Program         # noqa: E402
from core import Ctx              # noqa: E402

MINL = int(sys.argv[1]) if len(sys.argv) > 1 else 6
facts, info = load_facts()
prog = Program(facts)
ranges = collections.defaultdict(list)         # file -> [(first, last, fn)]
for f in prog.functions.values():
    lines = [e.get('line') for b in f.blocks.values() for e in b['ev'] if e.get('line')]
    last = max(lines + [f.line])
    ranges[os.path.basename(f.file)].append((f.line, last, f))
hits = collections.Counter()
byprop = collections.defaultdict(set)
for k in range(1, 21):
    pid = 'C%02d' % k
    mod = importlib.import_module('props.' + pid.lower())
    ctx = Ctx(pid, prog, info, 'quick')
    with contextlib.redirect_stdout(io.StringIO()):
        try:
            mod.run(ctx)
        except Exception as e:      # noqa
            print('!!', pid, e, file=sys.stderr)
    for i in ctx.instances:
        text = json.dumps(i)
        for m in re.finditer(r'([a-z_]+\.(?:cc|h)):(\d+)', text):
            fn, ln = m.group(1), int(m.group(2))
            for a, b, f in ranges.get(fn, []):
                if a <= ln <= b:
                    hits[f.id] += 1
                    byprop[f.id].add(pid)
        for m in re.finditer(r'\b((?:[A-Z][A-Za-z]+::)+~?[A-Za-z_]+)', text):
            for f in prog.functions.values():
                if f.name == m.group(1):
                    hits[f.id] += 1
                    byprop[f.id].add(pid)
rows = []
for file, lst in ranges.items():
    if '_test' in file or file in ('test.cc', 'test.h') or 'perftest' in file:
        continue
    for a, b, f in lst:
        rows.append((b - a + 1, file, f.name, hits.get(f.id, 0), sorted(byprop.get(f.id, []))))
rows.sort(reverse=True)
print('functions (non-test):', len(rows), ' touched:', sum(1 for r in rows if r[3]))
print('--- untouched, >= %d lines' % MINL)
for n, file, name, h, ps in rows:
    if not h and n >= MINL:
        print('%4d  %-28s %s' % (n, file, name))
print('--- touched')
for n, file, name, h, ps in rows:
    if h and n >= MINL:
        print('%4d  %-28s %-60s %4d %s' % (n, file, name, h, ','.join(ps)))
