"""Zone (difference-bound matrix) abstract interpretation of ONE function over its scalar locals:
pointers into one buffer (all char-sized) and integers.  Domain: conjunctions of `x - y <= c`
(x, y variables or the constant ZERO), closed by shortest paths; join = pointwise max, widening at
loop heads drops unstable bounds.  Transfer functions handle linear assignments with up to four
variables (bounds of `x' - v` are obtained by pairing the positive and negative terms of the linear
form `E - v` through the matrix), `++/--/+=/-=`, division by a positive constant, symbolic
definitions of differences (`n = p - q`: a later test on n refines p - q), memchr results and
nullable pointers.  The interpretation is a plain forward dataflow over the clang CFG facts: every
path of the function is covered, loops included.

What is decided with it (rules C14.Z1 / C13.Z1): obligations of the form `form <= c` at memory
accesses, length arguments and stores - e.g. "this write is below the end of the buffer", "the
length stored back is not larger than the length passed in".  An obligation that the fixpoint does
not entail is reported as not discharged; nothing is ever assumed about values the analysis does
not track (they are unbounded)."""
import itertools

from model import strip, const_value, dstr, assigned_value

INF = float('inf')
ZERO = '0'


class Bottom(Exception):
    pass


class Zone:
    __slots__ = ('vars', 'ix', 'm', 'defs', 'maynull', 'bot')

    def __init__(self, vars_):
        self.vars = [ZERO] + [v for v in vars_ if v != ZERO]
        self.ix = {v: i for i, v in enumerate(self.vars)}
        n = len(self.vars)
        self.m = [[0 if i == j else INF for j in range(n)] for i in range(n)]
        self.defs = {}
        self.maynull = set()
        self.bot = False

    def copy(self):
        z = Zone.__new__(Zone)
        z.vars = self.vars
        z.ix = self.ix
        z.m = [r[:] for r in self.m]
        z.defs = dict(self.defs)
        z.maynull = set(self.maynull)
        z.bot = self.bot
        return z

    # ---- matrix ---------------------------------------------------------------------------------
    def close(self):
        if self.bot:
            return self
        m, n = self.m, len(self.vars)
        for k in range(n):
            mk = m[k]
            for i in range(n):
                mik = m[i][k]
                if mik == INF:
                    continue
                mi = m[i]
                for j in range(n):
                    v = mik + mk[j]
                    if v < mi[j]:
                        mi[j] = v
        for i in range(n):
            if m[i][i] < 0:
                self.bot = True
                break
        return self

    def add(self, x, y, c):
        """x - y <= c"""
        if self.bot:
            return
        i, j = self.ix[x], self.ix[y]
        if c < self.m[i][j]:
            self.m[i][j] = c
            # incremental closure
            m, n = self.m, len(self.vars)
            for a in range(n):
                mai = m[a][i]
                if mai == INF:
                    continue
                for b in range(n):
                    v = mai + c + m[j][b]
                    if v < m[a][b]:
                        m[a][b] = v
            for a in range(n):
                if m[a][a] < 0:
                    self.bot = True
                    return

    def ub(self, x, y):
        return self.m[self.ix[x]][self.ix[y]]

    def forget(self, x):
        i = self.ix[x]
        n = len(self.vars)
        for j in range(n):
            if j != i:
                self.m[i][j] = INF
                self.m[j][i] = INF
        for k in [k for k, f in self.defs.items() if k == x or x in f[0]]:
            del self.defs[k]
        self.maynull.discard(x)

    def join(self, o):
        if self.bot:
            return o.copy()
        if o.bot:
            return self.copy()
        z = self.copy()
        n = len(self.vars)
        for i in range(n):
            for j in range(n):
                if o.m[i][j] > z.m[i][j]:
                    z.m[i][j] = o.m[i][j]
        z.defs = {k: v for k, v in self.defs.items() if o.defs.get(k) == v}
        z.maynull = self.maynull | o.maynull
        return z

    def widen(self, new):
        """self = previous state at a loop head, new = joined state: bounds that grew are dropped."""
        if self.bot:
            return new.copy()
        if new.bot:
            return self.copy()
        z = new.copy()
        n = len(self.vars)
        for i in range(n):
            for j in range(n):
                if new.m[i][j] > self.m[i][j]:
                    z.m[i][j] = INF
        return z

    def leq(self, o):
        if self.bot:
            return True
        if o.bot:
            return False
        n = len(self.vars)
        return all(self.m[i][j] <= o.m[i][j] for i in range(n) for j in range(n)) and self.maynull <= o.maynull and \
            all(self.defs.get(k) == v for k, v in o.defs.items())

    # ---- linear forms ---------------------------------------------------------------------------
    def form_ub(self, form):
        """upper bound of the linear form (terms: {var: coef}, const) under this zone; the identities given by symbolic
        definitions (x = D, i.e. D - x = 0) are also tried added to / subtracted from the form."""
        if not self.defs:
            return self._form_ub_raw(form)
        vs = set(form[0])
        if not any(x in vs or (vs & set(d[0])) for x, d in self.defs.items()):
            return self._form_ub_raw(form)
        return min(self._form_ub_raw(g) for g in self.expand(form))

    def _form_ub_raw(self, form):
        terms, k = form
        pos, neg = [], []
        for v, c in terms.items():
            (pos if c > 0 else neg).extend([v] * abs(c))
        if len(pos) > 4 or len(neg) > 4:
            return INF
        while len(pos) < len(neg):
            pos.append(ZERO)
        while len(neg) < len(pos):
            neg.append(ZERO)
        if not pos:
            return k
        best = INF
        for perm in set(itertools.permutations(neg)):
            s = 0
            for p, q in zip(pos, perm):
                b = self.m[self.ix[p]][self.ix[q]]
                if b == INF:
                    s = INF
                    break
                s += b
            if s < best:
                best = s
        return best + k

    def form_lb(self, form):
        terms, k = form
        return -self.form_ub(({v: -c for v, c in terms.items()}, -k))

    def expand(self, form):
        """the form itself and the forms obtained by adding multiples of the identities `D - x = 0` of the symbolic
        definitions (replacing x by D is one of them)."""
        out = [form]
        terms, k = form
        vs = set(terms)
        for x, (dt, dk) in self.defs.items():
            if x not in vs and not (vs & set(dt)):
                continue
            ks = {-1, 1}
            if x in terms:
                ks.add(terms[x])
            for m in ks:
                t2 = dict(terms)
                t2[x] = t2.get(x, 0) - m
                for a, b in dt.items():
                    t2[a] = t2.get(a, 0) + m * b
                t2 = {a: b for a, b in t2.items() if b}
                if sum(abs(c) for c in t2.values()) <= 8:
                    out.append((t2, k + m * dk))
        return out

    def add_le(self, form, c=0):
        """constrain form <= c (best effort: only zone-expressible consequences are kept; sound)."""
        for terms, k in self.expand(form):
            terms = {v: co for v, co in terms.items() if co}
            pos = [v for v, co in terms.items() for _ in range(abs(co)) if co > 0]
            neg = [v for v, co in terms.items() for _ in range(abs(co)) if co < 0]
            if not pos and not neg:
                if k > c:
                    self.bot = True
                continue
            if len(pos) <= 1 and len(neg) <= 1:
                self.add(pos[0] if pos else ZERO, neg[0] if neg else ZERO, c - k)
                continue
            if len(pos) > 3 or len(neg) > 3:
                continue
            for p in set(pos) | {ZERO}:
                for q in set(neg) | {ZERO}:
                    if p == q:
                        continue
                    rest = dict(terms)
                    if p != ZERO:
                        rest[p] = rest[p] - 1
                    if q != ZERO:
                        rest[q] = rest[q] + 1
                    rest = {v: co for v, co in rest.items() if co}
                    lb = self.form_lb((rest, 0))
                    if lb > -INF:
                        self.add(p, q, c - k - lb)

    def assign(self, x, form, unsigned=False):
        """x := form (a linear form, possibly mentioning x)."""
        if self.bot:
            return
        terms, k = form
        if unsigned and self.form_lb(form) < 0:
            # may wrap around: only x >= 0 is known
            self.forget(x)
            self.add(ZERO, x, 0)
            return
        newrow, newcol = {}, {}
        for v in self.vars:
            if v == x:
                continue
            t = dict(terms)
            t[v] = t.get(v, 0) - 1
            t = {a: b for a, b in t.items() if b}
            newrow[v] = self.form_ub((t, k))          # x' - v <=
            newcol[v] = -self.form_lb((t, k))         # v - x' <=
        null = any(v in self.maynull for v in terms)
        self.forget(x)
        i = self.ix[x]
        for v, b in newrow.items():
            self.m[i][self.ix[v]] = min(self.m[i][self.ix[v]], b)
        for v, b in newcol.items():
            self.m[self.ix[v]][i] = min(self.m[self.ix[v]][i], b)
        self.close()
        if x not in terms and len(terms) >= 2:
            self.defs[x] = (dict(terms), k)
        if null:
            self.maynull.add(x)

    def reduce(self):
        """propagate between a defined variable and its definition."""
        for x, f in list(self.defs.items()):
            if self.bot:
                return
            u, l = self.form_ub(f), self.form_lb(f)
            if u < INF:
                self.add(x, ZERO, u)
            if l > -INF:
                self.add(ZERO, x, -l)
            xu, xl = self.ub(x, ZERO), -self.ub(ZERO, x)
            terms, k = f
            if xu < INF:
                self._add_noexpand((terms, k), xu)
            if xl > -INF:
                self._add_noexpand(({v: -c for v, c in terms.items()}, -k), -xl)

    def _add_noexpand(self, form, c):
        terms, k = form
        pos = [v for v, co in terms.items() for _ in range(abs(co)) if co > 0]
        neg = [v for v, co in terms.items() for _ in range(abs(co)) if co < 0]
        if len(pos) <= 1 and len(neg) <= 1 and (pos or neg):
            self.add(pos[0] if pos else ZERO, neg[0] if neg else ZERO, c - k)

    def entails(self, form, c=0):
        if self.bot:
            return True
        return self.form_ub(form) <= c

    def describe(self, names=None):
        if self.bot:
            return 'unreachable'
        out = []
        for i, a in enumerate(self.vars):
            for j, b in enumerate(self.vars):
                if i != j and self.m[i][j] < INF and (names is None or (a in names and b in names)):
                    out.append('%s-%s<=%d' % (a, b, self.m[i][j]))
        return ' '.join(out)


# --------------------------------------------------------------------------------------------------
# descriptor -> linear form
# --------------------------------------------------------------------------------------------------

def _is_char_ptr(ty):
    t = (ty or '').replace('const ', '').replace('unsigned ', '').replace('signed ', '').strip()
    return t in ('char *', 'char*', 'void *', 'void*', 'YYCTYPE *')


class Analysis:
    """One function, one buffer.  spec:
         tracked(var descriptor) -> name or None   which scalar variables take part
         deref_vars: {param name: pseudo variable}   `*len` style integer cells
       The caller seeds the entry state and evaluates obligations through `visit`."""

    def __init__(self, fn, deref_vars=None, extra_vars=()):
        self.fn = fn
        self.deref_vars = deref_vars or {}
        names = set(extra_vars)
        for b in fn.blocks.values():
            for e in b['ev']:
                for d in self._descs(e):
                    for x in _walk(d):
                        if x.get('k') == 'var' and self._scalar(x):
                            names.add(x['n'])
                if e['k'] == 'decl' and self._scalar_ty(e.get('tk'), e.get('ty')):
                    names.add(e['n'])
        for p in fn.params or []:
            if self._scalar_ty(p.get('tk'), p.get('ty')):
                names.add(p['n'])
        names |= set(self.deref_vars.values())
        self.names = sorted(names)
        self.nameset = set(names)
        self.states = {}
        self.unsigned = set()
        for b in fn.blocks.values():
            for e in b['ev']:
                if e['k'] == 'decl' and e.get('tk') == 'uint':
                    self.unsigned.add(e['n'])
        for p in fn.params or []:
            if p.get('tk') == 'uint':
                self.unsigned.add(p['n'])

    @staticmethod
    def _scalar_ty(tk, ty):
        if tk in ('int', 'uint'):
            return True
        if tk == 'ptr' and _is_char_ptr(ty):
            return True
        return False

    def _scalar(self, x):
        if x.get('n') in getattr(self, 'nameset', ()):
            return True         # a variable known to be scalar from another mention (inlined helpers lose type details)
        return x.get('vk') in ('local', 'param') and self._scalar_ty(x.get('tk'), x.get('ty'))

    @staticmethod
    def _descs(e):
        for k in ('l', 'r', 'init', 'e', 'b', 'i', 'recv'):
            if isinstance(e.get(k), dict):
                yield e[k]
        for a in e.get('args') or []:
            if isinstance(a, dict):
                yield a

    # ---- linear forms of descriptors ---------------------------------------------------------------
    def lin(self, d, z):
        """(terms, const) or None.  Side effects inside d have already been applied by their own events:
        `pre++x` reads x, `post++x` reads x - 1."""
        d = strip(d)
        if not isinstance(d, dict):
            return None
        c = const_value(d)
        if c is not None and d.get('k') != 'var':
            return ({}, c)
        k = d.get('k')
        if k == 'var':
            if 'cv' in d:
                return ({}, d['cv'])
            if self._scalar(d) and d['n'] in z.ix:
                return ({d['n']: 1}, 0)
            return None
        if k in ('null', 'nullptr'):
            return None
        if k == 'un':
            op = d['op']
            if op in ('pre++', 'pre--'):
                return self.lin(d['e'], z)
            if op == 'post++':
                f = self.lin(d['e'], z)
                return None if f is None else (f[0], f[1] - 1)
            if op == 'post--':
                f = self.lin(d['e'], z)
                return None if f is None else (f[0], f[1] + 1)
            if op == '-':
                f = self.lin(d['e'], z)
                return None if f is None else ({v: -c for v, c in f[0].items()}, -f[1])
            if op == '+':
                return self.lin(d['e'], z)
            if op == '*':
                inner = strip(d['e'])
                if isinstance(inner, dict) and inner.get('k') == 'var' and inner['n'] in self.deref_vars:
                    return ({self.deref_vars[inner['n']]: 1}, 0)
                return None
            return None
        if k == 'bin':
            op = d['op']
            if op in ('+', '-'):
                l, r = self.lin(d['l'], z), self.lin(d['r'], z)
                if l is None or r is None:
                    return None
                s = 1 if op == '+' else -1
                t = dict(l[0])
                for v, c in r[0].items():
                    t[v] = t.get(v, 0) + s * c
                return ({v: c for v, c in t.items() if c}, l[1] + s * r[1])
            if op == '*':
                l, r = self.lin(d['l'], z), self.lin(d['r'], z)
                if l is None or r is None:
                    return None
                if not l[0]:
                    l, r = r, l
                if r[0]:
                    return None
                return ({v: c * r[1] for v, c in l[0].items() if c * r[1]}, l[1] * r[1])
            return None
        return None

    def lin_or_temp(self, d, z, tmp='__t'):
        """linear form of d; for a non-linear d (a quotient, ...) the scratch variable `tmp` is assigned its value (with
        whatever bounds the domain derives) and stands for it.  None if `tmp` is not part of the analysis."""
        f = self.lin(d, z)
        if f is not None or tmp not in z.ix:
            return f
        self.assign_expr(z, tmp, d)
        return ({tmp: 1}, 0)

    def interval(self, d, z):
        """(lo, hi) of an integer expression, using linear forms, division by a positive constant and
        nothing else."""
        f = self.lin(d, z)
        if f is not None:
            return z.form_lb(f), z.form_ub(f)
        d = strip(d)
        if isinstance(d, dict) and d.get('k') == 'bin' and d['op'] == '/':
            c = const_value(d['r'])
            if c and c > 0:
                lo, hi = self.interval(d['l'], z)
                import math
                flo = -INF if lo == -INF else (int(lo // c) if lo >= 0 else -int((-lo + c - 1) // c))
                fhi = INF if hi == INF else (int(hi // c) if hi >= 0 else -int((-hi) // c))
                return flo, fhi
        if isinstance(d, dict) and d.get('k') == 'bin' and d['op'] in ('+', '-'):
            (a, b), (c2, e2) = self.interval(d['l'], z), self.interval(d['r'], z)
            return (a + c2, b + e2) if d['op'] == '+' else (a - e2, b - c2)
        return -INF, INF

    # ---- transfer ----------------------------------------------------------------------------------
    def assign_expr(self, z, x, d, compound=None):
        """x = d, or x op= d for compound in ('+', '-')."""
        if x not in z.ix:
            return
        uns = x in self.unsigned
        f = self.lin(d, z) if d is not None else None
        if compound and f is not None:
            s = 1 if compound == '+' else -1
            t = {v: s * c for v, c in f[0].items()}
            t[x] = t.get(x, 0) + 1
            f = ({v: c for v, c in t.items() if c}, s * f[1])
        if f is not None:
            z.assign(x, f, unsigned=uns)
            return
        # linear part + non-linear rest (`p + n / 2 - 1`): the rest is bounded by its interval, and a quotient `y / c` of a
        # non-negative y also by y itself
        if d is not None and self._assign_mixed(z, x, d, compound):
            return
        # non-linear right-hand side: interval, and `q = y / c` keeps q <= y for y >= 0
        lo, hi = self.interval(d, z) if (d is not None and not compound) else (-INF, INF)
        rel = None
        dd = strip(d) if d is not None else None
        if not compound and isinstance(dd, dict) and dd.get('k') == 'bin' and dd['op'] in ('/', '-', '+'):
            rel = self._div_relation(dd, z)
        if compound:
            lo2, hi2 = self.interval(d, z) if d is not None else (-INF, INF)
            s = 1 if compound == '+' else -1
            if s < 0:
                lo2, hi2 = -hi2, -lo2
            old = {v: (z.ub(x, v), z.ub(v, x)) for v in z.vars if v != x}
            defs = {k: v for k, v in z.defs.items() if k != x and x not in v[0]}
            nul = x in z.maynull
            z.forget(x)
            for v, (a, b) in old.items():
                if a < INF and hi2 < INF:
                    z.add(x, v, a + hi2)
                if b < INF and lo2 > -INF:
                    z.add(v, x, b - lo2)
            z.defs = defs
            if nul:
                z.maynull.add(x)
            return
        z.forget(x)
        if hi < INF:
            z.add(x, ZERO, hi)
        if lo > -INF:
            z.add(ZERO, x, -lo)
        if uns:
            z.add(ZERO, x, 0)
        if rel:
            for (y, c) in rel:
                z.add(x, y, c)

    def _split(self, d, z, sign=1):
        """d as (linear form, [(sign, non-linear descriptor)]) over + and - ; None if nothing linear can be separated."""
        d0 = strip(d)
        f = self.lin(d0, z)
        if f is not None:
            return (({v: sign * c for v, c in f[0].items()}, sign * f[1]), [])
        if isinstance(d0, dict) and d0.get('k') == 'bin' and d0['op'] in ('+', '-'):
            a = self._split(d0['l'], z, sign)
            b = self._split(d0['r'], z, sign if d0['op'] == '+' else -sign)
            t = dict(a[0][0])
            for v, c in b[0][0].items():
                t[v] = t.get(v, 0) + c
            return (({v: c for v, c in t.items() if c}, a[0][1] + b[0][1]), a[1] + b[1])
        return (({}, 0), [(sign, d0)])

    def _assign_mixed(self, z, x, d, compound):
        form, rest = self._split(d, z)
        if not rest or len(rest) > 2 or (not form[0] and not compound):
            return False
        if compound:
            s = 1 if compound == '+' else -1
            t = {v: s * c for v, c in form[0].items()}
            t[x] = t.get(x, 0) + 1
            form = ({v: c for v, c in t.items() if c}, s * form[1])
            rest = [(s * sg, nd) for sg, nd in rest]
        lo = hi = 0
        rels = []           # (variable y, k): the rest is <= y + k
        for sg, nd in rest:
            l_, h_ = self.interval(nd, z)
            if sg < 0:
                l_, h_ = -h_, -l_
            lo, hi = lo + l_, hi + h_
            if sg > 0 and len(rest) == 1:
                r_ = self._div_relation(nd, z)
                if r_:
                    rels += r_
        newrow, newcol = {}, {}
        for v in z.vars:
            if v == x:
                continue
            t = dict(form[0])
            t[v] = t.get(v, 0) - 1
            t = {a: b for a, b in t.items() if b}
            up = z.form_ub((t, form[1])) + hi
            for (y, k) in rels:
                t2 = dict(t)
                t2[y] = t2.get(y, 0) + 1
                up = min(up, z.form_ub(({a: b for a, b in t2.items() if b}, form[1] + k)))
            newrow[v] = up
            newcol[v] = -z.form_lb((t, form[1])) - lo
        z.forget(x)
        i = z.ix[x]
        for v, b in newrow.items():
            if b < INF:
                z.m[i][z.ix[v]] = min(z.m[i][z.ix[v]], b)
        for v, b in newcol.items():
            if b < INF:
                z.m[z.ix[v]][i] = min(z.m[z.ix[v]][i], b)
        z.close()
        if x in self.unsigned and z.ub(ZERO, x) > 0:
            z.forget(x)
            z.add(ZERO, x, 0)
        return True

    def _div_relation(self, d, z):
        """for q = (y / c) + k with y >= 0 a tracked form of one variable: q - y <= k  (c >= 1)."""
        k = 0
        while isinstance(d, dict) and d.get('k') == 'bin' and d['op'] in ('+', '-') and const_value(d['r']) is not None:
            k += const_value(d['r']) * (1 if d['op'] == '+' else -1)
            d = strip(d['l'])
        if not (isinstance(d, dict) and d.get('k') == 'bin' and d['op'] == '/'):
            return None
        c = const_value(d['r'])
        f = self.lin(d['l'], z)
        if not c or c < 1 or f is None or len(f[0]) != 1 or list(f[0].values()) != [1]:
            return None
        y = list(f[0])[0]
        if z.form_lb(f) < 0:
            return None
        # q = floor((y + f1) / c) + k <= y + f1 + k
        return [(y, f[1] + k)]

    def refine(self, z, cond, taken):
        """state after `cond` evaluated to `taken`."""
        if z.bot:
            return z
        d = strip(assigned_value(cond))
        pol = taken
        while isinstance(d, dict) and d.get('k') == 'un' and d['op'] == '!':
            d = strip(d['e'])
            pol = not pol
        if not isinstance(d, dict):
            return z
        k = d.get('k')
        if k == 'bin' and d['op'] in ('&&', '||'):
            # evaluated as a value: a true conjunction gives both, a false disjunction gives both
            if (d['op'] == '&&') == pol:
                z = self.refine(z, d['l'], pol)
                return self.refine(z, d['r'], pol)
            return z
        if k == 'var' and d.get('tk') == 'ptr' and d['n'] in z.ix:
            if pol:
                z.maynull.discard(d['n'])
            else:
                z.forget(d['n'])
            return z
        if k == 'var' and d.get('tk') in ('int', 'uint') and d['n'] in z.ix:
            f = ({d['n']: 1}, 0)
            if not pol:
                z.add_le(f, 0)
                z.add_le(({d['n']: -1}, 0), 0)
            else:
                self._ne(z, f)
            z.reduce()
            return z
        if k == 'bin' and d['op'] in ('<', '<=', '>', '>=', '==', '!='):
            l, r = self.lin(d['l'], z), self.lin(d['r'], z)
            if l is None or r is None:
                # pointer compared with null
                for a, b in ((d['l'], d['r']), (d['r'], d['l'])):
                    a, b = strip(a), strip(b)
                    if isinstance(a, dict) and a.get('k') == 'var' and a.get('tk') == 'ptr' and a['n'] in z.ix and \
                            isinstance(b, dict) and (b.get('k') in ('null', 'nullptr') or const_value(b) == 0) and d['op'] in ('==', '!='):
                        notnull = (d['op'] == '!=') == pol
                        if notnull:
                            z.maynull.discard(a['n'])
                        else:
                            z.forget(a['n'])
                return z
            t = dict(l[0])
            for v, c in r[0].items():
                t[v] = t.get(v, 0) - c
            f = ({v: c for v, c in t.items() if c}, l[1] - r[1])      # l - r
            nf = ({v: -c for v, c in f[0].items()}, -f[1])
            op = d['op']
            if not pol:
                op = {'<': '>=', '<=': '>', '>': '<=', '>=': '<', '==': '!=', '!=': '=='}[op]
            if op == '<':
                z.add_le(f, -1)
            elif op == '<=':
                z.add_le(f, 0)
            elif op == '>':
                z.add_le(nf, -1)
            elif op == '>=':
                z.add_le(nf, 0)
            elif op == '==':
                z.add_le(f, 0)
                z.add_le(nf, 0)
            else:
                self._ne(z, f)
            z.reduce()
            return z
        return z

    @staticmethod
    def _ne(z, f):
        """form != 0: tightens a bound that sits exactly at 0."""
        nf = ({v: -c for v, c in f[0].items()}, -f[1])
        for g in z.expand(f):
            if z.form_lb(g) == 0:
                z.add_le(nf, -1)
                break
            if z.form_ub(g) == 0:
                z.add_le(f, -1)
                break

    def transfer_event(self, z, e):
        k = e['k']
        if z.bot:
            return
        if k == 'decl':
            if e['n'] in z.ix:
                if e.get('init') is None:
                    z.forget(e['n'])
                else:
                    self._assign_any(z, e['n'], e['init'])
        elif k == 'asg':
            l = strip(e['l'])
            if isinstance(l, dict) and l.get('k') == 'var' and l['n'] in z.ix:
                op = e['op']
                if op == '=':
                    self._assign_any(z, l['n'], e.get('r'))
                elif op == '++':
                    z.assign(l['n'], ({l['n']: 1}, 1), unsigned=False)
                elif op == '--':
                    z.assign(l['n'], ({l['n']: 1}, -1), unsigned=False)
                elif op in ('+=', '-='):
                    self.assign_expr(z, l['n'], e.get('r'), compound=op[0])
                else:
                    z.forget(l['n'])
            elif isinstance(l, dict) and l.get('k') == 'un' and l['op'] == '*':
                inner = strip(l['e'])
                if isinstance(inner, dict) and inner.get('k') == 'var' and inner['n'] in self.deref_vars and e['op'] == '=':
                    self._assign_any(z, self.deref_vars[inner['n']], e.get('r'))
        elif k == 'call':
            # address-taken scalars handed to a callee are clobbered
            for a in e.get('args') or []:
                a = strip(a)
                if isinstance(a, dict) and a.get('k') == 'un' and a['op'] == '&':
                    v = strip(a['e'])
                    if isinstance(v, dict) and v.get('k') == 'var' and v['n'] in z.ix:
                        z.forget(v['n'])

    def _assign_any(self, z, x, d):
        dd = strip(d)
        if isinstance(dd, dict) and dd.get('k') == 'call' and (dd.get('name') or '') in ('memchr',) and len(dd.get('args') or []) == 3:
            s = self.lin(dd['args'][0], z)
            n = self.lin(dd['args'][2], z)
            z.forget(x)
            if s is not None:
                # s <= x
                t = dict(s[0])
                t[x] = t.get(x, 0) - 1
                z.add_le(({v: c for v, c in t.items() if c}, s[1]), 0)
                if n is not None:
                    # x <= s + n - 1
                    t = {x: 1}
                    for v, c in s[0].items():
                        t[v] = t.get(v, 0) - c
                    for v, c in n[0].items():
                        t[v] = t.get(v, 0) - c
                    z.add_le(({v: c for v, c in t.items() if c}, -s[1] - n[1]), -1)
            z.maynull.add(x)
            return
        if isinstance(dd, dict) and dd.get('k') in ('null', 'nullptr'):
            z.forget(x)
            z.maynull.add(x)
            return
        self.assign_expr(z, x, d)

    # ---- fixpoint ----------------------------------------------------------------------------------
    def _refine_edge(self, zs, b, idx, s):
        """State on the edge #idx of block b: the branch condition (two-way branches), `x == v` on a case edge of a switch,
        `x != v` for every case value on its default edge."""
        fn = self.fn
        blk = fn.blocks[b]
        t = blk.get('term')
        succ = blk['succ']
        if not t or 'cond' not in t:
            return zs
        if t.get('kind') == 'switch':
            def eq(v):
                return {'k': 'bin', 'op': '==', 'l': t['cond'], 'r': {'k': 'int', 'v': v}}
            lab = fn.blocks[s].get('label') or {}
            if sum(1 for x in succ if x == s) != 1:
                return zs
            if 'case' in lab and lab['case'][0] == lab['case'][1]:
                return self.refine(zs, eq(lab['case'][0]), True)
            if 'case' not in lab:
                vals = sorted({fn.blocks[x]['label']['case'][0] for x in succ if x is not None and x != s and
                               'case' in (fn.blocks[x].get('label') or {}) and fn.blocks[x]['label']['case'][0] == fn.blocks[x]['label']['case'][1]})
                for _ in range(2):              # ascending, then once more: each excluded value can tighten a bound that sits on it
                    for v in vals:
                        zs = self.refine(zs, eq(v), False)
                return zs
            return zs
        if len(succ) == 2:
            return self.refine(zs, fn.eff_cond(b), idx == 0)
        return zs

    def run(self, entry_state, max_iter=60):
        fn = self.fn
        preds = {}
        for b, blk in fn.blocks.items():
            for s in blk['succ']:
                if s is not None:
                    preds.setdefault(s, []).append(b)
        # loop heads: targets of retreating edges in a DFS
        heads = set()
        color = {}
        stack = [(fn.entry, iter([s for s in fn.blocks[fn.entry]['succ'] if s is not None]))]
        color[fn.entry] = 1
        while stack:
            b, it = stack[-1]
            adv = False
            for s in it:
                if color.get(s) == 1:
                    heads.add(s)
                elif s not in color:
                    color[s] = 1
                    stack.append((s, iter([t for t in fn.blocks[s]['succ'] if t is not None])))
                    adv = True
                    break
            if not adv:
                color[b] = 2
                stack.pop()
        self.heads = heads
        inn = {fn.entry: entry_state}
        visits = {}
        work = [fn.entry]
        edge_out = {}
        steps = 0
        while work:
            steps += 1
            if steps > 20000:
                raise RuntimeError('zone analysis of %s did not stabilise' % fn.name)
            b = work.pop(0)
            z = inn[b].copy()
            for e in fn.blocks[b]['ev']:
                self.transfer_event(z, e)
            succ = fn.blocks[b]['succ']
            t = fn.blocks[b].get('term')
            for idx, s in enumerate(succ):
                if s is None:
                    continue
                zs = self._refine_edge(z.copy(), b, idx, s)
                edge_out[(b, s, idx)] = zs
                # new in-state of s = join over incoming edges
                acc = None
                for (pb, ps, pi), st in edge_out.items():
                    if ps == s:
                        acc = st.copy() if acc is None else acc.join(st)
                if s == fn.entry:
                    acc = acc.join(entry_state)
                old = inn.get(s)
                if old is not None and s in heads:
                    visits[s] = visits.get(s, 0) + 1
                    if visits[s] > 3:
                        acc = old.widen(old.join(acc))
                    else:
                        acc = old.join(acc)
                    acc.close()
                if old is None or not acc.leq(old):
                    inn[s] = acc
                    if s not in work:
                        work.append(s)
        # one narrowing sweep: recompute in-states from the stabilised edge states without widening
        for _ in range(2):
            for b in sorted(fn.blocks, reverse=True):
                if b == fn.entry or b not in inn:
                    continue
                acc = None
                for (pb, ps, pi), st in edge_out.items():
                    if ps == b:
                        acc = st.copy() if acc is None else acc.join(st)
                if acc is None:
                    continue
                # narrowing: keep the intersection of the widened state and the recomputed one (both are sound only if
                # the recomputed one is computed from post-fixpoint predecessors, which edge_out is)
                inn[b] = acc
                z = acc.copy()
                for e in fn.blocks[b]['ev']:
                    self.transfer_event(z, e)
                succ = fn.blocks[b]['succ']
                t = fn.blocks[b].get('term')
                for idx, s in enumerate(succ):
                    if s is None:
                        continue
                    zs = self._refine_edge(z.copy(), b, idx, s)
                    edge_out[(b, s, idx)] = zs
        self.inn = inn
        return inn

    def visit(self, fn_event):
        """calls fn_event(block id, event, state BEFORE the event) for every event of every reachable block."""
        for b in sorted(self.fn.blocks, reverse=True):
            if b not in self.inn or self.inn[b].bot:
                continue
            z = self.inn[b].copy()
            for e in self.fn.blocks[b]['ev']:
                fn_event(b, e, z)
                self.transfer_event(z, e)


def _walk(d):
    if isinstance(d, dict):
        yield d
        for k, v in d.items():
            if isinstance(v, dict):
                yield from _walk(v)
            elif isinstance(v, list):
                for x in v:
                    if isinstance(x, dict):
                        yield from _walk(x)
