"""Program model over the nvx facts: functions, CFGs, call graph, descriptors, guard facts,
dominators, path search, effect summaries.  Pure Python, stdlib only."""
import collections
import os
import sys

from facts import AnalysisBroken

sys.setrecursionlimit(10000)

# ------------------------------------------------------------------------------------------------
# Expression descriptors
# ------------------------------------------------------------------------------------------------


def walk(d):
    """All sub-descriptors of d (pre-order), d included.  Lists of descriptors are accepted."""
    if isinstance(d, list):
        for x in d:
            yield from walk(x)
        return
    if isinstance(d, dict):
        yield d
        for k, v in d.items():
            if k in ('k', 'n', 'ty', 'tk', 'op', 'src', 'name', 'fn', 'vk', 'line'):
                continue
            if isinstance(v, dict):
                yield from walk(v)
            elif isinstance(v, list):
                for x in v:
                    if isinstance(x, dict):
                        yield from walk(x)


def strip(d):
    """Remove value-preserving wrappers (tobool, explicit casts)."""
    while isinstance(d, dict) and d.get('k') in ('tobool', 'cast'):
        d = d.get('e')
    return d


def assigned_value(d, depth=0):
    """d with every assignment used as a value (`(p = f()) != 0`) replaced by its left operand: in a condition the value of
    `p = e` is p, and the store itself is an event of its own placed before the test."""
    if depth > 12:
        return d
    if isinstance(d, list):
        return [assigned_value(x, depth + 1) for x in d]
    if not isinstance(d, dict):
        return d
    if d.get('k') == 'bin' and d.get('op') == '=' and isinstance(d.get('l'), dict):
        return assigned_value(d['l'], depth + 1)
    if not any(isinstance(v, (dict, list)) for v in d.values()):
        return d
    return {k: (assigned_value(v, depth + 1) if isinstance(v, (dict, list)) else v) for k, v in d.items()}


def basename(name):
    """Readable name: library names lose namespaces and the template arguments of their class,
    but keep the template arguments of the function itself (holds_alternative<X> != <Y>)."""
    if not name:
        return name
    if name.startswith(('std::', '__gnu_cxx::')):
        depth = 0
        last = 0
        i = 0
        while i < len(name):
            c = name[i]
            if c == '<':
                depth += 1
            elif c == '>':
                depth -= 1
            elif depth == 0 and name.startswith('::', i):
                last = i + 2
                i += 1
            i += 1
        n = name[last:]
        j = n.find('<', (len('operator') + 2) if n.startswith('operator') else 1)
        if j > 0:
            head = n[:j]
            if head in ('holds_alternative', 'get', 'get_if'):
                # the first template argument selects the alternative: keep it
                arg = n[j + 1:].split(',')[0].rstrip('>')
                return '%s<%s>' % (head, arg)
            n = head
        return n
    return name


def dstr(d):
    """Canonical string of a descriptor (used as the identity of atoms)."""
    if d is None:
        return '_'
    if isinstance(d, (list, tuple)):
        return ','.join(dstr(x) for x in d)
    if not isinstance(d, dict):
        return str(d)
    k = d.get('k')
    if k in ('int', 'bool', 'float'):
        return str(d['v']).lower() if k == 'bool' else str(d['v'])
    if k == 'str':
        return '"%s"' % d['v']
    if k == 'null':
        return 'null'
    if k == 'this':
        return 'this'
    if k == 'var':
        return d['n']
    if k == 'enum':
        return d['n']
    if k == 'fn':
        return '&' + d.get('name', d['n'])
    if k == 'mem':
        b = d.get('b')
        if b is not None and b.get('k') == 'this':
            return d['n']
        return '%s.%s' % (dstr(b), d['n'])
    if k == 'memfn':
        return '%s.%s' % (dstr(d.get('b')), d.get('name'))
    if k == 'un':
        return '(%s%s)' % (d['op'], dstr(d['e']))
    if k == 'bin':
        return '(%s %s %s)' % (dstr(d['l']), d['op'], dstr(d['r']))
    if k == 'cond':
        return '(%s ? %s : %s)' % (dstr(d['c']), dstr(d['t']), dstr(d['f']))
    if k == 'idx':
        return '%s[%s]' % (dstr(d['b']), dstr(d['i']))
    if k == 'call':
        if d.get('op') == '->' and 'recv' in d and not d.get('args'):
            return dstr(d['recv'])          # smart pointer / iterator arrow is transparent
        if d.get('op') == '*' and 'recv' in d and not d.get('args'):
            return '(*%s)' % dstr(d['recv'])
        name = basename(d.get('name')) if d.get('name') else ('*' + dstr(d.get('callee')))
        args = ','.join(dstr(a) for a in d.get('args', []))
        if 'recv' in d:
            return '%s.%s(%s)' % (dstr(d['recv']), name, args)
        return '%s(%s)' % (name, args)
    if k == 'ctor':
        return '%s{%s}' % (d.get('ty'), ','.join(dstr(a) for a in d.get('args', [])))
    if k in ('tobool',):
        return dstr(d['e'])
    if k == 'cast':
        return '(%s)%s' % (d.get('ty'), dstr(d['e']))
    if k == 'new':
        return 'new %s[%s](%s)' % (d.get('ty'), dstr(d.get('size')),
                                   ','.join(dstr(a) for a in d.get('args', [])))
    if k == 'delete':
        return 'delete %s' % dstr(d['e'])
    if k == 'lambda':
        return 'lambda:%s' % d['fn']
    if k == 'sizeof':
        return 'sizeof=%s' % d.get('v')
    if k == 'init':
        return '{%s}' % ','.join(dstr(a) for a in d['e'])
    if k == 'elem':
        return 'elem(%s)' % dstr(d.get('of'))
    if k == 'deep':
        return '...'
    return '?%s' % d.get('c', k)


def calls_in(d, name=None):
    for x in walk(d):
        if x.get('k') == 'call' and (name is None or x.get('name') == name):
            yield x


def fields_in(d):
    return {x['n'] for x in walk(d) if x.get('k') == 'mem'}


def vars_in(d):
    return {x['n'] for x in walk(d) if x.get('k') == 'var'}


def mentions_field(d, field):
    return any(x.get('k') == 'mem' and x['n'] == field for x in walk(d))


def mentions_call(d, name):
    return any(x.get('k') == 'call' and x.get('name') == name for x in walk(d))


def mentions_var(d, name):
    return any(x.get('k') == 'var' and (x['n'] == name or x['n'].split('@')[0] == name) for x in walk(d))


def mentions_enum(d, name):
    return any(x.get('k') == 'enum' and x['n'] == name for x in walk(d))


def is_lit(d, v=None):
    d = strip(d)
    if not isinstance(d, dict):
        return False
    if d.get('k') in ('int', 'bool'):
        return v is None or d['v'] == v
    return False


def const_value(d):
    """Integer value of a descriptor if statically known."""
    d = strip(d)
    if not isinstance(d, dict):
        return None
    k = d.get('k')
    if k == 'int':
        return d['v']
    if k == 'bool':
        return 1 if d['v'] else 0
    if k == 'enum':
        return d['v']
    if k == 'var' and 'cv' in d:
        return d['cv']
    if k == 'sizeof' and d.get('v') is not None:
        return d['v']
    if k == 'un' and d['op'] == '-':
        v = const_value(d['e'])
        return None if v is None else -v
    if k == 'un' and d['op'] == '~':
        v = const_value(d['e'])
        return None if v is None else ~v
    if k == 'bin':
        l, r = const_value(d['l']), const_value(d['r'])
        if l is None or r is None:
            return None
        op = d['op']
        ops = {'+': lambda: l + r, '-': lambda: l - r, '*': lambda: l * r, '<<': lambda: l << r,
               '>>': lambda: l >> r, '|': lambda: l | r, '&': lambda: l & r,
               '/': lambda: (l // r if r else None), '%': lambda: (l % r if r else None)}
        try:
            return ops[op]() if op in ops else None
        except Exception:
            return None
    return None


# ------------------------------------------------------------------------------------------------
# Functions and CFGs
# ------------------------------------------------------------------------------------------------

COND_KINDS = ('if', 'while', 'for', 'do', 'land', 'lor', 'cond', 'range')


class Fn:
    def __init__(self, prog, d):
        self.prog = prog
        self.d = d
        self.id = d['id']
        self.name = d['name']
        self.file = d['file']
        self.line = d['line']
        self.cls = d.get('cls')
        self.params = d.get('params', [])
        self.retk = d.get('retk')
        self.blocks = {b['id']: b for b in d.get('blocks', [])}
        self.entry = d.get('entry')
        self.exit = d.get('exit')
        self.preds = collections.defaultdict(list)
        for b in self.blocks.values():
            for i, e in enumerate(b['ev']):
                e['_b'] = b['id']
                e['_i'] = i
                e['_fn'] = self
            for s in b['succ']:
                if s is not None:
                    self.preds[s].append(b['id'])
        self._dom = None
        self._pdom = None
        self._facts = None
        self._defs = None
        self._reach = {}
        self._thread_value_conditions()
        # a switch over an enumeration whose case labels name every enumerator has no other way out: the edge to
        # the code after the switch (no `default:`) is removed
        enums = getattr(prog, 'facts', {}).get('enums', {}) if prog is not None else {}
        for b in self.blocks.values():
            t = b.get('term')
            if not (t and t['kind'] == 'switch' and isinstance(t.get('cond'), dict) and t['cond'].get('tk') == 'enum'):
                continue
            labelled, unl = set(), []
            for i, s in enumerate(b['succ']):
                lab = self.blocks[s].get('label') if s is not None and s in self.blocks else None
                cd = lab.get('cdesc') if lab and 'case' in lab else None
                if isinstance(cd, dict) and cd.get('k') == 'enum':
                    labelled.add(cd['n'])
                elif s is not None:
                    unl.append(i)
            if not labelled or len(unl) != 1:
                continue
            for en in enums.values():
                names = {c['n'] for c in en['consts']}
                if labelled <= names and labelled == names:
                    i = unl[0]
                    s = b['succ'][i]
                    lab = self.blocks[s].get('label') if s in self.blocks else None
                    if not (lab and lab.get('default')):
                        b['succ'][i] = None
                        if b['id'] in self.preds.get(s, []):
                            self.preds[s].remove(b['id'])
                    break
        # constant branch conditions (`if constexpr`, template arguments): the edge that can never
        # be taken is removed, so both instantiations of a template are analysed as written
        for b in self.blocks.values():
            t = b.get('term')
            if t and t['kind'] in COND_KINDS and len(b['succ']) == 2 and 'cond' in t:
                c = t['cond']
                while isinstance(c, dict) and c.get('k') == 'bin' and c['op'] in ('&&', '||') and not c.get('val'):
                    c = c['r']
                v = const_value(c) if isinstance(strip(c), dict) and strip(c).get('k') in ('bool', 'int') else None
                if v is None and isinstance(strip(c), dict) and strip(c).get('k') in ('null', 'nullptr'):
                    v = 0           # `if (nullptr)` after a helper's `return NULL` was threaded into the branch
                if v is None and isinstance(strip(c), dict) and strip(c).get('k') == 'str':
                    v = 1           # a string literal is a non-null pointer
                if isinstance(strip(c), dict) and strip(c).get('k') == 'un' and strip(c)['op'] == '!':
                    inner = strip(strip(c)['e'])
                    if isinstance(inner, dict) and inner.get('k') in ('bool', 'int'):
                        v = 0 if const_value(inner) else 1
                if v is not None:
                    dead = 1 if v else 0
                    s = b['succ'][dead]
                    b['succ'][dead] = None
                    if s is not None and b['id'] in self.preds[s]:
                        self.preds[s].remove(b['id'])
        # code that cannot be reached from the entry (after a `for (;;)` without break, behind a
        # constant-false condition) takes no part in any rule
        if self.entry is not None and self.blocks:
            seen = {self.entry}
            st = [self.entry]
            while st:
                x = st.pop()
                for s2 in self.blocks[x]['succ']:
                    if s2 is not None and s2 not in seen:
                        seen.add(s2)
                        st.append(s2)
            seen.add(self.exit)
            for bid in list(self.blocks):
                if bid not in seen:
                    del self.blocks[bid]
            for bid in list(self.preds):
                self.preds[bid] = [p for p in self.preds[bid] if p in self.blocks]

    def _thread_value_conditions(self):
        """`if (a && b)` whose operands need cleanups (string / iterator temporaries) is compiled by clang as a VALUE:
        the short-circuit edges and the block that evaluates the last operand meet in an empty block that branches on
        the whole expression.  That is the same program as the control-flow form, and is rewritten into it: every
        short-circuit edge goes straight to the outcome it decides, the last operand's block branches on that operand."""
        for _ in range(50):
            changed = False
            for bid in sorted(self.blocks, reverse=True):
                b = self.blocks[bid]
                t = b.get('term')
                if not t or t.get('kind') != 'if' or len(b['succ']) != 2 or b['ev'] or None in b['succ']:
                    continue
                c = t.get('cond')
                while isinstance(c, dict) and c.get('k') in ('tobool', 'paren'):
                    c = c['e']
                if not (isinstance(c, dict) and c.get('k') == 'bin' and c.get('op') in ('&&', '||')) or c.get('val'):
                    continue
                op = c['op']
                short = 0 if op == '||' else 1
                kind = 'lor' if op == '||' else 'land'
                preds = list(dict.fromkeys(self.preds.get(bid, [])))
                shorts = [p for p in preds if (self.blocks[p].get('term') or {}).get('kind') == kind and
                          len(self.blocks[p]['succ']) == 2 and self.blocks[p]['succ'][short] == bid and
                          self.blocks[p]['succ'][1 - short] != bid]
                others = [p for p in preds if p not in shorts]
                parts = []
                st = [c]
                while st:
                    x = st.pop()
                    x0 = x
                    while isinstance(x0, dict) and x0.get('k') in ('tobool', 'paren'):
                        x0 = x0['e']
                    if isinstance(x0, dict) and x0.get('k') == 'bin' and x0.get('op') == op and not x0.get('val'):
                        st += [x0['r'], x0['l']]
                    else:
                        parts.append(x)
                if not shorts or len(others) != 1 or len(shorts) != len(parts) - 1 or bid == self.entry:
                    continue
                # each short-circuit edge must belong to one of the operands of THIS chain: a `land` block of an inner, negated
                # conjunction (`a && !(b && c)`) also jumps to the join, but its "false" decides the opposite outcome
                def _opkey(x):
                    while isinstance(x, dict) and x.get('k') in ('tobool', 'paren'):
                        x = x['e']
                    return dstr(x)
                want = [_opkey(x) for x in parts[:-1]]
                have = []
                for p in shorts:
                    pc = (self.blocks[p].get('term') or {}).get('cond')
                    while isinstance(pc, dict) and pc.get('k') in ('tobool', 'paren'):
                        pc = pc['e']
                    # the operand this block branches on: the rightmost operand of its own (partial) chain
                    while isinstance(pc, dict) and pc.get('k') == 'bin' and pc.get('op') == op and not pc.get('val'):
                        pc = pc['r']
                    have.append(_opkey(pc))
                if sorted(want) != sorted(have):
                    continue
                r = self.blocks[others[0]]
                if r.get('term') or [x for x in r['succ'] if x is not None] != [bid] or r.get('noreturn'):
                    continue
                for p in shorts:
                    self.blocks[p]['succ'][short] = b['succ'][short]
                r['term'] = dict(t, cond=parts[-1])
                r['succ'] = list(b['succ'])
                b['succ'] = []
                changed = True
                self.preds = collections.defaultdict(list)
                for bb in self.blocks.values():
                    for s in bb['succ']:
                        if s is not None:
                            self.preds[s].append(bb['id'])
                break
            if not changed:
                break

    def __repr__(self):
        return '<Fn %s>' % self.name

    @property
    def loc(self):
        return 'src/%s:%d' % (self.file, self.line)

    def events(self, kind=None):
        for bid in sorted(self.blocks, reverse=True):
            for e in self.blocks[bid]['ev']:
                if kind is None or e['k'] == kind:
                    yield e

    def stores(self):
        """Assignments in the wide sense: `asg` events and declarations with an initialiser (as a
        synthetic `=` assignment at the same position), so that `int x = f();` and `int x; x = f();`
        look the same to a rule."""
        for bid in sorted(self.blocks, reverse=True):
            for e in self.blocks[bid]['ev']:
                if e['k'] == 'asg':
                    yield e
                elif e['k'] == 'decl' and e.get('init') is not None:
                    yield {'k': 'asg', 'op': '=', 'l': {'k': 'var', 'n': e['n'], 'vk': 'local', 'ty': e.get('ty'), 'tk': e.get('tk')},
                           'r': e['init'], 'line': e.get('line'), 'src': e.get('src'), '_b': e['_b'], '_i': e['_i'], '_fn': self,
                           'from_decl': True}

    def calls(self, name=None):
        for e in self.events('call'):
            if name is None or e.get('name') == name:
                yield e

    def where(self, e):
        return 'src/%s:%d' % (self.file, e.get('line', 0))

    def succ(self, bid):
        return [s for s in self.blocks[bid]['succ'] if s is not None]

    def term(self, bid):
        return self.blocks[bid].get('term')

    def eff_cond(self, bid):
        """The expression whose value selects the successor of block bid, or None."""
        t = self.blocks[bid].get('term')
        if not t or 'cond' not in t:
            return None
        c = t['cond']
        if t['kind'] not in ('land', 'lor') and _join_form(self, bid) is not None:
            return c            # evaluated as a value: the whole expression decides
        # For if/while/for/do/?: whose condition is `a && b` / `a || b` the CFG has already
        # branched on the left operands; the value tested here is the rightmost operand.
        while isinstance(c, dict) and c.get('k') == 'bin' and c['op'] in ('&&', '||') and not c.get('val'):
            c = c['r']
        return c

    # ---- dominators ----------------------------------------------------------------------
    def dominators(self):
        if self._dom is None:
            self._dom = _dominators(self.entry, self.blocks.keys(), lambda b: self.succ(b),
                                    lambda b: self.preds[b])
        return self._dom

    def postdominators(self):
        if self._pdom is None:
            self._pdom = _dominators(self.exit, self.blocks.keys(), lambda b: self.preds[b],
                                     lambda b: self.succ(b))
        return self._pdom

    def dominates_ev(self, a, b):
        """event a dominates event b (a is executed before b on every path to b)."""
        if a['_b'] == b['_b']:
            return a['_i'] < b['_i']
        return a['_b'] in self.dominators().get(b['_b'], ())

    def dominates_block(self, a, b):
        """block a dominates block b (every path from the entry to b passes a)."""
        return a == b or a in self.dominators().get(b, ())

    def reachable_from(self, bid):
        if bid not in self._reach:
            seen = set()
            st = [bid]
            while st:
                x = st.pop()
                for s in self.succ(x):
                    if s not in seen:
                        seen.add(s)
                        st.append(s)
            self._reach[bid] = seen
        return self._reach[bid]

    def ev_reaches(self, a, b):
        """Is there a CFG path on which event a is executed before event b?"""
        if a['_b'] == b['_b'] and a['_i'] < b['_i']:
            return True
        return b['_b'] in self.reachable_from(a['_b'])

    # ---- path search ---------------------------------------------------------------------
    def find_path(self, start, is_target, is_blocker=None, edge_ok=None, from_succ=None,
                  sensitive=True, init_facts=None, require=None, hit_ok=None):
        """Search a CFG path starting right after event `start` (or at the beginning of block
        `from_succ` if given) that reaches an event satisfying is_target without passing an
        event satisfying is_blocker.  Returns (list of blocks, hit event) or None.
        is_target may also accept the pseudo events {'k':'exit'} (function exit) and
        {'k':'noreturn'} (block ending in a no-return call).
        require: a (key, polarity) fact; a path ends as soon as that fact is killed (the
        obligation "while this condition holds" is over).
        hit_ok(event, facts): a target only counts when the facts collected along the path (branch
        conditions as (key, polarity), constants as (('const', name), value)) satisfy it - see
        path_value().
        sensitive=True: branch conditions taken along the path are remembered (and killed by
        intervening writes); an edge that contradicts a remembered condition is infeasible and
        is not followed (correlated branches such as `if (!ok && s) ...; if (!s) return`)."""
        fin, atoms = self.facts_in()

        def _pc(d):
            v = _path_const(d)
            if v is None:
                sd = strip(d)
                # a copy of a local / field whose constant value is known on this path
                if isinstance(sd, dict) and sd.get('k') in ('var', 'mem') and _cur_facts[0] is not None:
                    lk = sd['n'] if sd.get('k') == 'var' else dstr(sd)
                    for it in _cur_facts[0]:
                        if it[0].__class__ is tuple and it[0][1] == lk:
                            return it[1]
                # the value of a call that can only return false / null (`lexer_.Error(...)`)
                if isinstance(sd, dict) and sd.get('k') == 'call' and sd.get('fn') in self.prog.functions:
                    callee = self.prog.functions[sd['fn']]
                    if callee.retk in ('bool', 'ptr') and always_fails(self.prog, callee):
                        return 0
                # a condition computed as a value (`ok = a && b && c`) whose operands were decided earlier on this path
                if v is None and _cur_facts[0] is not None and isinstance(sd, dict) and (sd.get('k') in ('bin', 'un') or sd.get('tk') == 'bool'):
                    v = _truth(d, 0)
            return v

        def _truth(d, depth):
            if depth > 8:
                return None
            a, pol = norm_cond(self.prog, d)
            sa = strip(a)
            fs = _cur_facts[0]
            k = dstr(a)
            if (k, True) in fs:
                return 1 if pol else 0
            if (k, False) in fs:
                return 0 if pol else 1
            if isinstance(sa, dict) and sa.get('k') == 'bin' and sa.get('op') in ('&&', '||'):
                l, r = _truth(sa['l'], depth + 1), _truth(sa['r'], depth + 1)
                if sa['op'] == '&&':
                    res = 0 if (l == 0 or r == 0) else (1 if (l == 1 and r == 1) else None)
                else:
                    res = 1 if (l == 1 or r == 1) else (0 if (l == 0 and r == 0) else None)
                return None if res is None else (res if pol else 1 - res)
            return None

        _cur_facts = [None]

        def scan(bid, i0, facts):
            evs = self.blocks[bid]['ev']
            _cur_facts[0] = facts
            for e in evs[i0:]:
                if is_target(e) and (hit_ok is None or hit_ok(e, facts)):
                    return 'hit', e
                if is_blocker and is_blocker(e):
                    return 'blocked', e
                if facts:
                    _apply_kills(self, e, facts, atoms)
                    # constants assigned on this path: kill, then learn `lhs == C`
                    if e['k'] in ('asg', 'call', 'decl', 'new'):
                        w = _written_names(self, e) if e['k'] != 'new' else set()
                        if w:
                            for it in [x for x in facts if x[0].__class__ is tuple]:
                                d = constdesc[it[0][1]]
                                if any((kind == 'var' and mentions_var(d, n)) or
                                       (kind == 'mem' and mentions_field(d, n)) for kind, n in w):
                                    facts.discard(it)
                if sensitive and e['k'] in ('asg', 'decl') and (e['k'] == 'decl' or e.get('op') == '='):
                    # `x = c ? a : b` where c was decided earlier on this path: x gets that arm
                    rr = e.get('r') if e['k'] == 'asg' else e.get('init')
                    r0 = rr
                    while isinstance(r0, dict) and r0.get('k') == 'cast':
                        r0 = r0.get('e')
                    if isinstance(r0, dict) and r0.get('k') == 'cond':
                        ca, cp = norm_cond(self.prog, r0['c'])
                        ck = dstr(ca)
                        arm = r0['t'] if (ck, cp) in facts else r0['f'] if (ck, not cp) in facts else None
                        if arm is not None and _pc(arm) is not None:
                            if e['k'] == 'asg' and strip(e['l']).get('k') in ('var', 'mem'):
                                lk = dstr(strip(e['l']))
                                constdesc[lk] = strip(e['l'])
                                facts.add((('const', lk), _pc(arm)))
                            elif e['k'] == 'decl':
                                constdesc[e['n']] = {'k': 'var', 'n': e['n'], 'vk': 'local'}
                                facts.add((('const', e['n']), _pc(arm)))
                if sensitive and e['k'] == 'asg' and e['op'] == '=' and \
                        _pc(e.get('r')) is not None and \
                        strip(e['l']).get('k') in ('var', 'mem'):
                    lk = dstr(strip(e['l']))
                    constdesc[lk] = strip(e['l'])
                    facts.add((('const', lk), _pc(e['r'])))
                if sensitive and e['k'] == 'decl' and e.get('init') is not None and \
                        _pc(e['init']) is not None and not e.get('static'):
                    constdesc[e['n']] = {'k': 'var', 'n': e['n'], 'vk': 'local'}
                    facts.add((('const', e['n']), _pc(e['init'])))
                if require is not None and require not in facts:
                    return 'blocked', e
            return 'through', None

        constdesc = {}
        for it in (init_facts or ()):
            if it[0].__class__ is tuple:
                constdesc[it[0][1]] = {'k': 'var', 'n': it[0][1], 'vk': 'local'}

        def contradicts(ef, fs):
            key, pol, atom = ef
            if (key, not pol) in fs:
                return True
            a = strip(atom)
            if pol and _pc(a) == 0 and isinstance(a, dict) and a.get('k') == 'call':
                return True             # `if (lexer_.Error(...))`: the call only ever returns false
            # a conjunction known false although every conjunct is known true (and dually for ||)
            if isinstance(a, dict) and a.get('k') == 'bin' and a['op'] in ('&&', '||'):
                want = a['op'] == '&&'
                if pol != want:
                    parts = []
                    st = [a]
                    while st:
                        x = strip(st.pop())
                        if isinstance(x, dict) and x.get('k') == 'bin' and x['op'] == a['op']:
                            st += [x['l'], x['r']]
                        else:
                            parts.append(norm_cond(self.prog, x))
                    if parts and all((dstr(pa), pp == want) in fs or (dstr(pa), (pp == want)) in fs for pa, pp in parts):
                        return True
            if isinstance(a, dict) and a.get('k') == 'bin' and a['op'] == '==':
                v = const_value(a['r'])
                if v is not None:
                    lk = dstr(strip(a['l']))
                    for it in fs:
                        if it[0].__class__ is tuple and it[0][1] == lk:
                            return (it[1] == v) != pol
            if isinstance(a, dict) and a.get('k') in ('var', 'mem'):
                lk = dstr(a)
                for it in fs:
                    if it[0].__class__ is tuple and it[0][1] == lk:
                        return (it[1] != 0) != pol      # truthiness of a known constant
            return False

        work = []
        seen = set()
        f0 = frozenset(init_facts or ())
        if from_succ is not None:
            work.append((from_succ, 0, [from_succ], f0))
        else:
            work.append((start['_b'], start['_i'] + 1, [start['_b']], f0))
        first = from_succ is None
        states = 0
        while work:
            bid, i0, path, facts = work.pop()
            if not first:
                key = (bid, facts)
                if key in seen:
                    continue
                seen.add(key)
            first = False
            states += 1
            if states > 40000:
                raise AnalysisBroken('path search exceeded its state bound in %s' % self.name)
            fs = set(facts)
            if sensitive and not fs:
                fs.add(('', True))          # non-empty marker so that scan() tracks kills
            r, e = scan(bid, i0, fs)
            if r == 'hit':
                return path, e
            if r == 'blocked':
                continue
            b = self.blocks[bid]
            if b.get('noreturn'):
                pe = {'k': 'noreturn', '_b': bid}
                if is_target(pe):
                    return path, pe
                continue
            if bid == self.exit:
                pe = {'k': 'exit', '_b': bid}
                if is_target(pe):
                    return path, pe
                continue
            for idx, s in enumerate(b['succ']):
                if s is None:
                    continue
                if edge_ok and not edge_ok(bid, idx, s):
                    continue
                nf = fs
                if sensitive:
                    efs = _edge_facts(self, bid, idx)
                    if efs:
                        if any(contradicts(ef, fs) for ef in efs):
                            continue        # contradicts a condition taken earlier
                        nf = set(fs)
                        for ef in efs:
                            nf.add((ef[0], ef[1]))
                work.append((s, 0, path + [s], frozenset(nf)))
        return None

    # ---- guard facts -----------------------------------------------------------------------
    def facts_in(self):
        if self._facts is None:
            self._facts = _guard_facts(self)
        return self._facts

    def facts_at(self, ev):
        """Guard facts {key: (polarity, atom descriptor)} that hold whenever ev executes."""
        fin, atoms = self.facts_in()
        cur = fin.get(ev['_b'])
        if cur is None:
            return {}
        cur = set(cur)
        for e in self.blocks[ev['_b']]['ev'][:ev['_i']]:
            _apply_kills(self, e, cur, atoms)
        return self._expand({k: (p, atoms[k]) for (k, p) in cur})

    def facts_at_block(self, bid):
        fin, atoms = self.facts_in()
        cur = fin.get(bid) or ()
        return self._expand({k: (p, atoms[k]) for (k, p) in cur})

    def single_def(self, var):
        """Initialiser of a local that is defined exactly once (declaration, never reassigned)."""
        if self._defs is None:
            self._defs = collections.defaultdict(list)
            for e in self.events():
                if e['k'] == 'decl':
                    self._defs[e['n']].append(e.get('init'))
                elif e['k'] in ('asg', 'call'):
                    for kind, n in _written_names(self, e):
                        if kind == 'var':
                            self._defs[n].append(e.get('r', {'k': '?', 'c': 'written-by-call'}))
            for p in self.params:
                self._defs[p['n']].append({'k': '?', 'c': 'param'})
        d = self._defs.get(var, [])
        return d[0] if len(d) == 1 and d[0] is not None else None

    def _expand(self, facts):
        """Facts about single-definition boolean locals also yield facts about their
        initialiser (so `bool ok = f(); if (!ok)` and `if (!f())` are the same guard)."""
        out = dict(facts)
        for key, (pol, atom) in list(facts.items()):
            a = strip(atom)
            for _ in range(3):
                if isinstance(a, dict) and a.get('k') == 'var' and a.get('vk') in ('local',):
                    init = self.single_def(a['n'])
                    if init is None:
                        break
                    a2, p2 = norm_cond(self.prog, init)
                    pol = pol if p2 else (not pol)
                    out.setdefault(dstr(a2), (pol, a2))
                    for k3, p3, a3 in _split_composite(self.prog, a2, pol):
                        out.setdefault(k3, (p3, a3))
                    a = strip(a2)
                else:
                    break
        # `a || b || c` known true with all but one disjunct known false: the remaining one is true
        # (and dually for a false conjunction)
        for key, (pol, atom) in list(out.items()):
            a = strip(atom)
            if not (isinstance(a, dict) and a.get('k') == 'bin' and a['op'] in ('&&', '||')):
                continue
            if (a['op'] == '||') != bool(pol):
                continue
            parts = []
            st = [a]
            while st:
                x = strip(st.pop())
                if isinstance(x, dict) and x.get('k') == 'bin' and x['op'] == a['op']:
                    st += [x['l'], x['r']]
                else:
                    parts.append(norm_cond(self.prog, x))
            want = a['op'] == '||'       # the remaining part must be true for ||, false for &&
            unknown = []
            for pa, pp in parts:
                k2 = dstr(pa)
                val = None
                if k2 in out:
                    val = (out[k2][0] == pp)            # truth value of this part
                else:
                    # a single-definition boolean local standing for the part
                    for k3, (p3, a3) in out.items():
                        s3 = strip(a3)
                        if isinstance(s3, dict) and s3.get('k') == 'var' and s3.get('vk') == 'local':
                            init = self.single_def(s3['n'])
                            if init is not None:
                                ia, ip = norm_cond(self.prog, init)
                                if dstr(ia) == k2:
                                    val = ((p3 == ip) == pp)
                if val is None:
                    unknown.append((pa, pp))
                elif val == want:
                    unknown = None
                    break
            if unknown is not None and len(unknown) == 1:
                pa, pp = unknown[0]
                out.setdefault(dstr(pa), (pp if want else (not pp), pa))
        return out

    def edge_fact(self, bid, idx):
        """First fact established by taking successor #idx of block bid: (key, pol, atom) or None."""
        fs = self.edge_facts(bid, idx)
        return fs[0] if fs else None

    def edge_facts(self, bid, idx, all=False):
        """The facts established by that edge (several when `a || b` is false / `a && b` is true and the condition is
        evaluated as a value).  By default only facts that decide an atom: a disjunctive composite (`a && b` known
        false, `a || b` known true) names atoms without fixing any of them; rules that reason about such a composite
        as a whole (or that hand the facts to a path search) ask for all=True."""
        fs = _edge_facts(self, bid, idx)
        if all:
            return fs
        out = []
        for f in fs:
            a = strip(f[2])
            if isinstance(a, dict) and a.get('k') == 'bin' and a.get('op') in ('&&', '||') and (a['op'] == '&&') != bool(f[1]):
                continue
            out.append(f)
        return out

    def reachable_blocks(self):
        return self.reachable_from(self.entry) | {self.entry}


def path_value(fn, d, facts, depth=0):
    """Constant value of expression d on a path with the given find_path facts, or None: constants, locals /
    fields with a constant assigned on the path, `c ? a : b` with c decided on the path."""
    v = _path_const(d)
    if v is not None or depth > 4:
        return v
    sd = strip(d)
    while isinstance(sd, dict) and sd.get('k') == 'cast':
        sd = strip(sd.get('e'))
    if not isinstance(sd, dict):
        return None
    if sd.get('k') in ('var', 'mem'):
        lk = sd['n'] if sd.get('k') == 'var' else dstr(sd)
        for it in facts:
            if it[0].__class__ is tuple and it[0][1] in (lk, dstr(sd)):
                return it[1]
        return None
    if sd.get('k') == 'cond':
        ca, cp = norm_cond(fn.prog, sd['c'])
        ck = dstr(ca)
        if (ck, cp) in facts:
            return path_value(fn, sd['t'], facts, depth + 1)
        if (ck, not cp) in facts:
            return path_value(fn, sd['f'], facts, depth + 1)
        return None
    if sd.get('k') == 'bin' and sd.get('op') in ('&&', '||'):
        # a conjunction / disjunction of values known on this path (`return first_ok && second_ok`)
        lv, rv = path_value(fn, sd['l'], facts, depth + 1), path_value(fn, sd['r'], facts, depth + 1)
        absorbing = 0 if sd['op'] == '&&' else 1
        if (lv is not None and bool(lv) == bool(absorbing)) or (rv is not None and bool(rv) == bool(absorbing)):
            return absorbing
        if lv is not None and rv is not None:
            return 1 - absorbing
    if sd.get('tk') == 'bool' or sd.get('k') in ('bin', 'un', 'call', 'tobool'):
        # a condition decided on this path (directly, or `x == A` when the path took `x == B`)
        ca, cp = norm_cond(fn.prog, sd)
        ck = dstr(ca)
        if (ck, cp) in facts:
            return 1
        if (ck, not cp) in facts:
            return 0
        a = strip(ca)
        if isinstance(a, dict) and a.get('k') == 'bin' and a.get('op') == '==' and const_value(a['r']) is not None:
            lk = dstr(strip(a['l']))
            for it in facts:
                if it[0].__class__ is tuple and it[0][1] == lk and isinstance(it[1], int):
                    return 1 if ((it[1] == const_value(a['r'])) == cp) else 0
            pre = '(' + lk + ' == '
            for it in facts:
                if it[0].__class__ is str and it[1] is True and it[0].startswith(pre) and it[0] != ck:
                    return 0 if cp else 1           # x == B holds on this path, B another constant
    return None


def store_arms(fn, e):
    """The values a store can write with the extra guard facts of each: `x = c ? a : b` yields
    [(a, {key(c): (True, c)}), (b, {key(c): (False, c)})]; any other store [(r, {})]."""
    r = e.get('r') if e.get('k') != 'decl' else e.get('init')
    r0 = r
    while isinstance(r0, dict) and r0.get('k') == 'cast':
        r0 = r0.get('e')
    if isinstance(r0, dict) and r0.get('k') == 'cond':
        atom, pol = norm_cond(fn.prog, r0['c'])
        k = dstr(atom)
        return [(r0['t'], {k: (pol, atom)}), (r0['f'], {k: (not pol, atom)})]
    return [(r, {})]


def _path_const(d):
    """Constant value of an assigned expression for path-sensitive search: integers / bools / enums,
    null (0) and string literals (a non-null pointer: 1, only ever tested for truth or against null)."""
    v = const_value(d)
    if v is not None:
        return v
    sd = strip(d)
    if isinstance(sd, dict):
        if sd.get('k') in ('null', 'nullptr'):
            return 0
        if sd.get('k') == 'str':
            return 1
    return None


def _split_composite(prog, atom, pol, depth=0):
    """`a && b` known true yields a and b; `a || b` known false yields !a and !b (recursively)."""
    a = strip(atom)
    out = []
    if depth > 6 or not (isinstance(a, dict) and a.get('k') == 'bin' and a['op'] in ('&&', '||')):
        return out
    if (a['op'] == '&&') != bool(pol):
        return out
    for part in (a['l'], a['r']):
        pa, pp = norm_cond(prog, part)
        p = pp if pol else (not pp)
        sp = strip(pa)
        if isinstance(sp, dict) and sp.get('k') == 'bin' and sp['op'] in ('&&', '||'):
            out += _split_composite(prog, pa, p, depth + 1)
        else:
            out.append((dstr(pa), p, pa))
    return out


def _dominators(entry, nodes, succ, preds):
    nodes = list(nodes)
    dom = {n: None for n in nodes}
    dom[entry] = {entry}
    changed = True
    # reachable set
    order = []
    seen = {entry}
    st = [entry]
    while st:
        x = st.pop()
        order.append(x)
        for s in succ(x):
            if s not in seen:
                seen.add(s)
                st.append(s)
    while changed:
        changed = False
        for n in order:
            if n == entry:
                continue
            ps = [dom[p] for p in preds(n) if p in seen and dom[p] is not None]
            if not ps:
                continue
            new = set.intersection(*ps) | {n}
            if new != dom[n]:
                dom[n] = new
                changed = True
    return {n: (d if d is not None else set()) for n, d in dom.items()}


# ---- condition normalisation --------------------------------------------------------------------

def _flip_cmp(op):
    return {'<': '>', '>': '<', '<=': '>=', '>=': '<='}[op]


def _drop_iter_conv(d, depth=0):
    """Iterator conversions (iterator -> const_iterator) are transparent in conditions."""
    if depth > 12:
        return d
    if isinstance(d, list):
        return [_drop_iter_conv(x, depth + 1) for x in d]
    if not isinstance(d, dict):
        return d
    if d.get('k') == 'ctor' and len(d.get('args') or []) == 1 and 'iterator' in (d.get('ty') or ''):
        return _drop_iter_conv(d['args'][0], depth + 1)
    return {k: (_drop_iter_conv(v, depth + 1) if isinstance(v, (dict, list)) else v) for k, v in d.items()}


def norm_cond(prog, d, depth=0):
    """Normalise a condition descriptor into (atom descriptor, polarity)."""
    if depth == 0 and isinstance(d, dict) and any(x.get('k') == 'bin' and x.get('op') == '=' for x in walk(d)):
        d = assigned_value(d)
    a, p = _norm_cond_raw(prog, d, depth)
    if depth == 0 and isinstance(a, dict) and 'iterator' in dstr(a):
        a = _drop_iter_conv(a)
    return a, p


def _norm_cond_raw(prog, d, depth=0):
    pol = True
    while True:
        d0 = d
        if not isinstance(d, dict):
            return d, pol
        k = d.get('k')
        if k in ('tobool',):
            d = d['e']
            continue
        if k == 'cast' and d.get('tk') == 'bool':
            d = d['e']
            continue
        if k == 'un' and d['op'] == '!':
            d = d['e']
            pol = not pol
            continue
        if k == 'cond' and all(x in d for x in ('c', 't', 'f')):
            # truth of `c ? x : null` is `c && x`; of `c ? null : x` is `!c && x`; dually with `true`
            def _arm(x):
                x = strip(x)
                if isinstance(x, dict):
                    if x.get('k') in ('null', 'nullptr') or (x.get('k') == 'bool' and x['v'] is False) or \
                            (x.get('k') == 'int' and x['v'] == 0):
                        return False
                    if x.get('k') == 'bool' and x['v'] is True:
                        return True
                return None
            at, af = _arm(d['t']), _arm(d['f'])
            nc = {'k': 'un', 'op': '!', 'e': d['c'], 'tk': 'bool'}
            if af is False and at is None:
                d = {'k': 'bin', 'op': '&&', 'l': d['c'], 'r': d['t'], 'tk': 'bool'}
                continue
            if at is False and af is None:
                d = {'k': 'bin', 'op': '&&', 'l': nc, 'r': d['f'], 'tk': 'bool'}
                continue
            if at is True and af is None:
                d = {'k': 'bin', 'op': '||', 'l': d['c'], 'r': d['f'], 'tk': 'bool'}
                continue
            if af is True and at is None:
                d = {'k': 'bin', 'op': '||', 'l': nc, 'r': d['t'], 'tk': 'bool'}
                continue
        if k == 'call' and (d.get('name') or '').startswith(('std::unique_ptr<', 'std::shared_ptr<')) and not d.get('args') and \
                d.get('recv') is not None and (d['name'].endswith('::operator bool') or d['name'].endswith('::get')):
            d = d['recv']           # `if (p)`, `if (p.get())`: the truth of a smart pointer is that of the pointer it holds
            continue
        if k == 'call' and basename(d.get('name') or '').startswith(('operator==', 'operator!=')) and \
                len((d.get('args') or [])) + (1 if d.get('recv') is not None else 0) == 2:
            ops = ([d['recv']] if d.get('recv') is not None else []) + list(d.get('args') or [])
            nul = [i for i, x in enumerate(ops) if isinstance(strip(x), dict) and strip(x).get('k') in ('null', 'nullptr')]
            oth = [x for i, x in enumerate(ops) if i not in nul]
            if len(nul) == 1 and any(t in (strip(oth[0]) or {}).get('ty', '') + dstr(d.get('name') or '') for t in ('unique_ptr', 'shared_ptr')):
                if basename(d['name']).startswith('operator=='):
                    pol = not pol
                d = oth[0]          # `p != nullptr` / `p == nullptr` on a smart pointer
                continue
        if k == 'call' and (d.get('op') == '!=' or basename(d.get('name') or '').startswith('operator!=')) and \
                len((d.get('args') or [])) + (1 if d.get('recv') is not None else 0) == 2:
            # overloaded inequality (std::string, StringPiece, iterators): `a != b` is `!(a == b)`
            nm = d.get('name') or ''
            d = dict(d, name=nm.replace('operator!=', 'operator=='), op='==')
            if d.get('fn'):
                d['fn'] = d['fn'].replace('operator!=', 'operator==')
            pol = not pol
            continue
        if k == 'bin' and d['op'] in ('==', '!='):
            l, r = d['l'], d['r']
            neq = d['op'] == '!='
            # comparisons with null / false / 0 / true
            for a, b in ((l, r), (r, l)):
                sb = strip(b)
                if isinstance(sb, dict) and (sb.get('k') == 'null' or
                                             (sb.get('k') == 'bool' and sb['v'] is False) or
                                             (sb.get('k') == 'int' and sb['v'] == 0 and
                                              strip(a).get('tk') in ('ptr', 'bool'))):
                    d = a
                    pol = pol if neq else (not pol)
                    break
                if isinstance(sb, dict) and sb.get('k') == 'bool' and sb['v'] is True:
                    d = a
                    pol = (not pol) if neq else pol
                    break
            else:
                if neq:
                    d = dict(d, op='==')
                    pol = not pol
                # canonical operand order: literal / enum on the right
                l, r = d['l'], d['r']
                if strip(l).get('k') in ('int', 'enum', 'bool', 'str') and \
                        strip(r).get('k') not in ('int', 'enum', 'bool', 'str'):
                    d = dict(d, l=r, r=l)
                return _inline_atom(prog, d, pol, depth)
            continue
        if k == 'bin' and d['op'] in ('>', '>=', '<='):
            if d['op'] == '>':
                d = dict(d, op='<', l=d['r'], r=d['l'])
            elif d['op'] == '>=':
                d = dict(d, op='<')
                pol = not pol
            else:
                d = dict(d, op='<', l=d['r'], r=d['l'])
                pol = not pol
            return _inline_atom(prog, d, pol, depth)
        if d is d0:
            break
    return _inline_atom(prog, d, pol, depth)


def _subst(d, recv, params, args):
    """Substitute this-> by recv and parameter variables by argument descriptors."""
    if isinstance(d, list):
        return [_subst(x, recv, params, args) for x in d]
    if not isinstance(d, dict):
        return d
    k = d.get('k')
    if k == 'this' and recv is not None:
        return recv
    if k == 'var' and d.get('vk') == 'param' and d['n'] in params:
        i = params.index(d['n'])
        if i < len(args):
            return args[i]
    return {kk: (_subst(v, recv, params, args) if isinstance(v, (dict, list)) else v)
            for kk, v in d.items()}


def _inline_atom(prog, d, pol, depth):
    """If d is a call of a trivial predicate wrapper, replace it by the wrapper's expression."""
    if depth < 4 and isinstance(d, dict) and d.get('k') == 'call' and prog is not None:
        w = prog.trivial_wrapper(d.get('fn'))
        if w is not None:
            fn, expr = w
            recv = d.get('recv')
            if recv is not None and d.get('op') is None:
                pass
            e2 = _subst(expr, recv, [p['n'] for p in fn.params], d.get('args', []))
            a, p2 = norm_cond(prog, e2, depth + 1)
            return a, (pol if p2 else not pol)
    if depth < 4 and isinstance(d, dict) and d.get('k') == 'bin' and d['op'] in ('==', '<') \
            and prog is not None:
        # inline wrappers inside comparison operands as well (e.g. want() == kWantNothing)
        def inl(x):
            x = strip(x) if isinstance(x, dict) and x.get('k') == 'tobool' else x
            if isinstance(x, dict) and x.get('k') == 'call':
                w = prog.trivial_wrapper(x.get('fn'))
                if w is not None:
                    fn, expr = w
                    return _subst(expr, x.get('recv'), [p['n'] for p in fn.params],
                                  x.get('args', []))
            return x
        d = dict(d, l=inl(d['l']), r=inl(d['r']))
    return d, pol


def _flatten(c, op):
    c = strip(c) if isinstance(c, dict) and c.get('k') == 'tobool' else c
    if isinstance(c, dict) and c.get('k') == 'bin' and c['op'] == op:
        return _flatten(c['l'], op) + _flatten(c['r'], op)
    return [c]


def _join_form(fn, bid):
    """The block evaluates `a || b` / `a && b` as a VALUE and then branches on it (clang does this
    when the condition needs cleanups, e.g. string temporaries): some predecessor's
    short-circuit edge enters this block directly."""
    b = fn.blocks[bid]
    t = b.get('term')
    if not t or 'cond' not in t or t['kind'] in ('land', 'lor'):
        return None
    c = t['cond']
    while isinstance(c, dict) and c.get('k') == 'tobool':
        c = c['e']
    if not (isinstance(c, dict) and c.get('k') == 'bin' and c['op'] in ('&&', '||')):
        return None
    op = c['op']
    for p in fn.preds.get(bid, []):
        pt = fn.blocks[p].get('term')
        if pt and pt['kind'] == ('lor' if op == '||' else 'land'):
            short = 0 if op == '||' else 1
            succ = fn.blocks[p]['succ']
            if len(succ) == 2 and succ[short] == bid:
                return op
    return None


def _snapshot_still_valid(fn, var, init, bid):
    """A local defined once from `init` still equals `init` when block bid branches on it: nothing that init reads (fields,
    locals) may be written by an event that can run after the definition and before the branch."""
    reads = {x['n'] for x in walk(init) if isinstance(x, dict) and x.get('k') in ('mem', 'var')}
    if not reads:
        return True
    cache = fn.__dict__.setdefault('_snapcache', {})
    key = (var, bid)
    if key in cache:
        return cache[key]
    dblocks = [e['_b'] for e in fn.events('decl') if e['n'] == var]
    ok = True
    if dblocks:
        db = dblocks[0]
        after = fn.reachable_from(db) | {db}
        for e in fn.events():
            if e['k'] not in ('asg', 'call') or e['_b'] not in after:
                continue
            if not (e['_b'] == bid or bid in fn.reachable_from(e['_b'])):
                continue
            if e['k'] == 'decl':
                continue
            try:
                wn = _written_names(fn, e)
            except Exception:
                wn = ()
            if any(n in reads for kind, n in wn if not (kind == 'var' and n == var)):
                # the write must not be the definition itself / precede it in the same block
                if e['_b'] == db and any(x['k'] == 'decl' and x['n'] == var and x['_i'] > e['_i'] for x in fn.blocks[db]['ev']):
                    continue
                # ... and must be able to reach the branch without running the definition again (a loop body defines the
                # local afresh in every iteration)
                if e['_b'] != db and e['_b'] != bid:
                    seen_, st_ = set(), [x for x in fn.succ(e['_b'])]
                    hit_ = False
                    while st_:
                        b2 = st_.pop()
                        if b2 in seen_ or b2 == db:
                            continue
                        seen_.add(b2)
                        if b2 == bid:
                            hit_ = True
                            break
                        st_ += fn.succ(b2)
                    if not hit_:
                        continue
                ok = False
                break
    cache[key] = ok
    return ok


def _edge_facts(fn, bid, idx):
    """All facts established by taking successor #idx of block bid: [(key, pol, atom)].  A test of
    a boolean local that is defined exactly once also yields the fact about its initialiser (so
    `const bool bad = a != b; if (bad || c)` equals `if (a != b || c)`)."""
    key = (bid, idx)
    cache = fn.__dict__.setdefault('_efcache', {})
    if key in cache:
        return cache[key]
    res = list(_edge_facts_uncached(fn, bid, idx))
    seen = {r[0] for r in res}
    for k, pol, atom in list(res):
        for k3, p3, a3 in _split_composite(fn.prog, atom, pol):
            if k3 not in seen:
                res.append((k3, p3, a3))
                seen.add(k3)
    for k, pol, atom in list(res):
        a = strip(atom)
        for _ in range(3):
            if isinstance(a, dict) and a.get('k') == 'var' and a.get('vk') == 'local':
                init = fn.single_def(a['n'])
                if init is None:
                    break
                if not _snapshot_still_valid(fn, a['n'], init, bid):
                    break           # `const bool was = x->f_; x->f_ = true; if (was)`: the test says nothing about f_ now
                a2, p2 = norm_cond(fn.prog, init)
                pol = pol if p2 else (not pol)
                k2 = dstr(a2)
                if k2 not in seen and not (isinstance(strip(a2), dict) and strip(a2).get('k') in ('bool', 'int')):
                    res.append((k2, pol, a2))
                    seen.add(k2)
                for k3, p3, a3 in _split_composite(fn.prog, a2, pol):
                    if k3 not in seen:
                        res.append((k3, p3, a3))
                        seen.add(k3)
                a = strip(a2)
            else:
                break
    cache[key] = res
    return res


def _variants(fn, c):
    """The normal forms of a condition: with trivial predicate wrappers expanded (first) and, when
    that differs, as written (so a rule may name either `edge->AllInputsReady()` or what it expands to)."""
    a1, p1 = norm_cond(fn.prog, c)
    out = [(a1, p1)]
    a2, p2 = norm_cond(None, c)
    if dstr(a2) != dstr(a1):
        out.append((a2, p2))
    return out


def _edge_facts_uncached(fn, bid, idx):
    b = fn.blocks[bid]
    t = b.get('term')
    if not t:
        return []
    succ = b['succ']
    if t['kind'] in COND_KINDS and len(succ) == 2 and 'cond' in t:
        if succ[0] == succ[1]:
            return []
        jf = _join_form(fn, bid)
        if jf is not None:
            c = t['cond']
            while isinstance(c, dict) and c.get('k') == 'tobool':
                c = c['e']
            ops = _flatten(c, jf)
            # `a || b` false  => every operand false;  `a && b` true => every operand true
            if (jf == '||' and idx == 1) or (jf == '&&' and idx == 0):
                out = []
                for o in ops:
                    for atom, pol in _variants(fn, o):
                        if isinstance(strip(atom), dict) and strip(atom).get('k') in ('bool', 'int'):
                            continue
                        if jf == '||':
                            pol = not pol
                        if dstr(atom) not in [x[0] for x in out]:
                            out.append((dstr(atom), pol, atom))
                return out
            # the other side only tells a disjunction: the composite itself, with its polarity
            at, ap = norm_cond(fn.prog, c)
            if isinstance(strip(at), dict) and strip(at).get('k') == 'bin':
                return [(dstr(at), ap if idx == 0 else (not ap), at)]
            return []
        c = fn.eff_cond(bid)
        if c is None:
            return []
        out = []
        for atom, pol in _variants(fn, c):
            if isinstance(strip(atom), dict) and strip(atom).get('k') in ('bool', 'int'):
                return []             # constant condition: carries no information
            if idx == 1:
                pol = not pol
            if dstr(atom) not in [x[0] for x in out]:
                out.append((dstr(atom), pol, atom))
        return out
    if t['kind'] == 'switch' and 'cond' in t:
        s = succ[idx]
        if s is None:
            return []
        lab = fn.blocks[s].get('label')
        if lab and 'case' in lab and lab['case'][0] == lab['case'][1]:
            # several edges into the same block => no single fact
            if sum(1 for x in succ if x == s) != 1:
                return []
            cd = lab.get('cdesc')
            rhs = cd if isinstance(cd, dict) and strip(cd).get('k') == 'enum' else \
                {'k': 'int', 'v': lab['case'][0]}
            atom = {'k': 'bin', 'op': '==', 'l': t['cond'], 'r': strip(rhs)}
            atom, pol = norm_cond(fn.prog, atom)
            return [(dstr(atom), pol, atom)]
    return []


def _edge_fact(fn, bid, idx):
    fs = _edge_facts(fn, bid, idx)
    return fs[0] if fs else None


def _written_names(fn, e):
    """Names of locals / fields (descriptor keys) whose value event e may change."""
    out = set()
    k = e['k']

    def target(d):
        d = strip(d)
        if not isinstance(d, dict):
            return
        if d.get('k') == 'var':
            out.add(('var', d['n']))
        elif d.get('k') == 'mem':
            out.add(('mem', d['n']))
        elif d.get('k') == 'un' and d['op'] in ('*', '&'):
            target(d['e'])
        elif d.get('k') == 'idx':
            target(d['b'])
        elif d.get('k') == 'call' and d.get('op') in ('*', '->', '[]'):
            target(d.get('recv'))
    if k == 'asg':
        target(e['l'])
    elif k == 'decl':
        out.add(('var', e['n']))
    elif k == 'call':
        callee = fn.prog.functions.get(e.get('fn'))
        args = e.get('args', [])
        for i, a in enumerate(args):
            sa = strip(a)
            if not isinstance(sa, dict):
                continue
            byref = False
            if sa.get('k') == 'un' and sa['op'] == '&':
                byref = True
                sa = sa['e']
            elif callee is not None and i < len(callee.params):
                p = callee.params[i]
                byref = bool(p.get('ref')) and not p.get('cref')
            elif callee is None and sa.get('k') in ('var', 'mem'):
                # unknown callee (library): assume non-const reference only for std algorithms
                byref = False
            if byref:
                target(sa)
        nm = e.get('name') or ''
        # mutating member calls on a variable / field: the receiver changes
        if 'recv' in e:
            base = nm.rsplit('::', 1)[-1]
            if base in MUTATORS or e.get('op') in ('=', '+=', '-=', '++', '--', '|=', '&='):
                target(e['recv'])
    return out


MUTATORS = {'insert', 'erase', 'push_back', 'pop_back', 'clear', 'resize', 'swap', 'emplace',
            'emplace_back', 'assign', 'append', 'push', 'pop', 'reset', 'operator=', 'operator+=',
            'reserve', 'release', 'pop_front', 'push_front', 'operator++', 'operator--'}


def _apply_kills(fn, e, cur, atoms):
    if e['k'] not in ('asg', 'decl', 'call', 'new'):
        return
    w = _written_names(fn, e) if e['k'] != 'new' else set()
    if e['k'] in ('call', 'new'):
        # fields the callee may write, transitively (mod set)
        for t in (fn.prog.call_targets(e) if e['k'] == 'call' else {e.get('fn')}):
            for n in fn.prog.mod_fields(t):
                w.add(('mem', n))
    if not w:
        return
    dead = []
    for (key, pol) in cur:
        a = atoms.get(key) if key.__class__ is str else None
        if a is None:
            continue
        for kind, n in w:
            if kind == 'var' and mentions_var(a, n):
                dead.append((key, pol))
                break
            if kind == 'mem' and mentions_field(a, n):
                dead.append((key, pol))
                break
    for x in dead:
        cur.discard(x)


def _guard_facts(fn):
    """Forward must-analysis.  Returns ({block: frozenset((key, pol))}, {key: atom})."""
    atoms = {}
    edge_facts = {}
    for bid, b in fn.blocks.items():
        for idx in range(len(b['succ'])):
            efs = _edge_facts(fn, bid, idx)
            if efs:
                edge_facts[(bid, idx)] = [(ef[0], ef[1]) for ef in efs]
                for ef in efs:
                    atoms[ef[0]] = ef[2]
    fin = {bid: None for bid in fn.blocks}   # None = TOP
    fin[fn.entry] = frozenset()
    order = sorted(fn.blocks, reverse=True)
    changed = True
    rounds = 0
    while changed and rounds < 60:
        changed = False
        rounds += 1
        for bid in order:
            if fin[bid] is None:
                continue
            cur = set(fin[bid])
            for e in fn.blocks[bid]['ev']:
                _apply_kills(fn, e, cur, atoms)
            b = fn.blocks[bid]
            for idx, s in enumerate(b['succ']):
                if s is None:
                    continue
                out = set(cur)
                for ef in edge_facts.get((bid, idx), ()):
                    # the new fact replaces an older opposite one
                    out.discard((ef[0], not ef[1]))
                    out.add(ef)
                out = frozenset(out)
                if s == fn.entry:
                    continue
                if fin[s] is None:
                    fin[s] = out
                    changed = True
                else:
                    new = fin[s] & out
                    if new != fin[s]:
                        fin[s] = new
                        changed = True
    return fin, atoms


# ------------------------------------------------------------------------------------------------
# Program
# ------------------------------------------------------------------------------------------------

# Primitive effects by library function name.
PRIM_EFFECTS = {
    'unlink': 'fs-remove', 'remove': 'fs-remove', 'rmdir': 'fs-remove',
    'rename': 'fs-rename', 'truncate': 'fs-truncate', 'ftruncate': 'fs-truncate',
    'mkdir': 'fs-mkdir',
    'fwrite': 'fs-write', 'fputs': 'fs-write', 'fputc': 'fs-write', 'fprintf': 'fs-write',
    'posix_spawn': 'spawn', 'posix_spawnp': 'spawn', 'fork': 'spawn', 'vfork': 'spawn',
    'execl': 'spawn', 'execlp': 'spawn', 'execv': 'spawn', 'execvp': 'spawn', 'system': 'spawn',
    'popen': 'spawn',
    'kill': 'kill',
    'exit': 'exit', '_exit': 'exit', 'abort': 'exit', '_Exit': 'exit',
    'mkfifo': 'fs-write',
}


def _make_stable(facts):
    """Stability oracle for the copy propagation of nv/inline.py: a local defined as `T v = init` may be replaced by
    `init` at its uses only if nothing `init` reads (locals, fields, receivers of the calls in it, fields read by the
    accessors it calls) can be written on a way from the definition to a use.  Decided on a provisional Program built
    from the facts as they are after helper inlining."""
    cache = {}

    def prog():
        if 'p' not in cache:
            cache['p'] = Program(facts, inline=False)
        return cache['p']

    def stable(fid, name, decl):
        P = prog()
        fn = P.functions.get(fid)
        if fn is None:
            return False
        d = None
        for e in fn.events('decl'):
            if e['n'] == name:
                d = e
        if d is None:
            return False
        init = d.get('init')
        reads = set()
        for x in walk(init):
            if x.get('k') == 'var' and x.get('n') != name:
                reads.add(('var', x['n']))
            elif x.get('k') == 'mem':
                reads.add(('mem', x['n']))
            elif x.get('k') == 'call' and x.get('fn') in P.functions:
                w = P.trivial_wrapper(x['fn'])
                if w:
                    for y in walk(w[1]):
                        if y.get('k') == 'mem':
                            reads.add(('mem', y['n']))
        if not reads:
            return True
        writers = []
        for e in fn.events():
            if e is d or e['k'] not in ('asg', 'decl', 'call', 'new', 'delete'):
                continue
            try:
                w = _written_names(fn, e) if e['k'] != 'new' else set()
            except Exception:
                return False
            if e['k'] in ('call', 'new'):
                for t in (P.call_targets(e) if e['k'] == 'call' else {e.get('fn')}):
                    for fld in P.mod_fields(t):
                        w.add(('mem', fld))
            if w & reads and fn.ev_reaches(d, e):
                writers.append(e)
        if not writers:
            return True
        def mentions(o):
            return any(x.get('k') == 'var' and x.get('n') == name for x in walk(o))
        use_ev = {id(e) for e in fn.events() if e is not d and mentions({k: v for k, v in e.items() if not k.startswith('_')})}
        use_blocks = {b for b, blk in fn.blocks.items() if blk.get('term') and mentions(blk['term'])}
        # from just after each writer: can a use be reached without passing the definition again?
        for w in writers:
            work = [(w['_b'], w['_i'] + 1)]
            seen = set()
            while work:
                b, i0 = work.pop()
                stop = False
                for e in fn.blocks[b]['ev'][i0:]:
                    if e is d:
                        stop = True
                        break
                    if id(e) in use_ev:
                        return False
                if stop:
                    continue
                if b in use_blocks:
                    return False
                for s2 in fn.succ(b):
                    if s2 is not None and s2 not in seen:
                        seen.add(s2)
                        work.append((s2, 0))
        return True
    return stable


class Program:
    def __init__(self, facts, inline=True):
        self.inline_report = None
        if inline and os.environ.get('NV_NO_INLINE') != '1':
            import inline as _inl
            facts, self.inline_report = _inl.inline_helpers(facts, make_stable=_make_stable)
        self.facts = facts
        self.functions = {fid: Fn(self, d) for fid, d in facts['functions'].items()}
        self.by_name = collections.defaultdict(list)
        for f in self.functions.values():
            self.by_name[f.name].append(f)
        self.classes = facts['classes']
        self.enums = facts['enums']
        self.globals = facts['globals']
        self._wrappers = {}
        self._overriders = None
        self._callers = None
        self._callees = None
        self._effects = None
        self._mod = None

    # ---- lookup ----------------------------------------------------------------------------
    def fn(self, name, nparams=None):
        fs = self.by_name.get(name, [])
        if nparams is not None:
            fs = [f for f in fs if len(f.params) == nparams]
        if len(fs) != 1:
            raise AnalysisBroken('anchor function %s: %d definitions found%s' % (
                name, len(fs), '' if nparams is None else ' with %d params' % nparams))
        return fs[0]

    def fns(self, name):
        fs = self.by_name.get(name, [])
        if not fs:
            raise AnalysisBroken('anchor function %s not found' % name)
        return fs

    def has_fn(self, name):
        return bool(self.by_name.get(name))

    def enum_value(self, qual):
        for e in self.enums.values():
            for c in e['consts']:
                if c['n'] == qual:
                    return c['v']
        raise AnalysisBroken('enum constant %s not found' % qual)

    def global_(self, name):
        g = self.globals.get(name)
        if g is None:
            raise AnalysisBroken('global %s not found' % name)
        return g

    def field(self, qual):
        cls = qual.rsplit('::', 1)[0]
        c = self.classes.get(cls)
        if c is None:
            raise AnalysisBroken('class %s not found (field %s)' % (cls, qual))
        for f in c['fields']:
            if f['n'] == qual:
                return f
        raise AnalysisBroken('field %s not found' % qual)

    # ---- trivial wrappers --------------------------------------------------------------------
    def trivial_wrapper(self, fid):
        if fid in self._wrappers:
            return self._wrappers[fid]
        res = None
        f = self.functions.get(fid)
        if f is not None:
            rets = list(f.events('ret'))
            others = [e for e in f.events() if e['k'] in ('asg', 'decl', 'new', 'delete')]
            conds = [b for b in f.blocks.values()
                     if b.get('term') and b['term']['kind'] not in ('land', 'lor')]
            if len(rets) == 1 and not others and not conds and 'e' in rets[0] and \
                    f.retk in ('bool', 'ptr', 'int', 'uint', 'enum', 'record', 'other'):
                nodes = list(walk(rets[0]['e']))
                # only small accessors / predicates are inlined; bigger ones stay calls
                if len(nodes) <= 14 and not any(x.get('k') == 'deep' for x in nodes):
                    res = (f, rets[0]['e'])
        self._wrappers[fid] = res
        return res

    # ---- virtual dispatch ---------------------------------------------------------------------
    def overriders(self, fid):
        if self._overriders is None:
            direct = collections.defaultdict(set)
            for c in self.classes.values():
                for m in c['methods']:
                    for o in m.get('overrides', []):
                        direct[o].add(m['id'])
            for f in self.functions.values():
                for o in f.d.get('overrides', []):
                    direct[o].add(f.id)
            self._overriders = {}
            for base in list(direct):
                seen = set()
                st = [base]
                while st:
                    x = st.pop()
                    for y in direct.get(x, ()):
                        if y not in seen:
                            seen.add(y)
                            st.append(y)
                self._overriders[base] = seen
        return self._overriders.get(fid, set())

    def call_targets(self, e):
        """Function ids a call event may invoke (direct + overriders of a virtual callee)."""
        fid = e.get('fn')
        if fid is None:
            return set()
        t = {fid}
        if e.get('virt'):
            t |= self.overriders(fid)
        return t

    # ---- call graph --------------------------------------------------------------------------
    def _build_cg(self):
        self._callers = collections.defaultdict(list)
        self._callees = collections.defaultdict(set)
        for f in self.functions.values():
            for e in f.events():
                if e['k'] == 'call':
                    for t in self.call_targets(e):
                        self._callers[t].append((f, e))
                        self._callees[f.id].add(t)
                    if e.get('fn') is None:
                        self._callees[f.id].add('<indirect>')
                elif e['k'] == 'new' and e.get('fn'):
                    self._callers[e['fn']].append((f, e))
                    self._callees[f.id].add(e['fn'])
                elif e['k'] == 'fnref':
                    self._callees[f.id].add(e['fn'])
                    self._callers[e['fn']].append((f, e))

    def callers(self, fid):
        """[(caller Fn, call event)] including virtual-dispatch and address-taken sites."""
        if self._callers is None:
            self._build_cg()
        return self._callers.get(fid, [])

    def callers_of_name(self, name):
        out = []
        for f in self.by_name.get(name, []):
            out += self.callers(f.id)
        # also calls to declarations without bodies (library / pure virtual)
        return out

    def call_sites(self, name):
        """All call events (anywhere) whose static callee has this qualified name."""
        out = []
        for f in self.functions.values():
            for e in f.events('call'):
                if e.get('name') == name:
                    out.append((f, e))
        return out

    def callees(self, fid):
        if self._callees is None:
            self._build_cg()
        return self._callees.get(fid, set())

    def reachable_fns(self, roots):
        seen = set()
        st = list(roots)
        while st:
            x = st.pop()
            if x in seen:
                continue
            seen.add(x)
            for y in self.callees(x):
                if y not in seen:
                    st.append(y)
        return seen

    def sccs(self):
        """Strongly connected components (Tarjan) of the call graph over defined functions."""
        index = {}
        low = {}
        onst = set()
        st = []
        out = []
        counter = [0]
        for root in self.functions:
            if root in index:
                continue
            work = [(root, iter(sorted(y for y in self.callees(root) if y in self.functions)))]
            index[root] = low[root] = counter[0]
            counter[0] += 1
            st.append(root)
            onst.add(root)
            while work:
                v, it = work[-1]
                adv = False
                for w in it:
                    if w not in index:
                        index[w] = low[w] = counter[0]
                        counter[0] += 1
                        st.append(w)
                        onst.add(w)
                        work.append((w, iter(sorted(y for y in self.callees(w)
                                                    if y in self.functions))))
                        adv = True
                        break
                    elif w in onst:
                        low[v] = min(low[v], index[w])
                if adv:
                    continue
                work.pop()
                if work:
                    u = work[-1][0]
                    low[u] = min(low[u], low[v])
                if low[v] == index[v]:
                    comp = []
                    while True:
                        w = st.pop()
                        onst.discard(w)
                        comp.append(w)
                        if w == v:
                            break
                    out.append(comp)
        return out

    # ---- mod sets ----------------------------------------------------------------------------
    def mod_fields(self, fid):
        """Fields (qualified names) that function fid may write, transitively through calls.
        Constructor initialisers are not counted (they write a fresh object)."""
        if self._mod is None:
            mod = {f: set() for f in self.functions}
            for f in self.functions.values():
                for e in f.events():
                    if e['k'] == 'asg' and e.get('init'):
                        continue
                    if e['k'] in ('asg', 'call'):
                        for kind, n in _written_names(f, e):
                            if kind == 'mem':
                                mod[f.id].add(n)
            changed = True
            while changed:
                changed = False
                for f in self.functions.values():
                    cur = mod[f.id]
                    before = len(cur)
                    for t in self.callees(f.id):
                        if t in mod and t != f.id:
                            cur |= mod[t]
                    if len(cur) != before:
                        changed = True
            self._mod = mod
        return self._mod.get(fid, ())

    # ---- effects -----------------------------------------------------------------------------
    def direct_effects(self, f):
        """[(effect, event)] primitive effects performed directly by function f."""
        out = []
        for e in f.events('call'):
            nm = e.get('name') or ''
            base = nm.rsplit('::', 1)[-1]
            if e.get('fn') and e['fn'] in self.functions:
                continue   # defined in the repo: handled through the call graph
            eff = PRIM_EFFECTS.get(nm) or (PRIM_EFFECTS.get(base) if '::' not in nm else None)
            if nm in ('fopen',):
                mode = e['args'][1] if len(e.get('args', [])) > 1 else None
                if isinstance(mode, dict) and mode.get('k') == 'str' and \
                        any(c in mode['v'] for c in 'wa+'):
                    eff = 'fs-open-write'
                elif not (isinstance(mode, dict) and mode.get('k') == 'str'):
                    eff = 'fs-open-write'
            if nm == 'open':
                flags = dstr(e['args'][1]) if len(e.get('args', [])) > 1 else ''
                eff = 'fs-open-write' if any(x in flags for x in ('O_WRONLY', 'O_RDWR', 'O_CREAT',
                                                                   '1', '2', '64', '65', '66')) else None
            if nm in ('fwrite', 'fputs', 'fputc', 'fprintf', 'putc', 'vfprintf', 'fflush'):
                # stdio output to the standard streams is terminal output, not a file write
                stream = dstr(e['args'][-1] if nm in ('fwrite', 'fputs', 'fputc', 'putc') else e['args'][0]) \
                    if e.get('args') else ''
                if stream in ('stdout', 'stderr'):
                    eff = 'stdout'
                elif nm == 'fflush':
                    eff = None
            if nm in ('printf', 'puts', 'putchar', 'vprintf'):
                eff = 'stdout'
            if eff:
                out.append((eff, e))
        return out

    def effects(self):
        """{fid: {effect: (first callee id or None, event)}} transitive effect summaries."""
        if self._effects is None:
            eff = {fid: {} for fid in self.functions}
            for f in self.functions.values():
                for x, e in self.direct_effects(f):
                    eff[f.id].setdefault(x, (None, e))
            changed = True
            while changed:
                changed = False
                for f in self.functions.values():
                    for e in f.events('call'):
                        for t in self.call_targets(e):
                            if t in eff:
                                for x in eff[t]:
                                    if x not in eff[f.id]:
                                        eff[f.id][x] = (t, e)
                                        changed = True
                    for e in f.events('new'):
                        t = e.get('fn')
                        if t in eff:
                            for x in eff[t]:
                                if x not in eff[f.id]:
                                    eff[f.id][x] = (t, e)
                                    changed = True
            self._effects = eff
        return self._effects

    def effect_path(self, fid, effect):
        """Witness call chain from function fid to a primitive effect."""
        eff = self.effects()
        path = []
        seen = set()
        while fid is not None and fid not in seen:
            seen.add(fid)
            t, e = eff[fid][effect]
            f = self.functions[fid]
            path.append('%s (%s: %s)' % (f.name, f.where(e), e.get('src', e.get('name'))))
            fid = t
        return path


# ------------------------------------------------------------------------------------------------
# Small helpers for rules
# ------------------------------------------------------------------------------------------------

def fact_holds(facts, pred, polarity=None):
    """Is there a fact whose atom satisfies pred (and has the given polarity)?  A composite that only states a
    disjunction - `a && b` known false, `a || b` known true - says nothing about any one of its parts and is not
    offered to pred (a conjunction's parts are facts of their own)."""
    for key, (pol, atom) in facts.items():
        a = strip(atom)
        if isinstance(a, dict) and a.get('k') == 'bin' and a.get('op') in ('&&', '||') and (a['op'] == '&&') != bool(pol):
            continue
        if (polarity is None or pol == polarity) and pred(atom):
            return True
    return False


def facts_str(facts):
    return sorted(('' if pol else '!') + key for key, (pol, atom) in facts.items())


def ret_value_class(prog, fn, e):
    """Classify a return event: 'fail', 'success', 'unknown', or 'void'."""
    if 'e' not in e or e['e'] is None:
        return 'void'
    d = e['e']
    s = strip(d)
    rk = fn.retk
    if isinstance(d, dict) and d.get('k') == 'tobool' and d.get('from') == 'ptr':
        inner = strip(d['e'])
        # a pointer converted to bool: non-null parameters are "true"
        if isinstance(inner, dict) and inner.get('k') == 'var' and inner.get('vk') == 'param':
            return 'success'
        return 'unknown'
    if not isinstance(s, dict):
        return 'unknown'
    k = s.get('k')
    if rk == 'bool':
        if k == 'bool':
            return 'success' if s['v'] else 'fail'
        if k == 'int':
            return 'success' if s['v'] else 'fail'
    if rk == 'ptr':
        if k == 'null' or (k == 'int' and s['v'] == 0):
            return 'fail'
    if k == 'enum':
        n = s['n']
        if n in ('LOAD_ERROR', 'ExitFailure', 'ExitInterrupted', 'DiskInterface::OtherError'):
            return 'fail'
        if n in ('LOAD_SUCCESS', 'ExitSuccess', 'LOAD_NOT_FOUND', 'DiskInterface::Okay'):
            return 'success'
    if rk in ('int', 'uint') and k == 'int':
        return 'success' if s['v'] == 0 else 'fail'
    if k == 'ctor' and 'optional' in (s.get('ty') or '') and not s.get('args'):
        return 'fail'
    if k == 'ctor' and 'optional' in (s.get('ty') or '') and len(s.get('args') or []) == 1 and 'nullopt' in dstr(s['args'][0]):
        return 'fail'           # std::optional<T>{std::nullopt}
    if k == 'var' and s['n'] == 'nullopt':
        return 'fail'
    if k == 'call':
        callee = prog.functions.get(s.get('fn'))
        if callee is not None and always_fails(prog, callee):
            return 'fail'
        return 'unknown'
    return 'unknown'


_always_fail_cache = {}


def always_fails(prog, fn):
    """All returns of fn are failure values (e.g. Lexer::Error: `return false`)."""
    if fn.id in _always_fail_cache:
        return _always_fail_cache[fn.id]
    _always_fail_cache[fn.id] = False
    rets = list(fn.events('ret'))
    ok = bool(rets) and all(ret_value_class(prog, fn, r) == 'fail' for r in rets)
    _always_fail_cache[fn.id] = ok
    return ok
