"""Apply a patch to a scratch copy of /repo's sources (outside /repo and /verif; /repo itself is never
touched, so concurrent runs do not see each other), run the given property checks on the copy, remove it.
python3 nv/trypatch.py <patch.diff> <C05> [<C06> ...]   — prints one line per property."""
import os
import shutil
import subprocess
import sys
import tempfile

patch = os.path.abspath(sys.argv[1])
props = sys.argv[2:]
tmp = tempfile.mkdtemp(prefix='nvtry-')
try:
    os.makedirs(os.path.join(tmp, 'repo'))
    shutil.copytree('/repo/src', os.path.join(tmp, 'repo', 'src'))
    shutil.copy('/repo/CMakeLists.txt', os.path.join(tmp, 'repo', 'CMakeLists.txt'))
    p = subprocess.run(['patch', '-p1', '--fuzz=3', '-s', '-i', patch], cwd=os.path.join(tmp, 'repo'),
                       stdout=subprocess.PIPE, stderr=subprocess.STDOUT, text=True)
    if p.returncode != 0:
        print('patch does not apply: ' + p.stdout[-300:])
        sys.exit(2)
    env = dict(os.environ, NV_REPO=os.path.join(tmp, 'repo'), NV_CACHE=os.path.join(tmp, 'cache'),
               NV_EVIDENCE=os.path.join(tmp, 'evidence'))
    for pid in props:
        r = subprocess.run([sys.executable, '/verif/nv/check.py', pid], stdout=subprocess.PIPE, env=env,
                           stderr=subprocess.STDOUT, text=True)
        lines = [l for l in r.stdout.splitlines() if not l.startswith(('VIOLATION', 'KNOWN-FINDING', 'OK ', '    witness'))]
        print('%s rc=%d %s' % (pid, r.returncode, ' | '.join(lines[:4])[:700]))
finally:
    shutil.rmtree(tmp, ignore_errors=True)
