"""Apply a patch to /repo, run the given property checks, and undo the patch (always).
python3 nv/trypatch.py <patch.diff> <C05> [<C06> ...]   — prints one line per property."""
import os
import subprocess
import sys

patch = sys.argv[1]
props = sys.argv[2:]
subprocess.check_call(['git', '-C', '/repo', 'apply', '--whitespace=nowarn', patch])
try:
    for p in props:
        r = subprocess.run([sys.executable, '/verif/nv/check.py', p], stdout=subprocess.PIPE,
                           env=dict(os.environ, NV_EVIDENCE='/tmp/nv-try-evidence'),
                           stderr=subprocess.STDOUT, text=True)
        lines = [l for l in r.stdout.splitlines() if not l.startswith(('VIOLATION', 'KNOWN-FINDING', 'OK ', '    witness'))]
        print('%s rc=%d %s' % (p, r.returncode, ' | '.join(lines[:4])[:700]))
finally:
    subprocess.check_call(['git', '-C', '/repo', 'checkout', '--', '.'])
