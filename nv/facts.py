"""Fact acquisition: which translation units are analysed, with which flags, extraction through
nvx (one JSON per unit, in parallel), and a content-addressed cache.

Nothing here executes ninja; the only programs run are the clang front end (inside nvx)."""
import concurrent.futures
import fcntl
import hashlib
import json
import os
import re
import shutil
import subprocess
import sys
import time

VERIF = os.path.dirname(os.path.dirname(os.path.abspath(__file__)))
REPO = os.environ.get('NV_REPO', '/repo')
SRC = os.path.join(REPO, 'src')
NVX = os.path.join(VERIF, 'build', 'nvx')
CACHE = os.environ.get('NV_CACHE') or os.path.join(VERIF, '.cache')
# What _build/build.ninja uses, restated: libninja units get -I src (quoted includes only are
# used by the sources; -iquote keeps <getopt.h> pointing at the system header as in the real
# build of ninja.cc, which has no -I); ninja.cc / browse.cc get -DNINJA_HAVE_BROWSE and the
# generated build/browse_py.h (stubbed: its content is a string constant).
# NV_CONFIG selects the preprocessor configuration that is analysed (thorough tier runs all):
#   release  -DNDEBUG -DUSE_PPOLL=1   (what cmake's Release build compiles; the default)
#   debug    asserts compiled in      (cmake's Debug build)
#   pselect  -DNDEBUG, no USE_PPOLL   (the pselect() variant of SubprocessSet::DoWork)
CONFIGS = {
    'release': ['-DUSE_PPOLL=1', '-DNDEBUG'],
    'debug': ['-DUSE_PPOLL=1', '-UNDEBUG'],
    'pselect': ['-DNDEBUG'],
}
CONFIG = os.environ.get('NV_CONFIG', 'release')
FLAGS = ['-std=gnu++17'] + CONFIGS[CONFIG] + ['-DNINJA_HAVE_BROWSE', '-DNINJA_PYTHON="python"', '-iquote', SRC,
         '-iquote', os.path.join(VERIF, 'stubs'), '-I' + os.path.join(VERIF, 'stubs'),
         '-Wno-everything']


class AnalysisBroken(Exception):
    """Raised when the analysis itself cannot be trusted (exit status 2)."""


def resource_dir():
    return subprocess.check_output(['clang++', '-print-resource-dir'], text=True).strip()


def translation_units():
    """Derive the TU list from /repo/CMakeLists.txt (non-WIN32 branch, re2c fallback)."""
    path = os.path.join(REPO, 'CMakeLists.txt')
    try:
        text = open(path).read()
    except OSError as e:
        raise AnalysisBroken('cannot read %s: %s' % (path, e))
    units = []
    m = re.search(r'add_library\(libninja OBJECT(.*?)\)', text, re.S)
    if not m:
        raise AnalysisBroken('libninja OBJECT list not found in CMakeLists.txt')
    units += re.findall(r'(src/[\w\-]+\.cc)', m.group(1))
    # re2c fallback: checked-in generated files (re2c is not installed in this image)
    m = re.search(r'add_library\(libninja-re2c OBJECT (src/[\w\-]+\.cc) (src/[\w\-]+\.cc)\)', text)
    if not m:
        raise AnalysisBroken('libninja-re2c fallback list not found in CMakeLists.txt')
    units += [m.group(1), m.group(2)]
    # posix branch
    for blk in re.findall(r'target_sources\(libninja PRIVATE(.*?)\)', text, re.S):
        for u in re.findall(r'(src/[\w\-]+\.cc)', blk):
            if 'win32' in u:
                continue
            units.append(u)
    units.append('src/ninja.cc')
    if 'src/browse.cc' in text:
        units.append('src/browse.cc')
    seen = []
    for u in units:
        if u not in seen and os.path.exists(os.path.join(REPO, u)):
            seen.append(u)
        elif u not in seen:
            raise AnalysisBroken('translation unit %s named by CMakeLists.txt does not exist' % u)
    if len(seen) < 30:
        raise AnalysisBroken('only %d translation units derived (expected >= 30)' % len(seen))
    return seen


def tree_hash(units):
    h = hashlib.sha256()
    files = sorted(f for f in os.listdir(SRC) if f.endswith(('.cc', '.h', '.c')))
    for f in files:
        p = os.path.join(SRC, f)
        h.update(f.encode())
        h.update(open(p, 'rb').read())
    h.update(open(os.path.join(REPO, 'CMakeLists.txt'), 'rb').read())
    h.update(' '.join(FLAGS).encode())
    h.update(' '.join(units).encode())
    st = os.stat(NVX)
    h.update(('%d:%d' % (st.st_size, int(st.st_mtime))).encode())
    return h.hexdigest()[:24]


def _extract_one(args):
    unit, out, rdir = args
    cmd = [NVX, out, SRC, os.path.join(REPO, unit), '--'] + FLAGS + ['-resource-dir', rdir]
    p = subprocess.run(cmd, stdout=subprocess.PIPE, stderr=subprocess.PIPE, text=True)
    ok = p.returncode == 0 and os.path.exists(out) and os.path.getsize(out) > 0
    return unit, ok, (p.stderr or '')[-2000:]


def load_facts(verbose=False):
    """Returns (merged facts dict, info dict).  Re-extracts whenever any source file changed."""
    if not os.path.exists(NVX):
        raise AnalysisBroken('nvx is not built; run MANIFEST.setup_cmd (make -C /verif)')
    units = translation_units()
    key = tree_hash(units)
    os.makedirs(CACHE, exist_ok=True)
    merged_path = os.path.join(CACHE, key + '.json')
    lock = open(os.path.join(CACHE, 'lock'), 'w')
    fcntl.flock(lock, fcntl.LOCK_EX)
    try:
        t0 = time.time()
        if not os.path.exists(merged_path):
            d = os.path.join(CACHE, key + '.units')
            os.makedirs(d, exist_ok=True)
            rdir = resource_dir()
            jobs = [(u, os.path.join(d, u.replace('/', '_') + '.json'), rdir) for u in units]
            # tools that analyse many scratch copies of the same tree (tools/matrix.py) share the per-unit output of nvx
            # between them: NV_UNIT_CACHE names a directory keyed by the content of the unit, of every header, the flags
            # and the nvx binary.  The registered commands do not set it and always extract.
            ucache = os.environ.get('NV_UNIT_CACHE')
            ukeys = {}
            if ucache:
                os.makedirs(ucache, exist_ok=True)
                hh = hashlib.sha256()
                for f in sorted(f for f in os.listdir(SRC) if f.endswith('.h')):
                    hh.update(f.encode())
                    hh.update(open(os.path.join(SRC, f), 'rb').read())
                st_ = os.stat(NVX)
                hh.update((' '.join(FLAGS).replace(SRC, '$SRC').replace(REPO, '$REPO') + '%d:%d' % (st_.st_size, int(st_.st_mtime))).encode())
                for u, out, _ in jobs:
                    hu = hashlib.sha256(hh.digest())
                    hu.update(u.encode())
                    hu.update(open(os.path.join(REPO, u), 'rb').read())
                    ukeys[u] = os.path.join(ucache, hu.hexdigest()[:32] + '.json')

            def _extract_cached(job):
                u, out, _ = job
                ck = ukeys.get(u)
                if ck and os.path.exists(ck):
                    shutil.copy(ck, out)
                    return u, True, ''
                r = _extract_one(job)
                if ck and r[1]:
                    t_ = ck + '.tmp%d' % os.getpid()
                    shutil.copy(out, t_)
                    os.replace(t_, ck)
                return r
            with concurrent.futures.ThreadPoolExecutor(max_workers=16) as ex:
                results = list(ex.map(_extract_cached, jobs))
            bad = [(u, e) for u, ok, e in results if not ok]
            if bad:
                raise AnalysisBroken('nvx failed on %s:\n%s' % (bad[0][0], bad[0][1]))
            merged = {'functions': {}, 'classes': {}, 'enums': {}, 'globals': {}, 'units': units}
            for u, out, _ in jobs:
                data = json.load(open(out))
                for f in data['functions']:
                    f['unit'] = u
                    old = merged['functions'].get(f['id'])
                    # prefer the definition seen in its own file's TU; header functions: first wins
                    if old is None:
                        merged['functions'][f['id']] = f
                for c in data['classes']:
                    merged['classes'].setdefault(c['name'], c)
                for e in data['enums']:
                    merged['enums'].setdefault(e['name'], e)
                for g in data['globals']:
                    old = merged['globals'].get(g['name'])
                    if old is None or ('init' in g and 'init' not in old):
                        merged['globals'][g['name']] = g
            tmp = merged_path + '.tmp%d' % os.getpid()
            json.dump(merged, open(tmp, 'w'))
            os.replace(tmp, merged_path)
            for u, out, _ in jobs:
                os.unlink(out)
            os.rmdir(d)
            # keep the cache small: drop other keys
            for f in os.listdir(CACHE):
                if f.endswith('.json') and f != key + '.json' or f.endswith('.pickle') and not f.startswith(key):
                    try:
                        os.unlink(os.path.join(CACHE, f))
                    except OSError:
                        pass
            fresh = True
        else:
            fresh = False
        facts = json.load(open(merged_path))
    finally:
        fcntl.flock(lock, fcntl.LOCK_UN)
        lock.close()
    info = {'units': len(units), 'unit_list': units, 'cache_key': key, 'fresh_extraction': fresh,
            'load_s': round(time.time() - t0, 2), 'flags': FLAGS}
    # parameters / locals that were only renamed get the names the rules were read with (nv/alpha.py)
    if not os.environ.get('NV_NO_ALPHA'):
        import alpha
        info['alpha_renamed'] = {fid: ren for fid, ren in alpha.normalise(facts).items()}
    if verbose:
        print('facts: %d units, %d functions, key %s, fresh=%s, %.1fs' % (
            len(units), len(facts['functions']), key, fresh, info['load_s']), file=sys.stderr)
    return facts, info


def load_fixture_facts():
    """Facts of /verif/fixtures/*.cc (positive controls), extracted with the same nvx and flags."""
    fdir = os.path.join(VERIF, 'fixtures')
    files = sorted(f for f in os.listdir(fdir) if f.endswith('.cc'))
    h = hashlib.sha256()
    for f in files:
        h.update(open(os.path.join(fdir, f), 'rb').read())
    st = os.stat(NVX)
    h.update(('%d:%d' % (st.st_size, int(st.st_mtime))).encode())
    key = 'fixtures-' + h.hexdigest()[:20]
    os.makedirs(CACHE, exist_ok=True)
    path = os.path.join(CACHE, key + '.fx')
    lock = open(os.path.join(CACHE, 'lock'), 'w')
    fcntl.flock(lock, fcntl.LOCK_EX)
    try:
        if not os.path.exists(path):
            merged = {'functions': {}, 'classes': {}, 'enums': {}, 'globals': {}, 'units': files}
            rdir = resource_dir()
            for f in files:
                out = path + '.' + f + '.json'
                cmd = [NVX, out, fdir, os.path.join(fdir, f), '--', '-std=gnu++17', '-Wno-everything',
                       '-resource-dir', rdir]
                p = subprocess.run(cmd, stdout=subprocess.PIPE, stderr=subprocess.PIPE, text=True)
                if p.returncode != 0 or not os.path.exists(out):
                    raise AnalysisBroken('nvx failed on fixture %s: %s' % (f, p.stderr[-500:]))
                data = json.load(open(out))
                os.unlink(out)
                for fn in data['functions']:
                    fn['unit'] = f
                    merged['functions'].setdefault(fn['id'], fn)
                for c in data['classes']:
                    merged['classes'].setdefault(c['name'], c)
                for g in data['globals']:
                    merged['globals'].setdefault(g['name'], g)
            for old in os.listdir(CACHE):
                if old.endswith('.fx') and old != key + '.fx':
                    os.unlink(os.path.join(CACHE, old))
            json.dump(merged, open(path + '.tmp', 'w'))
            os.replace(path + '.tmp', path)
        return json.load(open(path))
    finally:
        fcntl.flock(lock, fcntl.LOCK_UN)
        lock.close()


if __name__ == '__main__':
    f, i = load_facts(verbose=True)
    print(json.dumps({k: v for k, v in i.items() if k != 'unit_list'}, indent=1))
