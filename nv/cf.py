"""Engine C — batched compile-fail witnesses (DESIGN 3.4).  Each witness is compiled as its own
tiny TU in one parallel batch with `clang++ -fsyntax-only` against /repo/src headers; a witness
that must fail has to produce an error, a control has to compile."""
import concurrent.futures
import os
import subprocess
import tempfile

from facts import SRC, AnalysisBroken

FLAGS = ['-std=gnu++17', '-DUSE_PPOLL=1', '-DNDEBUG', '-I' + SRC, '-fsyntax-only', '-w',
         '-ferror-limit=3']


def _one(args):
    wid, code, must_fail, d = args
    p = os.path.join(d, wid.replace('/', '_') + '.cc')
    open(p, 'w').write(code + '\n')
    r = subprocess.run(['clang++'] + FLAGS + [p], stdout=subprocess.PIPE, stderr=subprocess.PIPE,
                       text=True)
    failed = r.returncode != 0
    first = ''
    for l in r.stderr.splitlines():
        if 'error:' in l:
            first = l.split('error:', 1)[1].strip()
            break
    if failed and 'file not found' in r.stderr:
        raise AnalysisBroken('witness %s: header not found: %s' % (wid, first))
    ok = failed == must_fail
    detail = ('rejected: ' + first) if failed else 'compiles'
    return wid, ok, detail


def run_witnesses(wit):
    """wit: [(id, code, must_fail)] -> [(id, ok, detail)]"""
    with tempfile.TemporaryDirectory(prefix='nvcf') as d:
        with concurrent.futures.ThreadPoolExecutor(max_workers=8) as ex:
            return list(ex.map(_one, [(w[0], w[1], w[2], d) for w in wit]))
