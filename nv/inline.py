"""Helper inlining on the fact level (normalisation before any rule runs).

Rules are written against the functions the properties are anchored in.  Moving a few statements
of such a function into a file-local helper (or splitting a function in two) does not change
behaviour and must not change a verdict, so every *non-anchor helper* is inlined into its callers:

  helper  = a function that did not exist when the rules were written (its id is not listed in
            nv/design_time_functions.txt) and that is a defined, non-virtual, non-recursive, small function (<= MAX_BLOCKS CFG blocks) that
            is never named in a rule (no string literal of nv/*.py, nv/props/*.py equals its
            name or id), whose address is not taken, and that either has internal linkage
            (static / anonymous namespace / lambda), is or is a private member;
  inlined = the caller's block is split at the call, the helper's CFG is copied with fresh block
            ids and renamed locals, parameters are replaced by the argument expressions (a
            declaration is emitted when the argument is not a simple expression or the helper
            writes the parameter), `this` is replaced by the receiver, every `return e` becomes
            an assignment to a fresh result variable followed by a jump to the continuation, and
            the call expression is replaced by that variable wherever the caller uses it.

A helper all of whose call sites were inlined is removed from the program (its statements now
live in its callers).  Anchors - everything the rule sources mention - are never touched, so on
the tree the rules were written for this pass only affects code no rule names."""
import copy
import glob
import os
import re

MAX_BLOCKS = 60
MAX_DEPTH = 3
MAX_CALLER_BLOCKS = 1500


def rule_names():
    """All string literals in the rule sources (candidate function names / ids)."""
    here = os.path.dirname(os.path.abspath(__file__))
    names = set()
    for p in glob.glob(os.path.join(here, '*.py')) + glob.glob(os.path.join(here, 'props', '*.py')):
        if os.path.basename(p) == 'inline.py':
            continue
        try:
            src = open(p).read()
        except OSError:
            continue
        for m in re.finditer(r"'([^'\n]{2,200})'|\"([^\"\n]{2,200})\"", src):
            names.add(m.group(1) or m.group(2))
    # functions named by a recorded finding keep their identity
    kf = os.path.join(os.path.dirname(here), 'known_findings.json')
    try:
        import json
        for k in json.load(open(kf)).get('findings', []):
            for part in re.split(r'\s*\+\s*', k.get('function', '')):
                names.add(part.strip())
    except (OSError, ValueError):
        pass
    return names


def _walk(d):
    if isinstance(d, dict):
        yield d
        for v in d.values():
            for x in _walk(v):
                yield x
    elif isinstance(d, list):
        for v in d:
            for x in _walk(v):
                yield x


def _map(d, fn):
    """Rebuild descriptor tree; fn(node) may return a replacement (not descended into) or None."""
    if isinstance(d, dict):
        r = fn(d)
        if r is not None:
            return r
        return {k: _map(v, fn) for k, v in d.items()}
    if isinstance(d, list):
        return [_map(v, fn) for v in d]
    return d


def _call_key(e):
    """Identity of a call expression independent of where it occurs."""
    from model import dstr
    return dstr({'k': 'call', 'name': e.get('name'), 'args': e.get('args'), 'recv': e.get('recv'), 'op': e.get('op'),
                 'fn': e.get('fn')}) + '|' + str(e.get('fn'))


def _simple(a, depth=0):
    if not isinstance(a, dict) or depth > 6:
        return False
    k = a.get('k')
    if k in ('var', 'this', 'int', 'bool', 'str', 'null', 'enum', 'float', 'sizeof'):
        return True
    if k == 'mem':
        return a.get('b') is None or _simple(a['b'], depth + 1)
    if k == 'cast':
        return _simple(a.get('e'), depth + 1)
    if k == 'un' and a.get('op') in ('&', '*'):
        return _simple(a.get('e'), depth + 1)
    if k == 'call' and a.get('op') == '*' and not a.get('args') and a.get('recv') is not None:
        return _simple(a['recv'], depth + 1)        # *it
    if k == 'call' and not a.get('args') and a.get('recv') is not None and \
            (a.get('name') or '').split('::')[-1] in ('get', 'c_str', 'data', 'size', 'begin', 'end', 'empty'):
        return _simple(a['recv'], depth + 1)        # pure accessors: p.get(), s.c_str()
    return False


class Inliner(object):
    def __init__(self, facts):
        self.fns = facts['functions']
        self.anchor_strings = rule_names()
        self.design_time = set()
        try:
            here = os.path.dirname(os.path.abspath(__file__))
            self.design_time = {l.strip() for l in open(os.path.join(here, 'design_time_functions.txt')) if l.strip() and not l.startswith('#')}
        except OSError:
            pass
        self.design_time_names = {x.split('(')[0] for x in self.design_time}
        self.counter = 0
        self.callers = {}
        self.addr_taken = set()
        for fid, d in self.fns.items():
            for b in d['blocks']:
                for e in b['ev']:
                    for x in _walk(e):
                        if x.get('k') == 'call' and x.get('fn'):
                            self.callers.setdefault(x['fn'], set()).add(fid)
                        if x.get('k') in ('fn', 'fnref', 'memfn') and (x.get('fn') or x.get('id')):
                            self.addr_taken.add(x.get('fn') or x.get('id'))
                    if e.get('k') == 'fnref':
                        self.addr_taken.add(e.get('fn') or e.get('id') or e.get('n'))
        self.helpers = {fid for fid in self.fns if self.is_helper(fid)}
        self.inlined_sites = {}
        self.kept_sites = {}

    def is_anchor(self, d):
        n, i = d.get('name') or '', d.get('id') or ''
        if i in self.design_time or n in self.design_time_names:
            return True
        if n in self.anchor_strings or i in self.anchor_strings:
            return True
        short = n.split('::')[-1]
        # rules also match callees by unqualified / base name (lastname, basename)
        return short in self.anchor_strings or (d.get('cls') and d['cls'] in self.anchor_strings and False)

    def lambda_only_called(self, fid, d):
        """A lambda stored in a local that is only ever called through that local (never passed on)."""
        if not d.get('lambda'):
            return False
        for caller in self.callers.get(fid, ()):
            F = self.fns[caller]
            holders = set()
            for b in F['blocks']:
                for e in b['ev']:
                    if e.get('k') == 'decl' and any(x.get('k') != 'call' and (x.get('fn') or x.get('id') or x.get('n')) in (fid, d.get('name'))
                                                    for x in _walk(e.get('init'))):
                        holders.add(e['n'])
            if not holders:
                return False
            for b in F['blocks']:
                for e in b['ev'] + ([b['term']] if 'term' in b else []):
                    def uses(x, in_recv=False):
                        # every mention of the holder must be the receiver of a call of this lambda
                        if isinstance(x, dict):
                            if x.get('k') == 'var' and x.get('n') in holders and not in_recv:
                                return True
                            for kk, vv in x.items():
                                if kk == 'recv' and x.get('k') == 'call' and x.get('fn') == fid and isinstance(vv, dict) and \
                                        vv.get('k') == 'var' and vv.get('n') in holders:
                                    continue
                                if kk == 'n' and x.get('k') == 'decl':
                                    continue
                                if uses(vv):
                                    return True
                        elif isinstance(x, list):
                            return any(uses(y) for y in x)
                        return False
                    if uses(e):
                        return False
        return True

    def is_helper(self, fid):
        d = self.fns[fid]
        if d.get('virt') or d.get('ctor') or d.get('dtor') or d.get('overrides'):
            return False
        if len(d['blocks']) > MAX_BLOCKS or self.is_anchor(d):
            return False
        if (fid in self.addr_taken or d.get('name') in self.addr_taken) and not self.lambda_only_called(fid, d):
            return False
        if (d.get('name') or '').startswith(('operator', 'std::')) or '::operator' in (d.get('name') or ''):
            return False
        if d.get('file', '').startswith('third_party') or d.get('file', '').endswith(('_test.cc', 'test.cc')):
            return False
        calls = {x['fn'] for b in d['blocks'] for e in b['ev'] for x in _walk(e) if x.get('k') == 'call' and x.get('fn')}
        if fid in calls:
            return False
        ncallers = len(self.callers.get(fid, ()))
        if ncallers == 0:
            return False
        # ninja is a program, not a library: every caller of a function the rules never saw is in the analysed units,
        # whatever its visibility (a public method added to a class is as much a helper as a static function)
        return True

    # ------------------------------------------------------------------------------------------
    def inline_call(self, F, bi, ei, G):
        from model import dstr
        B = F['blocks'][bi]
        E = B['ev'][ei]
        self.counter += 1
        k = self.counter
        sfx = '@%d' % k
        args = E.get('args') or []
        params = G.get('params') or []
        if len(args) != len(params):
            return False
        # which params does the helper write?
        written = set()
        locals_ = set()
        for b in G['blocks']:
            for e in b['ev']:
                if e.get('k') == 'decl':
                    locals_.add(e['n'])
                if e.get('k') == 'asg':
                    l = e.get('l')
                    while isinstance(l, dict) and l.get('k') == 'cast':
                        l = l.get('e')
                    if isinstance(l, dict) and l.get('k') == 'var':
                        written.add(l['n'])
        subst = {}
        pre = []
        for p, a in zip(params, args):
            # a by-value parameter is a snapshot: an argument that reads state (a field, an accessor) may only be
            # substituted for it if that state cannot change while the helper runs - decided later by the stability
            # oracle on the argument copy; plain locals, constants, addresses and reference parameters are substituted
            by_value = not p.get('ref') and p.get('tk') != 'ptr' and '&' not in (p.get('ty') or '') and '*' not in (p.get('ty') or '')
            reads_state = any(x.get('k') in ('mem', 'call') for x in _walk(a)) and not \
                (isinstance(a, dict) and a.get('k') == 'un' and a.get('op') == '&')
            if _simple(a) and p['n'] not in written and not (by_value and reads_state):
                subst[p['n']] = a
            else:
                nn = p['n'] + sfx
                pre.append({'k': 'decl', 'n': nn, 'init': a, 'ty': p.get('ty'), 'tk': p.get('tk'), 'line': E.get('line'),
                            'src': '%s = <argument>' % p['n'], 'inl_param': True})
                subst[p['n']] = {'k': 'var', 'n': nn, 'vk': 'local', 'tk': p.get('tk'), 'ty': p.get('ty')}
        recv = E.get('recv')
        is_member = bool(G.get('cls')) and not G.get('static')
        ret_var = {'k': 'var', 'n': 'ret' + sfx, 'vk': 'local', 'tk': G.get('retk'), 'ty': G.get('ret')}
        void = (G.get('ret') or 'void') == 'void'
        # `T v = Helper(..);` : the helper's result is written straight into v
        ekey = _call_key(E)
        unify = None
        for j in range(ei + 1, len(B['ev'])):
            x = B['ev'][j]
            init = x.get('init')
            while isinstance(init, dict) and init.get('k') == 'cast':
                init = init.get('e')
            if x.get('k') == 'decl' and isinstance(init, dict) and init.get('k') == 'call' and init.get('fn') == E.get('fn') and \
                    _call_key(init) == ekey:
                unify = j
                break
            if any(y.get('k') == 'call' and y.get('fn') == E.get('fn') for y in _walk(x)):
                break
        # `v = Helper(..);` with a plain local v the helper does not mention: likewise
        unify_asg = None
        if unify is None and not void:
            for j in range(ei + 1, len(B['ev'])):
                x = B['ev'][j]
                r_ = x.get('r')
                while isinstance(r_, dict) and r_.get('k') == 'cast':
                    r_ = r_.get('e')
                if x.get('k') == 'asg' and x.get('op') == '=' and isinstance(x.get('l'), dict) and x['l'].get('k') == 'var' and x['l'].get('vk') == 'local' and \
                        isinstance(r_, dict) and r_.get('k') == 'call' and r_.get('fn') == E.get('fn') and _call_key(r_) == ekey:
                    vn = x['l']['n']
                    mentioned = any(y.get('k') == 'var' and y.get('n') == vn for b in G['blocks'] for e2 in b['ev'] for y in _walk(e2)) or \
                        any(y.get('k') == 'var' and y.get('n') == vn for a_ in args for y in _walk(a_))
                    if not mentioned:
                        unify_asg = j
                    break
                if any(y.get('k') == 'call' and y.get('fn') == E.get('fn') for y in _walk(x)):
                    break
        if unify_asg is not None:
            av = B['ev'][unify_asg]
            ret_var = {'k': 'var', 'n': av['l']['n'], 'vk': 'local', 'tk': av['l'].get('tk'), 'ty': av['l'].get('ty')}
            del B['ev'][unify_asg]
        if unify is not None and not void:
            dv = B['ev'][unify]
            ret_var = {'k': 'var', 'n': dv['n'], 'vk': 'local', 'tk': dv.get('tk'), 'ty': dv.get('ty')}
            pre_decl = {kk: vv for kk, vv in dv.items() if kk != 'init'}
            del B['ev'][unify]
            # a helper that returns one of its own locals on every path: that local *is* v
            rl = set()
            for b in G['blocks']:
                for e2 in b['ev']:
                    if e2.get('k') == 'ret':
                        r0 = e2.get('e')
                        while isinstance(r0, dict) and r0.get('k') == 'cast':
                            r0 = r0.get('e')
                        rl.add(r0.get('n') if isinstance(r0, dict) and r0.get('k') == 'var' and r0.get('vk') == 'local' else None)
            same_local = rl.pop() if len(rl) == 1 else None
        else:
            pre_decl = None
            same_local = None

        def rename(d):
            if d.get('k') == 'var':
                if d.get('vk') == 'param' and d['n'] in subst:
                    return copy.deepcopy(subst[d['n']])
                if d['n'] in locals_ or (d.get('vk') == 'local' and not G.get('lambda')):     # a lambda's other locals are captures
                    r = dict(d)
                    r['n'] = ret_var['n'] if (same_local is not None and d['n'] == same_local) else d['n'] + sfx
                    return r
                return dict(d)
            if d.get('k') == 'this' and is_member and recv is not None:
                r = copy.deepcopy(recv)
                # `x.f()` passes &x as this; `p->f()` passes p: member accesses keep their arrow flag
                return r
            return None
        base = max(b['id'] for b in F['blocks']) + 1
        idmap = {b['id']: base + n for n, b in enumerate(G['blocks'])}
        cont_id = base + len(G['blocks'])
        newblocks = []
        for b in G['blocks']:
            nb = {'id': idmap[b['id']], 'ev': [], 'succ': [(idmap[s] if s is not None else None) for s in b.get('succ', [])]}
            if b['id'] == G['exit']:
                nb['succ'] = [cont_id]
            if 'term' in b:
                nb['term'] = _map(b['term'], rename)
            if 'label' in b:
                nb['label'] = copy.deepcopy(b['label'])
            for e in b['ev']:
                ne = _map(e, rename)
                if ne.get('k') == 'decl':
                    if same_local is not None and e['n'] == same_local:
                        # the caller's variable: its declaration was moved in front of the inlined body
                        if ne.get('init') is None:
                            continue
                        ne = {'k': 'asg', 'op': '=', 'l': dict(ret_var), 'r': ne['init'], 'line': ne.get('line'), 'src': ne.get('src')}
                    else:
                        ne['n'] = e['n'] + sfx
                if ne.get('k') == 'ret':
                    if not void and ne.get('e') is not None:
                        r1 = ne.get('e')
                        while isinstance(r1, dict) and r1.get('k') == 'cast':
                            r1 = r1.get('e')
                        if isinstance(r1, dict) and r1.get('k') == 'var' and r1.get('n') == ret_var['n']:
                            continue                    # `v = v`
                        ne = {'k': 'asg', 'op': '=', 'l': dict(ret_var), 'r': ne.get('e'), 'line': ne.get('line'),
                              'src': ne.get('src'), 'inl_ret': G.get('name')}
                    else:
                        continue
                nb['ev'].append(ne)
            newblocks.append(nb)
        # split the caller's block
        cont = {'id': cont_id, 'ev': B['ev'][ei + 1:], 'succ': B.get('succ', [])}
        for key in ('term',):
            if key in B:
                cont[key] = B[key]
                del B[key]
        if pre_decl is not None:
            pre = pre + [pre_decl]
        B['ev'] = B['ev'][:ei] + pre
        B['succ'] = [idmap[G['entry']]]
        # returns jump straight to the continuation (the copy of the helper's exit block is dropped)
        gexit = idmap[G['exit']]
        newblocks = [nb for nb in newblocks if nb['id'] != gexit]
        for nb in newblocks:
            nb['succ'] = [(cont_id if x == gexit else x) for x in nb['succ']]
        F['blocks'].extend(newblocks)
        F['blocks'].append(cont)
        if F.get('exit') == B['id'] and False:
            pass
        # replace the call expression by the result variable wherever the caller mentions it
        if not void:
            key = _call_key(E)

            def repl(d):
                if d.get('k') == 'call' and d.get('fn') == E.get('fn') and _call_key(d) == key:
                    return dict(ret_var)
                return None
            for b in F['blocks']:
                if b['id'] in idmap.values():
                    continue
                # another evaluation of the same call text (a second call site of the helper with the same arguments) has
                # its own result: only the block that continues THIS call, and blocks without a call event of their own,
                # mention this result
                if b is not cont and any(e.get('k') == 'call' and e.get('fn') == E.get('fn') and _call_key(e) == key for e in b['ev']):
                    continue
                b['ev'] = [{kk: _map(vv, repl) for kk, vv in e.items()} for e in b['ev']]
                if 'term' in b:
                    b['term'] = _map(b['term'], repl)
        # return threading: when the continuation does nothing but branch on the result, every return
        # site branches itself on the value it returns (`if (!Helper())` becomes `if (!<returned expr>)`
        # at each return, constant returns fold into plain jumps)
        # (not when the result lives in a variable of the caller's own - `v = Helper(); if (!v)` tests v, and goes on using it)
        if not void and not cont['ev'] and 'term' in cont and len(cont.get('succ', [])) == 2 and unify is None and unify_asg is None and \
                any(x.get('k') == 'var' and x.get('n') == ret_var['n'] for x in _walk(cont['term'].get('cond'))):
            for nb in newblocks:
                if nb['succ'] == [cont_id] and nb['ev'] and nb['ev'][-1].get('inl_ret') and 'term' not in nb:
                    er = nb['ev'][-1]['r']

                    def thr(d, er=er):
                        if d.get('k') == 'var' and d.get('n') == ret_var['n']:
                            r = copy.deepcopy(er)
                            r0 = r
                            while isinstance(r0, dict) and r0.get('k') in ('cast', 'tobool', 'paren'):
                                r0 = r0.get('e')
                            if isinstance(r0, dict) and r0.get('k') == 'bin' and r0.get('op') in ('&&', '||'):
                                r0['val'] = True        # the helper computed it as a value: no branch on its operands here
                            return r
                        return None
                    nb['term'] = _map(copy.deepcopy(cont['term']), thr)
                    nb['succ'] = list(cont['succ'])
        # tail-call threading: `return Helper(..);` - the continuation does nothing but return the result, so every return
        # site of the helper returns its own value (the program the author split the function from)
        if not void and len(cont['ev']) == 1 and cont['ev'][0].get('k') == 'ret' and 'term' not in cont:
            r0 = cont['ev'][0].get('e')
            while isinstance(r0, dict) and r0.get('k') == 'cast':
                r0 = r0.get('e')
            if isinstance(r0, dict) and r0.get('k') == 'var' and r0.get('n') == ret_var['n']:
                for nb in newblocks:
                    if nb['succ'] == [cont_id] and nb['ev'] and nb['ev'][-1].get('inl_ret') and 'term' not in nb:
                        a = nb['ev'][-1]
                        rr = dict(cont['ev'][0])
                        rr['e'] = a['r']
                        rr['line'] = a.get('line', rr.get('line'))
                        rr['src'] = a.get('src', rr.get('src'))
                        nb['ev'][-1] = rr
                        nb['succ'] = list(cont['succ'])
        F.setdefault('inlined', []).append(G.get('name'))
        return True

    def run(self):
        order = sorted(self.fns)
        for fid in order:
            F = self.fns[fid]
            if fid in self.helpers and False:
                continue
            depth_of = {}
            progress = True
            rounds = 0
            while progress and rounds < 40 and len(F['blocks']) < MAX_CALLER_BLOCKS:
                progress = False
                rounds += 1
                for bi, b in enumerate(F['blocks']):
                    for ei, e in enumerate(b['ev']):
                        if e.get('k') != 'call' or e.get('fn') not in self.helpers or e.get('fn') == fid or e.get('virt'):
                            continue
                        G = self.orig[e['fn']]
                        d = e.get('inl_depth', 0)
                        if d >= MAX_DEPTH:
                            continue
                        before = len(F['blocks'])
                        if self.inline_call(F, bi, ei, copy.deepcopy(G)):
                            for nb in F['blocks'][before:-1]:       # the helper's blocks; the last one is the caller's continuation
                                for ne in nb['ev']:
                                    if ne.get('k') == 'call':
                                        ne['inl_depth'] = max(ne.get('inl_depth', 0), d + 1)
                            self.inlined_sites[e['fn']] = self.inlined_sites.get(e['fn'], 0) + 1
                            F['has_inlined'] = True
                            progress = True
                            break
                    if progress:
                        break
        # a helper whose every call site was inlined disappears from the program
        remaining = {}
        for fid, d in self.fns.items():
            for b in d['blocks']:
                for e in b['ev']:
                    for x in _walk(e):
                        if x.get('k') == 'call' and x.get('fn') in self.helpers and x.get('fn') != fid:
                            remaining[x['fn']] = remaining.get(x['fn'], 0) + 1
        removed = []
        for fid in sorted(self.helpers):
            if self.inlined_sites.get(fid) and not remaining.get(fid):
                removed.append(self.fns[fid]['name'])
                del self.fns[fid]
        return removed


def inline_helpers(facts, make_stable=None):
    """Returns (facts with helpers inlined, report).  make_stable(facts) -> stable(fid, name, init): asked once the
    helpers are inlined, decides whether a new local may be replaced by its initialiser (nothing the initialiser reads
    is written between the definition and a use)."""
    ndes = desugar_algorithms(facts)
    ndes += desugar_minmax(facts)
    ndes += split_local_aggregates(facts)
    ndes += desugar_block_ops(facts)
    inl = Inliner(facts)
    inl.orig = copy.deepcopy({fid: facts['functions'][fid] for fid in inl.helpers})
    removed = inl.run()
    nprop = propagate_new_locals(facts, make_stable(facts) if make_stable else None)
    if inl.inlined_sites:
        for F in facts['functions'].values():
            if F.get('has_inlined'):
                simplify_addr(F)
    return facts, {'helpers': sorted(facts_name for facts_name in removed), 'sites': sum(inl.inlined_sites.values()),
                   'locals_propagated': nprop, 'algorithms_desugared': ndes}


# ---- std algorithms over raw byte ranges are the C block operations ---------------------------------
def desugar_block_ops(facts):
    """On raw `char*` ranges: std::fill_n(p, n, c) is memset(p, c, n); std::fill(p, q, c) is memset(p, c, q - p);
    std::copy(p, q, out) is memmove(out, p, q - p) when the ranges do not overlap forwards - the rules ask for exactly that
    (`out <= p`); std::copy_n(p, n, out) likewise.  The zone obligations speak about memset / memmove."""
    def ptr(a):
        while isinstance(a, dict) and a.get('k') in ('cast', 'paren'):
            a = a.get('e')
        # bytes only: the count of memset / memmove is a byte count
        return isinstance(a, dict) and 'char *' in (a.get('ty') or '') and '**' not in (a.get('ty') or '')

    def minus(q, p_):
        # q - p; `p + n - p` folds to n
        q0 = q
        while isinstance(q0, dict) and q0.get('k') in ('cast', 'paren'):
            q0 = q0.get('e')
        if isinstance(q0, dict) and q0.get('k') == 'bin' and q0.get('op') == '+' and json_eq(q0.get('l'), p_):
            return copy.deepcopy(q0['r'])
        return {'k': 'bin', 'op': '-', 'l': copy.deepcopy(q), 'r': copy.deepcopy(p_), 'tk': 'int', 'ty': 'long'}
    n = 0
    for F in facts['functions'].values():
        for B in F['blocks']:
            for e in B['ev']:
                if e.get('k') != 'call' or not (e.get('name') or '').startswith('std::'):
                    continue
                last = _lastname(e.get('name'))
                a = e.get('args') or []
                new = None
                if last == 'fill_n' and len(a) == 3 and ptr(a[0]):
                    new = ('memset', [a[0], a[2], a[1]])
                elif last == 'fill' and len(a) == 3 and ptr(a[0]):
                    new = ('memset', [a[0], a[2], minus(a[1], a[0])])
                elif last == 'copy' and len(a) == 3 and ptr(a[0]) and ptr(a[2]):
                    new = ('memmove', [a[2], a[0], minus(a[1], a[0])])
                elif last == 'copy_n' and len(a) == 3 and ptr(a[0]) and ptr(a[2]):
                    new = ('memmove', [a[2], a[0], a[1]])
                if new:
                    e['name'] = new[0]
                    e['args'] = new[1]
                    e.pop('fn', None)
                    e['desugared_from'] = last
                    n += 1
    return n


# ---- scalar replacement of small local aggregates ---------------------------------------------------
def split_local_aggregates(facts):
    """A local of a plain struct type (scalar fields, no bases, no written methods) that did not exist at design time and is
    only ever used field by field - `v.f`, plus `T v;` / `T v{}` / `v = T()` - is replaced by one local per field, named
    like the field.  `v = T()` becomes the assignments of the default member initialisers (zero without one).  Rules that
    know `bool flag` then see `flag` again when somebody groups such flags into `struct {..} state`."""
    here = os.path.dirname(os.path.abspath(__file__))
    try:
        import json as _json
        known = _json.load(open(os.path.join(here, 'design_time_locals.json')))
    except (OSError, ValueError):
        known = {}
    classes = facts.get('classes') or {}
    if isinstance(classes, list):
        classes = {c.get('name'): c for c in classes}
    n = 0
    for fid, F in facts['functions'].items():
        old_locals = set(known.get(fid) or known.get(F.get('name') or '') or [])
        cands = {}
        for B in F['blocks']:
            for e in B['ev']:
                if e.get('k') == 'decl' and e.get('tk') == 'record' and e['n'] not in old_locals and '#' not in e['n'] and '@' not in e['n']:
                    ty = (e.get('ty') or '').replace('const ', '').strip()
                    cls = None
                    for cn, c in classes.items():
                        if cn == ty or cn.endswith('::' + ty):
                            cls = c
                    if cls and not cls.get('bases') and not cls.get('methods') and cls.get('fields') and \
                            all(fd.get('tk') in ('bool', 'int', 'uint', 'enum', 'ptr', 'char') for fd in cls['fields']):
                        cands[e['n']] = cls
        if not cands:
            continue
        existing = {e['n'] for B in F['blocks'] for e in B['ev'] if e.get('k') == 'decl'} | {p_['n'] for p_ in F.get('params') or []}
        for v, cls in list(cands.items()):
            fields = {fd['n']: fd for fd in cls['fields']}
            short = {fn_: fn_.rsplit('::', 1)[-1] for fn_ in fields}
            if any(sn in existing for sn in short.values()):
                continue
            ok = True

            def is_default_ctor(d):
                while isinstance(d, dict) and d.get('k') in ('cast', 'paren', 'temp', 'bind'):
                    d = d.get('e')
                return isinstance(d, dict) and d.get('k') in ('ctor', 'call', 'init') and not (d.get('args') or []) and \
                    (cls['name'] in (d.get('name') or d.get('ty') or '') or (d.get('ty') or '').endswith(cls['name'].rsplit('::', 1)[-1]))

            def whole_uses(d, parent_ok=False):
                """number of mentions of v that are not the base of a field access"""
                cnt = 0
                if isinstance(d, dict):
                    if d.get('k') == 'var' and d.get('n') == v:
                        return 1
                    if d.get('k') == 'mem' and isinstance(d.get('b'), dict) and d['b'].get('k') == 'var' and d['b'].get('n') == v and d.get('n') in fields:
                        return 0
                    for kk, vv in d.items():
                        if kk.startswith('_'):
                            continue
                        cnt += whole_uses(vv)
                elif isinstance(d, list):
                    for x in d:
                        cnt += whole_uses(x)
                return cnt
            for B in F['blocks']:
                for e in B['ev']:
                    if e.get('k') == 'decl' and e['n'] == v:
                        if e.get('init') is not None and not is_default_ctor(e['init']):
                            ok = False
                        continue
                    if e.get('k') == 'call' and e.get('op') == '=' and isinstance(e.get('recv'), dict) and e['recv'].get('k') == 'var' and \
                            e['recv'].get('n') == v and len(e.get('args') or []) == 1 and is_default_ctor(e['args'][0]):
                        continue
                    if whole_uses({kk: vv for kk, vv in e.items() if not kk.startswith('_')}):
                        ok = False
                if 'term' in B and whole_uses(B['term']):
                    ok = False
            if not ok:
                continue

            def defaults(line, src):
                out = []
                for fn_, fd in fields.items():
                    init = copy.deepcopy(fd.get('init')) if fd.get('init') is not None else ({'k': 'bool', 'v': False} if fd.get('tk') == 'bool' else {'k': 'int', 'v': 0})
                    out.append((short[fn_], fd, init))
                return out

            def repl(d):
                if d.get('k') == 'mem' and isinstance(d.get('b'), dict) and d['b'].get('k') == 'var' and d['b'].get('n') == v and d.get('n') in fields:
                    fd = fields[d['n']]
                    return {'k': 'var', 'n': short[d['n']], 'vk': 'local', 'tk': fd.get('tk'), 'ty': fd.get('ty')}
                return None
            for B in F['blocks']:
                nev = []
                for e in B['ev']:
                    if e.get('k') == 'decl' and e['n'] == v:
                        for sn, fd, init in defaults(e.get('line'), e.get('src')):
                            nev.append({'k': 'decl', 'n': sn, 'ty': fd.get('ty'), 'tk': fd.get('tk'), 'init': init, 'line': e.get('line'), 'src': e.get('src')})
                        continue
                    if e.get('k') == 'call' and e.get('op') == '=' and isinstance(e.get('recv'), dict) and e['recv'].get('k') == 'var' and e['recv'].get('n') == v:
                        for sn, fd, init in defaults(e.get('line'), e.get('src')):
                            nev.append({'k': 'asg', 'op': '=', 'l': {'k': 'var', 'n': sn, 'vk': 'local', 'tk': fd.get('tk'), 'ty': fd.get('ty')}, 'r': init,
                                        'line': e.get('line'), 'src': e.get('src')})
                        continue
                    if e.get('k') == 'call' and e.get('ctor') and not (e.get('args') or []) and cls['name'] in (e.get('name') or ''):
                        continue                    # the constructor call of `T v;` / of the temporary in `v = T()`
                    nev.append({kk: (_map(vv, repl) if not kk.startswith('_') else vv) for kk, vv in e.items()})
                B['ev'] = nev
                if 'term' in B:
                    B['term'] = _map(B['term'], repl)
            existing |= set(short.values())
            F.setdefault('desugared', []).append('struct ' + v)
            n += 1
    return n


# ---- copy propagation of new single-definition locals --------------------------------------------
PURE_LAST = {'size', 'empty', 'get', 'begin', 'end', 'cbegin', 'cend', 'c_str', 'data', 'length', 'front', 'back', 'first', 'second',
             'operator[]', 'operator*', 'operator->', 'at', 'str', 'AsString'}


def _pure(facts, d, depth=0):
    if depth > 8:
        return False
    if isinstance(d, list):
        return all(_pure(facts, x, depth + 1) for x in d)
    if not isinstance(d, dict):
        return True
    k = d.get('k')
    if k in ('var', 'this', 'int', 'bool', 'str', 'null', 'enum', 'float', 'sizeof', 'fn'):
        return True
    if k in ('mem', 'cast', 'tobool'):
        return _pure(facts, d.get('b') if k == 'mem' else d.get('e'), depth + 1)
    if k == 'un':
        return d.get('op') in ('!', '-', '*', '&', '~', '+') and _pure(facts, d.get('e'), depth + 1)
    if k == 'bin':
        return d.get('op') in ('+', '-', '*', '/', '%', '<', '>', '<=', '>=', '==', '!=', '&&', '||', '&', '|', '^', '<<', '>>') and \
            _pure(facts, d.get('l'), depth + 1) and _pure(facts, d.get('r'), depth + 1)
    if k == 'idx':
        return _pure(facts, d.get('b'), depth + 1) and _pure(facts, d.get('i'), depth + 1)
    if k == 'cond':
        return all(_pure(facts, d.get(x), depth + 1) for x in ('c', 't', 'f'))
    if k == 'ctor' and any(t in (d.get('ty') or '') for t in ('StringPiece', 'basic_string', 'std::string', 'iterator')) and len(d.get('args') or []) <= 2:
        return _pure(facts, d.get('args') or [], depth + 1)       # a string view / copy of a pure value
    if k == 'call':
        callee = facts['functions'].get(d.get('fn') or '')
        last = _lastname(d.get('name'))
        ok = (callee is not None and callee.get('const') and len(callee.get('blocks', [])) <= 6) or last in PURE_LAST
        return bool(ok) and _pure(facts, d.get('recv'), depth + 1) and _pure(facts, d.get('args') or [], depth + 1)
    return False


def propagate_new_locals(facts, stable=None):
    """A local that did not exist at design time (nv/design_time_locals.json), is defined exactly once
    by a side-effect-free expression and never has its address taken is replaced by that expression
    (`Node* const out = nodes_[id]; f(out)` is analysed as `f(nodes_[id])`)."""
    import json
    here = os.path.dirname(os.path.abspath(__file__))
    try:
        known = json.load(open(os.path.join(here, 'design_time_locals.json')))
    except (OSError, ValueError):
        return 0
    n = 0
    for fid, F in facts['functions'].items():
        base_known = set(known.get(fid, ()))
        if fid not in known and not F.get('inlined'):
            continue            # a function the rules never saw is analysed as written (or was inlined away)
        defs = {}
        bad = set()
        refbound = set()
        mutated = set()
        for b in F['blocks']:
            for e in b['ev']:
                if e.get('k') == 'decl':
                    defs.setdefault(e['n'], []).append(e)
                    # `T& r = local;` (and the hidden `auto&& __range = local` of a range-for): the local is an object
                    # something else refers to - a by-value snapshot stays a snapshot
                    i = e.get('init')
                    while isinstance(i, dict) and i.get('k') == 'cast':
                        i = i.get('e')
                    if '&' in (e.get('ty') or '') and isinstance(i, dict) and i.get('k') == 'var':
                        refbound.add(i['n'])
                elif e.get('k') == 'asg':
                    l = e.get('l')
                    while isinstance(l, dict) and l.get('k') == 'cast':
                        l = l.get('e')
                    if isinstance(l, dict) and l.get('k') == 'var':
                        bad.add(l['n'])
                for x in _walk(e):
                    if x.get('k') == 'un' and x.get('op') == '&' and isinstance(x.get('e'), dict) and x['e'].get('k') == 'var':
                        bad.add(x['e']['n'])
                    # an object that is written through a member call (`s = x`, `s += x`, `v.push_back(x)`) is not a value
                    if x.get('k') == 'call' and isinstance(x.get('recv'), dict):
                        r = x['recv']
                        while isinstance(r, dict) and r.get('k') == 'cast':
                            r = r.get('e')
                        if isinstance(r, dict) and r.get('k') == 'var':
                            callee = facts['functions'].get(x.get('fn') or '')
                            last = _lastname(x.get('name'))
                            if not ((callee is not None and callee.get('const')) or last in PURE_LAST or last in ('find', 'count', 'compare', 'substr', 'rfind', 'find_first_of', 'find_last_of', 'AsString', 'operator==', 'operator!=', 'operator<')):
                                mutated.add(r['n'])
        # (a local that is itself a reference is an alias of what it was bound to: binding another reference to it changes nothing)
        bad |= {n_ for n_ in refbound if not (len(defs.get(n_, [])) == 1 and '&' in (defs[n_][0].get('ty') or ''))}
        subst = {}
        for name, ds in defs.items():
            base = name.split('#')[0].split('@')[0]
            if name in bad or len(ds) != 1 or ds[0].get('init') is None:
                continue
            if '@' in name:
                if not ds[0].get('inl_param'):
                    continue        # a local of an inlined helper keeps its identity; only argument copies are folded
            elif base in base_known:
                continue
            if name.startswith(('__range', '__begin', '__end', 'ret@', 'metrics_h')):
                continue
            init = ds[0]['init']
            if not _pure(facts, init):
                continue
            i0 = init
            while isinstance(i0, dict) and i0.get('k') == 'cast':
                i0 = i0.get('e')
            if isinstance(i0, dict) and i0.get('k') == 'ctor':
                ty = ds[0].get('ty') or ''
                if name in mutated or not (ty.startswith('const ') or 'StringPiece' in ty or 'iterator' in ty):
                    continue        # an object built here and possibly changed later is not a named value
            if name in mutated and not (ds[0].get('ty') or '').rstrip().endswith('*'):
                continue        # an object changed through its own member calls (`++it` of a class iterator) is a variable
            if any(x.get('k') == 'var' and str(x.get('n', '')).startswith(('__begin', '__range', '__end')) for x in _walk(init)):
                continue        # the element variable of a range-for is not a hoisted expression
            # nothing the initialiser reads may be one of the variables being replaced in a cycle
            if any(x.get('k') == 'var' and x.get('n') == name for x in _walk(init)):
                continue
            if stable is not None and not stable(fid, name, ds[0]):
                F.setdefault('not_propagated', []).append(name)
                continue
            subst[name] = init
        if not subst:
            continue
        for _ in range(4):      # chains: a = f(x); b = g(a)
            changed = False
            for name in list(subst):
                def rep(d):
                    if d.get('k') == 'var' and d.get('n') in subst and d['n'] != name:
                        return copy.deepcopy(subst[d['n']])
                    return None
                new = _map(subst[name], rep)
                if new != subst[name]:
                    subst[name] = new
                    changed = True
            if not changed:
                break

        def rep_all(d):
            if d.get('k') == 'var' and d.get('n') in subst:
                r = copy.deepcopy(subst[d['n']])
                r0 = r
                while isinstance(r0, dict) and r0.get('k') in ('cast', 'tobool'):
                    r0 = r0.get('e')
                if isinstance(r0, dict) and r0.get('k') == 'bin' and r0.get('op') in ('&&', '||'):
                    r0['val'] = True        # was computed as a value: the CFG does not branch on its operands here
                return r
            return None
        for b in F['blocks']:
            newev = []
            for e in b['ev']:
                if e.get('k') == 'decl' and e['n'] in subst:
                    ne = dict(e)
                    ne['init'] = _map(e['init'], rep_all) if e['n'] not in subst else e['init']
                    newev.append(ne)
                    continue
                newev.append({kk: _map(vv, rep_all) for kk, vv in e.items()})
            b['ev'] = newev
            if 'term' in b:
                b['term'] = _map(b['term'], rep_all)
        n += len(subst)
        F.setdefault('propagated', []).extend(sorted(subst))
        simplify_addr(F)
    return n


def _lastname(name):
    """Unqualified function name without template arguments (`std::map<K, std::pair<A, B>>::find<X>` -> find)."""
    out, depth, i = [], 0, 0
    name = name or ''
    while i < len(name):
        c = name[i]
        if name.startswith('operator', i) and depth == 0:
            out.append(name[i:])          # operator<, operator->, operator<< ... : keep verbatim
            break
        if c == '<':
            depth += 1
        elif c == '>':
            depth -= 1
        elif depth == 0:
            out.append(c)
        i += 1
    return ''.join(out).split('::')[-1]


def _addr_of(d):
    while isinstance(d, dict) and d.get('k') == 'cast':
        d = d.get('e')
    if isinstance(d, dict) and d.get('k') == 'un' and d.get('op') == '&' and isinstance(d.get('e'), dict):
        return d['e']
    return None


def simplify_addr(F):
    """After substituting `p := &x`: `*(&x)` is x, `(&x)->m` is x.m, `(&x)->f()` is x.f()."""
    def simp(d):
        if isinstance(d, list):
            return [simp(x) for x in d]
        if not isinstance(d, dict):
            return d
        d = {k: simp(v) for k, v in d.items()}
        k = d.get('k')
        if k == 'un' and d.get('op') == '*' and _addr_of(d.get('e')) is not None:
            return _addr_of(d['e'])
        if k == 'mem' and d.get('arrow') and _addr_of(d.get('b')) is not None:
            d = dict(d, b=_addr_of(d['b']))
            d.pop('arrow', None)
            return d
        if k == 'call' and _addr_of(d.get('recv')) is not None:
            return dict(d, recv=_addr_of(d['recv']))
        return d
    for b in F['blocks']:
        b['ev'] = [simp(e) for e in b['ev']]
        if 'term' in b:
            b['term'] = simp(b['term'])


# ---- std::all_of / any_of / none_of with a lambda -> the loop they stand for -----------------------
ALGO = {'all_of': ('all', True), 'any_of': ('any', False), 'none_of': ('none', True),
        'find_if': ('find', None), 'find_if_not': ('find_not', None), 'for_each': ('each', None)}


def _desugar_extremum(facts, F, B, ei, E, last, seq):
    """`std::max_element(b, e, [](x, y){ return less(x, y); })` is `best = b; for (it = b; it != e; ++it) if (less(*best, *it)) best = it;`
    (the first of the largest elements; the comparison of the first element with itself is false for any strict order).
    `min_element` compares the other way round."""
    args = E.get('args') or []
    if len(args) != 3 or not (isinstance(args[2], dict) and args[2].get('k') == 'lambda' and args[2].get('fn') in facts['functions']):
        return False
    lam = facts['functions'][args[2]['fn']]
    if len(lam.get('params') or []) != 2:
        return False
    k = 'ext%d' % seq
    line = E.get('line')
    base = max(b['id'] for b in F['blocks']) + 1
    H, BODY, UPD, STEP, CONT = base, base + 1, base + 2, base + 3, base + 4
    it = {'k': 'var', 'n': 'it@' + k, 'vk': 'local', 'tk': 'record', 'ty': 'iterator'}
    best = {'k': 'var', 'n': 'best@' + k, 'vk': 'local', 'tk': 'record', 'ty': 'iterator'}

    def elem(v, p):
        return {'k': 'call', 'name': 'iterator::operator*', 'op': '*', 'recv': dict(v), 'args': [], 'tk': p.get('tk')}
    a0, a1 = (best, it) if last == 'max_element' else (it, best)
    pred = {'k': 'call', 'name': lam['name'], 'fn': lam['id'], 'op': '()', 'args': [elem(a0, lam['params'][0]), elem(a1, lam['params'][1])],
            'tk': 'bool', 'line': line}
    cmp_ = {'k': 'call', 'name': 'operator!=', 'op': '!=', 'args': [dict(it), copy.deepcopy(args[1])], 'tk': 'bool'}
    cont = {'id': CONT, 'ev': B['ev'][ei + 1:], 'succ': B.get('succ', [])}
    if 'term' in B:
        cont['term'] = B['term']
        del B['term']
    key = _call_key(E)

    def repl(d, key=key, fnid=E.get('fn')):
        if d.get('k') == 'call' and d.get('fn') == fnid and _call_key(d) == key:
            return dict(best)
        return None
    cont['ev'] = [{kk: _map(vv, repl) for kk, vv in e.items()} for e in cont['ev']]
    if 'term' in cont:
        cont['term'] = _map(cont['term'], repl)
    pre = [e for e in B['ev'][:ei] if not (e.get('k') == 'fnref' and e.get('fn') == lam['id'])]
    B['ev'] = pre + [{'k': 'decl', 'n': best['n'], 'init': copy.deepcopy(args[0]), 'ty': 'iterator', 'tk': 'record', 'line': line, 'src': 'best = <first>'},
                     {'k': 'decl', 'n': it['n'], 'init': copy.deepcopy(args[0]), 'ty': 'iterator', 'tk': 'record', 'line': line, 'src': 'it = <first>'}]
    B['succ'] = [H]
    F['blocks'] += [
        {'id': H, 'ev': [dict(cmp_, line=line, src='it != <last>')], 'succ': [BODY, CONT],
         'term': {'kind': 'for', 'cond': cmp_, 'line': line, 'src': 'it != <last>'}},
        {'id': BODY, 'ev': [dict(pred, src='less(*best, *it)')], 'succ': [UPD, STEP],
         'term': {'kind': 'if', 'cond': {kk: vv for kk, vv in pred.items() if kk != 'line'}, 'line': line, 'src': 'less(*best, *it)'}},
        {'id': UPD, 'ev': [{'k': 'asg', 'op': '=', 'l': dict(best), 'r': dict(it), 'line': line, 'src': 'best = it'}], 'succ': [STEP]},
        {'id': STEP, 'ev': [{'k': 'asg', 'op': '++', 'l': dict(it), 'line': line, 'src': '++it'}], 'succ': [H]},
        cont,
    ]
    return True


def _desugar_into_container(facts, F, B, ei, E, last, seq):
    """`std::transform(b, e, std::back_inserter(out), f)` is `for (it = b; it != e; ++it) out.push_back(f(*it));`;
    `std::copy` appends `*it`, `std::copy_if` appends it when the predicate holds (std::inserter: `insert`)."""
    args = E.get('args') or []
    want = {'transform': 4, 'copy': 3, 'copy_if': 4}[last]
    if len(args) != want:
        return False
    sink = args[2]
    while isinstance(sink, dict) and sink.get('k') == 'cast':
        sink = sink.get('e')
    if not (isinstance(sink, dict) and sink.get('k') == 'call' and sink.get('args')):
        return False
    sk = _lastname(sink.get('name')).split('<')[0]
    method = {'back_inserter': 'push_back', 'inserter': 'insert', 'front_inserter': 'push_front'}.get(sk)
    if method is None:
        return False
    out = sink['args'][0]
    lam = None
    if want == 4:
        if not (isinstance(args[3], dict) and args[3].get('k') == 'lambda' and args[3].get('fn') in facts['functions']):
            return False
        lam = facts['functions'][args[3]['fn']]
        if len(lam.get('params') or []) != 1:
            return False
    k = 'alg%d' % seq
    base = max(b['id'] for b in F['blocks']) + 1
    H, BODY, PUSH, STEP, CONT = base, base + 1, base + 2, base + 3, base + 4
    line = E.get('line')
    it = {'k': 'var', 'n': 'it@' + k, 'vk': 'local', 'tk': 'record', 'ty': 'iterator'}
    elem = {'k': 'call', 'name': 'iterator::operator*', 'op': '*', 'recv': dict(it), 'args': [], 'tk': (lam['params'][0].get('tk') if lam else None)}
    cmp_ = {'k': 'call', 'name': 'operator!=', 'op': '!=', 'args': [dict(it), copy.deepcopy(args[1])], 'tk': 'bool'}
    cty = (out.get('ty') or 'std::vector').replace('&', '').strip() if isinstance(out, dict) else 'std::vector'
    call = None
    if lam is not None:
        call = {'k': 'call', 'name': lam['name'], 'fn': lam['id'], 'op': '()', 'args': [elem], 'tk': lam.get('retk'), 'line': line}
    value = call if last == 'transform' else elem
    push = {'k': 'call', 'name': '%s::%s' % (cty, method), 'recv': copy.deepcopy(out), 'args': [copy.deepcopy(value)], 'disc': True,
            'line': line, 'src': '%s.%s(%s)' % ((out.get('n') if isinstance(out, dict) else None) or 'out', method, 'f(*it)' if last == 'transform' else '*it')}
    cont = {'id': CONT, 'ev': B['ev'][ei + 1:], 'succ': B.get('succ', [])}
    if 'term' in B:
        cont['term'] = B['term']
        del B['term']
    drop = {id(x) for x in B['ev'][:ei] if (x.get('k') == 'fnref' and lam is not None and x.get('fn') == lam['id']) or
            (x.get('k') == 'call' and _call_key(x) == _call_key(sink) and x.get('fn') == sink.get('fn'))}
    B['ev'] = [x for x in B['ev'][:ei] if id(x) not in drop] + \
        [{'k': 'decl', 'n': it['n'], 'init': copy.deepcopy(args[0]), 'ty': 'iterator', 'tk': 'record', 'line': line, 'src': 'it = <first>'}]
    B['succ'] = [H]
    blocks = [{'id': H, 'ev': [dict(cmp_, line=line, src='it != <last>')], 'succ': [BODY, CONT],
               'term': {'kind': 'for', 'cond': cmp_, 'line': line, 'src': 'it != <last>'}}]
    if last == 'transform':
        blocks.append({'id': BODY, 'ev': [dict(call, src='f(*it)'), push], 'succ': [STEP]})
    elif last == 'copy':
        blocks.append({'id': BODY, 'ev': [push], 'succ': [STEP]})
    else:
        blocks.append({'id': BODY, 'ev': [dict(call, src='pred(*it)')], 'succ': [PUSH, STEP],
                       'term': {'kind': 'if', 'cond': {kk: vv for kk, vv in call.items() if kk != 'line'}, 'line': line, 'src': 'pred(*it)'}})
        blocks.append({'id': PUSH, 'ev': [push], 'succ': [STEP]})
    blocks.append({'id': STEP, 'ev': [{'k': 'asg', 'op': '++', 'l': dict(it), 'line': line, 'src': '++it'}], 'succ': [H]})
    F['blocks'].extend(blocks)
    F['blocks'].append(cont)
    return True


def desugar_minmax(facts):
    """`x = std::max(x, y);` is `if (x < y) x = y;` (`std::min`: `if (y < x) x = y;`): rewritten so that the
    comparison and the conditional store are seen like the hand-written form."""
    n = 0
    for fid, F in facts['functions'].items():
        for _ in range(8):
            done = True
            for B in F['blocks']:
                for ei, E in enumerate(B['ev']):
                    if E.get('k') != 'asg' or E.get('op') != '=':
                        continue
                    r = E.get('r')
                    while isinstance(r, dict) and r.get('k') == 'cast':
                        r = r.get('e')
                    if not (isinstance(r, dict) and r.get('k') == 'call' and (r.get('name') or '').startswith('std::') and
                            _lastname(r.get('name')).split('<')[0] in ('max', 'min') and len(r.get('args') or []) == 2):
                        continue
                    l = E['l']

                    def bare(d):
                        while isinstance(d, dict) and d.get('k') == 'cast':
                            d = d.get('e')
                        return d
                    a0, a1 = r['args']
                    if json_eq(bare(a0), bare(l)):
                        other = a1
                    elif json_eq(bare(a1), bare(l)):
                        other = a0
                    else:
                        continue
                    if not (isinstance(bare(l), dict) and bare(l).get('k') in ('var', 'mem')):
                        continue
                    is_max = _lastname(r.get('name')).split('<')[0] == 'max'
                    base = max(b['id'] for b in F['blocks']) + 1
                    ST, CONT = base, base + 1
                    cond = {'k': 'bin', 'op': '<', 'l': copy.deepcopy(l if is_max else other), 'r': copy.deepcopy(other if is_max else l), 'tk': 'bool'}
                    cont = {'id': CONT, 'ev': B['ev'][ei + 1:], 'succ': B.get('succ', [])}
                    if 'term' in B:
                        cont['term'] = B['term']
                    key = _call_key(r)
                    B['ev'] = [x for x in B['ev'][:ei] if not (x.get('k') == 'call' and x.get('fn') == r.get('fn') and _call_key(x) == key)]
                    B['succ'] = [ST, CONT]
                    B['term'] = {'kind': 'if', 'cond': cond, 'line': E.get('line'), 'src': 'min/max'}
                    F['blocks'].append({'id': ST, 'ev': [dict(E, r=copy.deepcopy(other))], 'succ': [CONT]})
                    F['blocks'].append(cont)
                    F.setdefault('desugared', []).append('minmax')
                    n += 1
                    done = False
                    break
                if not done:
                    break
            if done:
                break
    return n


def json_eq(a, b):
    import json
    def clean(d):
        if isinstance(d, dict):
            return {k: clean(v) for k, v in d.items() if k not in ('line', 'src', 'col')}
        if isinstance(d, list):
            return [clean(x) for x in d]
        return d
    return json.dumps(clean(a), sort_keys=True) == json.dumps(clean(b), sort_keys=True)


def desugar_algorithms(facts):
    """`std::all_of(b, e, [..](T x){..})` (any_of, none_of) in a function the rules know is rewritten
    into the loop it abbreviates - `for (it = b; it != e; ++it) if (!pred(*it)) {r = false; break;}` -
    so that loop rules and guard facts see the same thing as for a hand-written loop.  The lambda call
    in the loop body is then inlined like any other new helper.  `find_if` / `find_if_not` likewise (the result is the
    iterator).  Functions that already passed a lambda to an algorithm when the rules were written are left as they
    are (the rules know that form): the pass changes nothing on the tree the rules were validated on."""
    n = 0
    here = os.path.dirname(os.path.abspath(__file__))
    try:
        dt_lambda_hosts = {l.strip().split('::lambda@')[0] for l in open(os.path.join(here, 'design_time_functions.txt')) if '::lambda@' in l}
    except OSError:
        dt_lambda_hosts = set()
    for fid, F in facts['functions'].items():
        if (F.get('name') or '') in dt_lambda_hosts:
            continue
        changed = True
        rounds = 0
        while changed and rounds < 8:
            changed = False
            rounds += 1
            for B in F['blocks']:
                for ei, E in enumerate(B['ev']):
                    if E.get('k') != 'call':
                        continue
                    last = _lastname(E.get('name'))
                    if (E.get('name') or '').startswith('std::') and last in ('transform', 'copy', 'copy_if'):
                        if _desugar_into_container(facts, F, B, ei, E, last, n + 1):
                            n += 1
                            F.setdefault('desugared', []).append(last)
                            changed = True
                            break
                        continue
                    if (E.get('name') or '').startswith('std::') and last in ('max_element', 'min_element'):
                        if _desugar_extremum(facts, F, B, ei, E, last, n + 1):
                            n += 1
                            F.setdefault('desugared', []).append(last)
                            changed = True
                            break
                        continue
                    if not (E.get('name') or '').startswith('std::') or last not in ALGO:
                        continue
                    args = E.get('args') or []
                    if len(args) != 3 or not (isinstance(args[2], dict) and args[2].get('k') == 'lambda' and args[2].get('fn') in facts['functions']):
                        continue
                    lam = facts['functions'][args[2]['fn']]
                    if len(lam.get('params') or []) != 1:
                        continue
                    n += 1
                    k = 'alg%d' % n
                    base = max(b['id'] for b in F['blocks']) + 1
                    H, BODY, STEP, XT, XF, CONT = base, base + 1, base + 2, base + 3, base + 4, base + 5
                    it = {'k': 'var', 'n': 'it@' + k, 'vk': 'local', 'tk': 'record', 'ty': 'iterator'}
                    res = {'k': 'var', 'n': 'res@' + k, 'vk': 'local', 'tk': 'bool', 'ty': 'bool'}
                    elem = {'k': 'call', 'name': 'iterator::operator*', 'op': '*', 'recv': dict(it), 'args': [], 'tk': lam['params'][0].get('tk')}
                    pred = {'k': 'call', 'name': lam['name'], 'fn': lam['id'], 'op': '()', 'args': [elem], 'tk': 'bool', 'line': E.get('line')}
                    cmp_ = {'k': 'call', 'name': 'operator!=', 'op': '!=', 'args': [dict(it), copy.deepcopy(args[1])], 'tk': 'bool'}
                    kind, _ = ALGO[last]
                    line = E.get('line')
                    # exits: loop exhausted / predicate decided
                    exhausted_val = kind in ('all', 'none')
                    decided_val = not exhausted_val
                    # which predicate outcome ends the loop early
                    early_on_true = kind in ('any', 'none', 'find')
                    finder = kind in ('find', 'find_not', 'each')
                    if finder:
                        res = it            # find_if returns the iterator it stopped at (or last)
                    cont = {'id': CONT, 'ev': B['ev'][ei + 1:], 'succ': B.get('succ', [])}
                    if 'term' in B:
                        cont['term'] = B['term']
                        del B['term']
                    key = _call_key(E)

                    def repl(d, key=key, fnid=E.get('fn')):
                        if d.get('k') == 'call' and d.get('fn') == fnid and _call_key(d) == key:
                            return dict(res)
                        return None
                    cont['ev'] = [{kk: _map(vv, repl) for kk, vv in e.items()} for e in cont['ev']]
                    if 'term' in cont:
                        cont['term'] = _map(cont['term'], repl)
                    # drop the now unused `fnref` of the lambda in front of the call
                    pre = [e for e in B['ev'][:ei] if not (e.get('k') == 'fnref' and e.get('fn') == lam['id'])]
                    B['ev'] = pre + [{'k': 'decl', 'n': it['n'], 'init': copy.deepcopy(args[0]), 'ty': 'iterator', 'tk': 'record', 'line': line,
                                      'src': 'it = <first>'}]
                    B['succ'] = [H]
                    blocks = [
                        {'id': H, 'ev': [dict(cmp_, line=line, src='it != <last>')], 'succ': [BODY, XT if exhausted_val else XF],
                         'term': {'kind': 'for', 'cond': cmp_, 'line': line, 'src': 'it != <last>'}},
                        {'id': BODY, 'ev': [dict(pred, src='pred(*it)')], 'succ': ([XT if decided_val else XF, STEP] if early_on_true else
                                                                                  [STEP, XT if decided_val else XF]),
                         'term': {'kind': 'if', 'cond': {kk: vv for kk, vv in pred.items() if kk != 'line'}, 'line': line, 'src': 'pred(*it)'}},
                        {'id': STEP, 'ev': [{'k': 'asg', 'op': '++', 'l': dict(it), 'line': line, 'src': '++it'}], 'succ': [H]},
                        {'id': XT, 'ev': [{'k': 'asg', 'op': '=', 'l': dict(res), 'r': {'k': 'bool', 'v': True}, 'line': line, 'src': 'result = true',
                                           'inl_ret': last}], 'succ': [CONT]},
                        {'id': XF, 'ev': [{'k': 'asg', 'op': '=', 'l': dict(res), 'r': {'k': 'bool', 'v': False}, 'line': line, 'src': 'result = false',
                                           'inl_ret': last}], 'succ': [CONT]},
                    ]
                    if finder:
                        blocks[3]['ev'] = []
                        blocks[4]['ev'] = []
                    if kind == 'each':
                        # for_each: the body is just the call; both exits are the plain loop exit
                        blocks[1] = {'id': BODY, 'ev': [dict(pred, src='f(*it)', disc=True)], 'succ': [STEP]}
                        blocks[0]['succ'] = [BODY, XT]
                        blocks[3]['ev'] = []
                        blocks[4]['ev'] = []
                    # thread the constant results into a continuation that only branches on them
                    if not finder and not cont['ev'] and 'term' in cont and len(cont.get('succ', [])) == 2 and \
                            any(x.get('k') == 'var' and x.get('n') == res['n'] for x in _walk(cont['term'].get('cond'))):
                        for xb in blocks[3:]:
                            val = xb['ev'][0]['r']

                            def thr(d, val=val):
                                if d.get('k') == 'var' and d.get('n') == res['n']:
                                    return dict(val)
                                return None
                            xb['term'] = _map(copy.deepcopy(cont['term']), thr)
                            xb['succ'] = list(cont['succ'])
                    # `return all_of(...)`: each exit returns its constant
                    if not finder and len(cont['ev']) == 1 and cont['ev'][0].get('k') == 'ret' and isinstance(cont['ev'][0].get('e'), dict) and \
                            cont['ev'][0]['e'].get('k') == 'var' and cont['ev'][0]['e'].get('n') == res['n']:
                        for xb in blocks[3:]:
                            val = xb['ev'][0]['r']
                            xb['ev'] = [dict(cont['ev'][0], e=dict(val), src='return %s' % ('true' if val['v'] else 'false'))]
                            xb['succ'] = list(cont['succ'])
                    F['blocks'].extend(blocks)
                    F['blocks'].append(cont)
                    # the same substitution everywhere else in the function
                    for b2 in F['blocks']:
                        if b2['id'] >= base:
                            continue
                        b2['ev'] = [{kk: _map(vv, repl) for kk, vv in e.items()} for e in b2['ev']]
                        if 'term' in b2:
                            b2['term'] = _map(b2['term'], repl)
                    F.setdefault('desugared', []).append(last)
                    changed = True
                    break
                if changed:
                    break
    return n
