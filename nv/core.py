"""Check context: collects rule instances and violations, applies the known-findings file,
writes evidence and replay files, decides the exit status."""
import json
import os
import sys
import time

from facts import AnalysisBroken, VERIF

KNOWN = os.path.join(VERIF, 'known_findings.json')
EVID = os.environ.get('NV_EVIDENCE') or os.path.join(VERIF, 'evidence')


class Ctx:
    def __init__(self, prop, prog, info, tier):
        self.prop = prop
        self.prog = prog
        self.info = info
        self.tier = tier
        self.instances = []
        self.violations = []
        self.notes = []
        self.tables = {}
        self.rules = {}
        self.floor_failures = []
        self.t0 = time.time()

    # ---- recording ---------------------------------------------------------------------------
    def rule(self, rid, template, text):
        """Declare a rule (id, template letter, one-line statement)."""
        self.rules[rid] = {'template': template, 'text': text, 'instances': 0, 'violations': 0}

    def inst(self, rid, where, what, **extra):
        """Record one evaluated obligation that held."""
        if rid not in self.rules:
            raise AnalysisBroken('rule %s used before declaration' % rid)
        self.rules[rid]['instances'] += 1
        d = {'rule': rid, 'where': where, 'obligation': what, 'verdict': 'holds'}
        d.update(extra)
        self.instances.append(d)

    def violation(self, rid, function, construct, where, msg, witness=None):
        """Record one violated obligation.  (property, rule, function, construct) is its identity
        for the known-findings file; `where` (file:line) is informational only."""
        if rid not in self.rules:
            raise AnalysisBroken('rule %s used before declaration' % rid)
        self.rules[rid]['instances'] += 1
        self.rules[rid]['violations'] += 1
        v = {'property': self.prop, 'rule': rid, 'function': function, 'construct': construct,
             'where': where, 'message': msg, 'witness': witness}
        self.violations.append(v)
        self.instances.append({'rule': rid, 'where': where, 'obligation': msg,
                               'verdict': 'VIOLATED'})

    def check(self, rid, ok, function, construct, where, what, msg=None, witness=None, **extra):
        if ok:
            self.inst(rid, where, what, **extra)
        else:
            self.violation(rid, function, construct, where, msg or ('not satisfied: ' + what),
                           witness)
        return ok

    def floor(self, rid, n):
        """Vacuity guard: the rule must have examined at least n instances."""
        have = self.rules[rid]['instances']
        self.rules[rid]['floor'] = n
        if have < n:
            # deferred: a violation found elsewhere is still reported (exit 1); without one the
            # check ends as analysis-broken (exit 2), never as a pass
            self.floor_failures.append('rule %s examined %d instances, fewer than the %d '
                                       'confirmed by reading (anchor drift?)' % (rid, have, n))

    def note(self, text):
        self.notes.append(text)

    def table(self, name, value):
        self.tables[name] = value

    # ---- finishing ---------------------------------------------------------------------------
    def finish(self):
        known = {'findings': [], 'fixed': []}
        if os.path.exists(KNOWN):
            known = json.load(open(KNOWN))
        kf = [k for k in known.get('findings', []) if k['property'] == self.prop]

        def matches(v, k):
            return (v['rule'] == k['rule'] and v['function'] == k['function'] and
                    v['construct'] == k['construct'])
        new = []
        listed = []
        for v in self.violations:
            hit = [k for k in kf if matches(v, k)]
            if hit:
                listed.append((v, hit[0]))
            else:
                new.append(v)
        os.makedirs(os.path.join(EVID, 'replay'), exist_ok=True)
        # stale replay files of this property are removed: a replay file exists iff reported now
        for f in os.listdir(os.path.join(EVID, 'replay')):
            if f.startswith(self.prop + '-'):
                os.unlink(os.path.join(EVID, 'replay', f))
        for v, k in listed:
            print('KNOWN-FINDING: property=%s %s [%s in %s at %s]' % (
                self.prop, k['what'], v['rule'], v['function'], v['where']))
        # a listed finding that no longer fires is reported (information only)
        for k in kf:
            if not any(matches(v, k) for v in self.violations):
                print('note: known finding %s/%s no longer fires on this tree' % (
                    k['rule'], k['function']))
        n = 0
        for v in new:
            n += 1
            path = os.path.join(EVID, 'replay', '%s-%s-%d.json' % (
                self.prop, v['rule'].replace('/', '_'), n))
            json.dump(v, open(path, 'w'), indent=1)
            print('%s: %s: %s [%s in %s]' % (v['where'], v['rule'], v['message'], v['construct'],
                                             v['function']))
            if v.get('witness'):
                print('    witness: %s' % json.dumps(v['witness'])[:600])
            print('VIOLATION property=%s replay=%s' % (self.prop, path))
        self.write_evidence(len(new), [v for v, k in listed])
        if new:
            for m in self.floor_failures:
                print('note: ' + m)
            return 1
        if self.floor_failures:
            raise AnalysisBroken('; '.join(self.floor_failures))
        return 0

    def write_evidence(self, nviol, listed):
        prog = self.prog
        distinct = {(i['rule'], i['where'], i['obligation']) for i in self.instances}
        nfun = len(prog.functions)
        ncalls = sum(1 for f in prog.functions.values() for _ in f.events('call'))
        nblocks = sum(len(f.blocks) for f in prog.functions.values())
        samples = []
        per_rule = {}
        for i in self.instances:
            per_rule.setdefault(i['rule'], []).append(i)
        for rid, lst in per_rule.items():
            samples += lst[:4]
        ev = {
            'property_id': self.prop,
            'tier': self.tier,
            'seed': int(os.environ.get('VERIF_SEED', '0') or 0),
            'level': 'other',
            'coverage': {
                'explanation': (
                    'Static decision, from the current /repo source through the clang-14 front '
                    'end (nvx fact extractor + nv rule engine), of the structural clauses listed '
                    'under "rules". Each obligation is a (rule, site) pair evaluated over all CFG '
                    'paths / all call sites of the anchored functions; the behavioural statement '
                    'as a whole is not decided (see DESIGN.md section 5).'),
                'evaluations': len(self.instances),
                'distinct_nontrivial': len(distinct),
                'rule': ('an obligation = one rule applied at one site (call site, write, branch, '
                         'CFG path set); distinct = different (rule, file:line, obligation text); '
                         'non-trivial = the anchor resolved and the rule had something to check '
                         '(instance floors enforce this, falling below them is exit 2)'),
                'samples': samples[:60],
                'rules': self.rules,
                'units_analysed': self.info['units'],
                'functions_analysed': nfun,
                'call_sites_analysed': ncalls,
                'cfg_blocks': nblocks,
                'tables': self.tables,
                'notes': self.notes,
                'known_findings_reported': [
                    {'rule': v['rule'], 'function': v['function'], 'construct': v['construct'],
                     'where': v['where']} for v in listed],
                'configuration': os.environ.get('NV_CONFIG', 'release'),
                'thorough': getattr(self, 'thorough', None),
                'fact_cache_key': self.info['cache_key'],
                'fresh_extraction': self.info['fresh_extraction'],
                # parameters / locals of the current tree that were mapped back to their reference names (nv/alpha.py)
                'alpha_renamed': self.info.get('alpha_renamed', {}),
            },
            'assumptions': [
                'clang 14 parser/Sema/CFG builder are correct',
                'nvx serialises resolved callees, fields and CFG edges faithfully',
                'guard facts ignore writes to fields made by callees between a test and its use '
                '(kills are tracked for locals, parameters and direct field writes only)',
                'hand-confirmed idiom / exemption tables printed under coverage.tables',
                'translation units and flags as derived from CMakeLists.txt (non-WIN32, re2c '
                'fallback sources, -DNDEBUG)',
            ],
            'wall_s': round(time.time() - self.t0 + self.info.get('load_s', 0), 3),
            'violations': nviol,
        }
        os.makedirs(EVID, exist_ok=True)
        tmp = os.path.join(EVID, '%s.json.tmp' % self.prop)
        json.dump(ev, open(tmp, 'w'), indent=1, default=str)
        os.replace(tmp, os.path.join(EVID, '%s.json' % self.prop))
