// nvx — clang-14 libTooling fact extractor for the ninja static verification rules.
//
// Usage: nvx <out.json> <root-dir> <file.cc> -- <compiler flags>
//
// For every function with a body located under <root-dir> it emits: identity, signature,
// class/override links, and a CFG (CFG::BuildOptions::setAllAlwaysAdd) whose blocks carry the
// *events* (calls with resolved callees, writes, declarations, returns, derefs, subscripts,
// function references) in evaluation order, each with normalised expression descriptors.
// Also: classes (fields, bases), enums (constants with values), global / static variables with
// constant initialisers.  One JSON file per translation unit.
//
// See /verif/DESIGN.md section 3.2.

#include "clang/AST/ASTConsumer.h"
#include "clang/AST/ASTContext.h"
#include "clang/AST/Attr.h"
#include "clang/AST/ParentMap.h"
#include "clang/AST/RecursiveASTVisitor.h"
#include "clang/Analysis/CFG.h"
#include "clang/Frontend/CompilerInstance.h"
#include "clang/Frontend/FrontendAction.h"
#include "clang/Lex/Lexer.h"
#include "clang/Tooling/CompilationDatabase.h"
#include "clang/Tooling/Tooling.h"
#include "llvm/Support/JSON.h"
#include "llvm/Support/raw_ostream.h"

#include <map>
#include <set>
#include <string>

using namespace clang;
namespace json = llvm::json;

static std::string g_out;
static std::string g_root;

namespace {

std::string fix(llvm::StringRef s) { return json::fixUTF8(s); }

struct Extractor : public RecursiveASTVisitor<Extractor> {
  ASTContext& Ctx;
  SourceManager& SM;
  PrintingPolicy PP;
  json::Array functions, classes, enums, globals;
  std::set<std::string> seenFn, seenClass, seenEnum, seenGlobal;
  // Per-function unique names for locals: a second declaration of the same identifier in one
  // function (another scope, another range-for) is reported as "name#2", "name#3", ...
  std::map<const VarDecl*, std::string> localNames;
  std::map<std::string, int> localCount;

  std::string localName(const VarDecl* VD) {
    if (isa<ParmVarDecl>(VD) || VD->hasGlobalStorage()) return VD->getNameAsString();
    auto it = localNames.find(VD);
    if (it != localNames.end()) return it->second;
    std::string n = VD->getNameAsString();
    if (n.empty()) n = "__sb";             // the unnamed object behind a structured binding
    int c = ++localCount[n];
    std::string u = c == 1 ? n : n + "#" + std::to_string(c);
    localNames[VD] = u;
    return u;
  }

  explicit Extractor(ASTContext& C)
      : Ctx(C), SM(C.getSourceManager()), PP(C.getLangOpts()) {
    PP.SuppressTagKeyword = true;
    PP.Bool = true;
    PP.SuppressUnwrittenScope = true;   // drop "(anonymous namespace)::"
  }

  bool shouldVisitTemplateInstantiations() const { return true; }
  bool shouldVisitImplicitCode() const { return false; }

  // ---- helpers ----------------------------------------------------------------------------

  std::string fileOf(SourceLocation L) {
    L = SM.getExpansionLoc(L);
    if (L.isInvalid()) return "";
    return SM.getFilename(L).str();
  }
  unsigned lineOf(SourceLocation L) {
    L = SM.getExpansionLoc(L);
    if (L.isInvalid()) return 0;
    return SM.getSpellingLineNumber(L);
  }
  bool inRoot(SourceLocation L) {
    std::string f = fileOf(L);
    return !f.empty() && f.compare(0, g_root.size(), g_root) == 0;
  }
  std::string relFile(SourceLocation L) {
    std::string f = fileOf(L);
    if (f.compare(0, g_root.size(), g_root) == 0) {
      f = f.substr(g_root.size());
      while (!f.empty() && f[0] == '/') f = f.substr(1);
    }
    return f;
  }

  std::string srcText(const Stmt* S, unsigned maxlen = 140) {
    if (!S) return "";
    SourceLocation B = SM.getExpansionLoc(S->getBeginLoc());
    SourceLocation E = SM.getExpansionLoc(S->getEndLoc());
    if (B.isInvalid() || E.isInvalid()) return "";
    CharSourceRange R = CharSourceRange::getTokenRange(B, E);
    bool inv = false;
    llvm::StringRef t = Lexer::getSourceText(R, SM, Ctx.getLangOpts(), &inv);
    if (inv) return "";
    std::string o;
    bool sp = false;
    for (char c : t) {
      if (c == '\n' || c == '\t' || c == ' ' || c == '\r') {
        if (!sp) o += ' ';
        sp = true;
      } else {
        o += c;
        sp = false;
      }
      if (o.size() >= maxlen) { o += "..."; break; }
    }
    return fix(o);
  }

  std::string typeStr(QualType T) { return fix(T.getAsString(PP)); }

  std::string typeKind(QualType T) {
    T = T.getCanonicalType().getNonReferenceType();
    if (T->isVoidType()) return "void";
    if (T->isBooleanType()) return "bool";
    if (T->isPointerType() || T->isNullPtrType()) return "ptr";
    if (T->isEnumeralType()) return "enum";
    if (T->isIntegerType()) return T->isUnsignedIntegerType() ? "uint" : "int";
    if (T->isFloatingType()) return "float";
    if (T->isRecordType()) return "record";
    return "other";
  }

  std::string templateArgs(const FunctionDecl* FD) {
    std::string s;
    if (const TemplateArgumentList* TAL = FD->getTemplateSpecializationArgs()) {
      llvm::raw_string_ostream os(s);
      os << "<";
      for (unsigned i = 0; i < TAL->size(); ++i) {
        if (i) os << ",";
        TAL->get(i).print(PP, os, true);
      }
      os << ">";
    }
    return s;
  }

  std::string qualName(const NamedDecl* D) {
    std::string s;
    llvm::raw_string_ostream os(s);
    D->printQualifiedName(os, PP);
    os.flush();
    // strip "(anonymous namespace)::" so that names are stable
    std::string an = "(anonymous namespace)::";
    size_t p;
    while ((p = s.find(an)) != std::string::npos) s.erase(p, an.size());
    return s;
  }

  // Lambda call operators get the id "<enclosing function>::lambda@<line>".
  std::string funcName(const FunctionDecl* FD) {
    if (const auto* MD = dyn_cast<CXXMethodDecl>(FD)) {
      const CXXRecordDecl* RD = MD->getParent();
      if (RD && RD->isLambda()) {
        std::string enc = "?";
        const DeclContext* DC = RD->getDeclContext();
        while (DC && !isa<FunctionDecl>(DC)) DC = DC->getParent();
        if (DC) enc = funcName(cast<FunctionDecl>(DC));
        return enc + "::lambda@" + std::to_string(lineOf(RD->getBeginLoc()));
      }
    }
    std::string n = qualName(FD);
    n += templateArgs(FD);
    return n;
  }

  std::string funcId(const FunctionDecl* FD) {
    if (const FunctionDecl* P = FD->getTemplateInstantiationPattern()) {
      (void)P;
    }
    std::string n = funcName(FD);
    n += "(";
    for (unsigned i = 0; i < FD->getNumParams(); ++i) {
      if (i) n += ",";
      // canonical types: the id must not depend on how a redeclaration spells them
      // (`string*` under `using namespace std` vs `std::string*` in the header)
      n += typeStr(FD->getParamDecl(i)->getType().getCanonicalType());
    }
    n += ")";
    if (const auto* MD = dyn_cast<CXXMethodDecl>(FD))
      if (MD->isConst()) n += "const";
    return n;
  }

  // ---- expression descriptors ---------------------------------------------------------------

  json::Value lit(const char* k, json::Value v) {
    return json::Object{{"k", k}, {"v", std::move(v)}};
  }

  json::Value desc(const Expr* E, int depth = 0) {
    if (!E) return nullptr;
    if (depth > 9) return json::Object{{"k", "deep"}};
    // Transparent wrappers.
    for (;;) {
      const Expr* N = E;
      if (auto* P = dyn_cast<ParenExpr>(E)) N = P->getSubExpr();
      else if (auto* C = dyn_cast<ImplicitCastExpr>(E)) {
        CastKind ck = C->getCastKind();
        if (ck == CK_PointerToBoolean || ck == CK_MemberPointerToBoolean) {
          return json::Object{{"k", "tobool"}, {"from", "ptr"},
                              {"e", desc(C->getSubExpr(), depth + 1)}};
        }
        if (ck == CK_IntegralToBoolean) {
          return json::Object{{"k", "tobool"}, {"from", "int"},
                              {"e", desc(C->getSubExpr(), depth + 1)}};
        }
        N = C->getSubExpr();
      } else if (auto* X = dyn_cast<ExprWithCleanups>(E)) N = X->getSubExpr();
      else if (auto* M = dyn_cast<MaterializeTemporaryExpr>(E)) N = M->getSubExpr();
      else if (auto* B = dyn_cast<CXXBindTemporaryExpr>(E)) N = B->getSubExpr();
      else if (auto* D = dyn_cast<CXXDefaultArgExpr>(E)) N = D->getExpr();
      else if (auto* D2 = dyn_cast<CXXDefaultInitExpr>(E)) N = D2->getExpr();
      else if (auto* CE = dyn_cast<ConstantExpr>(E)) N = CE->getSubExpr();
      else if (auto* SI = dyn_cast<CXXStdInitializerListExpr>(E)) N = SI->getSubExpr();
      else if (auto* ST = dyn_cast<SubstNonTypeTemplateParmExpr>(E)) N = ST->getReplacement();
      if (N == E) break;
      E = N;
    }

    if (auto* IL = dyn_cast<IntegerLiteral>(E))
      return lit("int", (int64_t)IL->getValue().getLimitedValue());
    if (auto* CL = dyn_cast<CharacterLiteral>(E)) return lit("int", (int64_t)CL->getValue());
    if (auto* BL = dyn_cast<CXXBoolLiteralExpr>(E)) return lit("bool", BL->getValue());
    if (isa<CXXNullPtrLiteralExpr>(E) || isa<GNUNullExpr>(E)) return json::Object{{"k", "null"}};
    if (auto* SL = dyn_cast<StringLiteral>(E)) {
      if (SL->getCharByteWidth() == 1) return lit("str", fix(SL->getBytes()));
      return lit("str", "<wide>");
    }
    if (auto* FL = dyn_cast<FloatingLiteral>(E))
      return lit("float", FL->getValueAsApproximateDouble());
    if (isa<CXXThisExpr>(E)) return json::Object{{"k", "this"}};

    if (auto* DRE = dyn_cast<DeclRefExpr>(E)) {
      const ValueDecl* D = DRE->getDecl();
      if (auto* EC = dyn_cast<EnumConstantDecl>(D))
        return json::Object{{"k", "enum"}, {"n", qualName(EC)},
                            {"v", (int64_t)EC->getInitVal().getExtValue()}};
      if (auto* FD = dyn_cast<FunctionDecl>(D))
        return json::Object{{"k", "fn"}, {"n", funcId(FD)}, {"name", funcName(FD)}};
      if (auto* VD = dyn_cast<VarDecl>(D)) {
        const char* vk = "local";
        if (isa<ParmVarDecl>(VD)) vk = "param";
        else if (VD->isStaticLocal()) vk = "static";
        else if (VD->hasGlobalStorage()) vk = "global";
        json::Object o{{"k", "var"}, {"n", vk[0] == 'g' ? qualName(VD) : localName(VD)},
                       {"vk", vk}, {"ty", typeStr(VD->getType())},
                       {"tk", typeKind(VD->getType())}};
        if (VD->getType()->isReferenceType()) o["ref"] = true;
        // constant value if known (global / static const ints)
        if (!VD->getType()->isReferenceType() && VD->getType().isConstQualified() &&
            VD->getType()->isIntegralOrEnumerationType() && VD->getAnyInitializer() &&
            !VD->getAnyInitializer()->isValueDependent()) {
          Expr::EvalResult R;
          if (VD->getAnyInitializer()->EvaluateAsInt(R, Ctx))
            o["cv"] = (int64_t)R.Val.getInt().getExtValue();
        }
        return std::move(o);
      }
      if (auto* BD = dyn_cast<BindingDecl>(D))
        return json::Object{{"k", "var"}, {"n", BD->getNameAsString()}, {"vk", "local"},
                            {"ty", typeStr(BD->getType())}, {"tk", typeKind(BD->getType())}};
      return json::Object{{"k", "ref"}, {"n", D->getNameAsString()}};
    }

    if (auto* ME = dyn_cast<MemberExpr>(E)) {
      const ValueDecl* D = ME->getMemberDecl();
      json::Object o;
      if (auto* FD = dyn_cast<FieldDecl>(D)) {
        o["k"] = "mem";
        o["n"] = qualName(FD);
        o["ty"] = typeStr(FD->getType());
        o["tk"] = typeKind(FD->getType());
      } else if (auto* MD = dyn_cast<CXXMethodDecl>(D)) {
        o["k"] = "memfn";
        o["n"] = funcId(MD);
        o["name"] = funcName(MD);
      } else if (auto* VD = dyn_cast<VarDecl>(D)) {
        o["k"] = "var";
        o["n"] = qualName(VD);
        o["vk"] = "global";
        o["ty"] = typeStr(VD->getType());
        o["tk"] = typeKind(VD->getType());
        return std::move(o);
      } else {
        o["k"] = "mem";
        o["n"] = D->getNameAsString();
      }
      o["arrow"] = ME->isArrow();
      o["b"] = desc(ME->getBase(), depth + 1);
      return std::move(o);
    }

    if (auto* UO = dyn_cast<UnaryOperator>(E)) {
      std::string op = UnaryOperator::getOpcodeStr(UO->getOpcode()).str();
      if (UO->isPostfix()) op = "post" + op;
      else if (UO->isIncrementDecrementOp()) op = "pre" + op;
      return json::Object{{"k", "un"}, {"op", op}, {"e", desc(UO->getSubExpr(), depth + 1)}};
    }
    if (auto* BO = dyn_cast<BinaryOperator>(E)) {
      return json::Object{{"k", "bin"}, {"op", BO->getOpcodeStr().str()},
                          {"l", desc(BO->getLHS(), depth + 1)},
                          {"r", desc(BO->getRHS(), depth + 1)}};
    }
    if (auto* CO = dyn_cast<ConditionalOperator>(E)) {
      return json::Object{{"k", "cond"}, {"c", desc(CO->getCond(), depth + 1)},
                          {"t", desc(CO->getTrueExpr(), depth + 1)},
                          {"f", desc(CO->getFalseExpr(), depth + 1)}};
    }
    if (auto* AS = dyn_cast<ArraySubscriptExpr>(E)) {
      return json::Object{{"k", "idx"}, {"b", desc(AS->getBase(), depth + 1)},
                          {"i", desc(AS->getIdx(), depth + 1)}};
    }
    if (auto* CE = dyn_cast<CallExpr>(E)) return callDesc(CE, depth);
    if (auto* CC = dyn_cast<CXXConstructExpr>(E)) {
      const CXXConstructorDecl* CD = CC->getConstructor();
      if (CC->getNumArgs() == 1 && (CD->isCopyOrMoveConstructor()))
        return desc(CC->getArg(0), depth);   // copies are transparent
      json::Array args;
      for (const Expr* A : CC->arguments()) args.push_back(desc(A, depth + 1));
      return json::Object{{"k", "ctor"}, {"fn", funcId(CD)}, {"name", funcName(CD)},
                          {"ty", typeStr(CC->getType())}, {"args", std::move(args)}};
    }
    if (auto* EC = dyn_cast<ExplicitCastExpr>(E)) {
      return json::Object{{"k", "cast"}, {"ty", typeStr(EC->getType())},
                          {"tk", typeKind(EC->getType())},
                          {"e", desc(EC->getSubExpr(), depth + 1)}};
    }
    if (auto* NE = dyn_cast<CXXNewExpr>(E)) {
      json::Object o{{"k", "new"}, {"ty", typeStr(NE->getAllocatedType())}};
      if (NE->isArray() && NE->getArraySize()) o["size"] = desc(*NE->getArraySize(), depth + 1);
      if (const CXXConstructExpr* CC = NE->getConstructExpr()) {
        json::Array args;
        for (const Expr* A : CC->arguments()) args.push_back(desc(A, depth + 1));
        o["args"] = std::move(args);
        o["fn"] = funcId(CC->getConstructor());
      }
      return std::move(o);
    }
    if (auto* DE = dyn_cast<CXXDeleteExpr>(E))
      return json::Object{{"k", "delete"}, {"e", desc(DE->getArgument(), depth + 1)}};
    if (auto* LE = dyn_cast<LambdaExpr>(E))
      return json::Object{{"k", "lambda"}, {"fn", funcId(LE->getCallOperator())}};
    if (auto* UE = dyn_cast<UnaryExprOrTypeTraitExpr>(E)) {
      json::Object o{{"k", "sizeof"}};
      Expr::EvalResult R;
      if (!UE->isValueDependent() && UE->EvaluateAsInt(R, Ctx))
        o["v"] = (int64_t)R.Val.getInt().getExtValue();
      return std::move(o);
    }
    if (auto* IL = dyn_cast<InitListExpr>(E)) {
      json::Array a;
      unsigned n = 0;
      for (const Expr* I : IL->inits()) {
        if (++n > 600) break;
        a.push_back(desc(I, depth + 1));
      }
      return json::Object{{"k", "init"}, {"e", std::move(a)}};
    }
    if (auto* TE = dyn_cast<CXXTemporaryObjectExpr>(E)) {
      (void)TE;
    }
    if (auto* SE = dyn_cast<StmtExpr>(E)) {
      (void)SE;
      return json::Object{{"k", "?"}, {"c", "StmtExpr"}};
    }
    return json::Object{{"k", "?"}, {"c", E->getStmtClassName()}};
  }

  json::Value callDesc(const CallExpr* CE, int depth) {
    json::Object o{{"k", "call"}};
    const FunctionDecl* FD = CE->getDirectCallee();
    if (FD) {
      o["fn"] = funcId(FD);
      o["name"] = funcName(FD);
      if (auto* MD = dyn_cast<CXXMethodDecl>(FD))
        if (MD->isVirtual()) o["virt"] = true;
      // printf-like callee: 0-based index of the format argument (format attribute, incl. the
      // implicit ones of the libc builtins), or for a variadic callee the last named parameter
      // when that is a `const char*`
      if (FD->isVariadic()) {
        o["variadic"] = (int64_t)FD->getNumParams();
        for (const auto* FA : FD->specific_attrs<FormatAttr>()) {
          if (FA->getType() && FA->getType()->getName() == "printf")
            o["fmt"] = (int64_t)FA->getFormatIdx() - 1 - (isa<CXXMethodDecl>(FD) ? 1 : 0);
        }
      }
    } else {
      o["fn"] = nullptr;
      o["callee"] = desc(CE->getCallee(), depth + 1);
    }
    json::Array args;
    if (auto* MC = dyn_cast<CXXMemberCallExpr>(CE)) {
      o["recv"] = desc(MC->getImplicitObjectArgument(), depth + 1);
      for (const Expr* A : MC->arguments()) args.push_back(desc(A, depth + 1));
    } else if (auto* OC = dyn_cast<CXXOperatorCallExpr>(CE)) {
      o["op"] = getOperatorSpelling(OC->getOperator());
      unsigned i = 0;
      bool member = FD && isa<CXXMethodDecl>(FD);
      for (const Expr* A : OC->arguments()) {
        if (i == 0 && member) o["recv"] = desc(A, depth + 1);
        else args.push_back(desc(A, depth + 1));
        ++i;
      }
    } else {
      for (const Expr* A : CE->arguments()) args.push_back(desc(A, depth + 1));
    }
    o["args"] = std::move(args);
    o["tk"] = typeKind(CE->getType());
    return std::move(o);
  }

  // ---- function processing ---------------------------------------------------------------

  void collectCalleeRefs(const Stmt* S, std::set<const Expr*>& out) {
    if (!S) return;
    if (auto* CE = dyn_cast<CallExpr>(S)) {
      const Expr* C = CE->getCallee()->IgnoreParenImpCasts();
      out.insert(C);
    }
    for (const Stmt* C : S->children()) collectCalleeRefs(C, out);
  }

  bool isDiscarded(const Stmt* S, ParentMap& PM) {
    const Stmt* P = PM.getParent(S);
    while (P && (isa<ParenExpr>(P) || isa<ImplicitCastExpr>(P) || isa<ExprWithCleanups>(P) ||
                 isa<MaterializeTemporaryExpr>(P) || isa<CXXBindTemporaryExpr>(P) ||
                 isa<ConstantExpr>(P))) {
      S = P;
      P = PM.getParent(P);
    }
    if (!P) return true;
    if (isa<CompoundStmt>(P)) return true;
    if (auto* I = dyn_cast<IfStmt>(P)) return I->getCond() != S && I->getInit() != S ? true : false;
    if (auto* W = dyn_cast<WhileStmt>(P)) return W->getCond() != S;
    if (auto* D = dyn_cast<DoStmt>(P)) return D->getCond() != S;
    if (auto* F = dyn_cast<ForStmt>(P)) return F->getCond() != S;
    if (isa<CXXForRangeStmt>(P)) return false;
    if (isa<LabelStmt>(P) || isa<CaseStmt>(P) || isa<DefaultStmt>(P) || isa<SwitchStmt>(P))
      return isa<SwitchStmt>(P) ? cast<SwitchStmt>(P)->getCond() != S : true;
    if (auto* C = dyn_cast<CStyleCastExpr>(P))
      if (C->getType()->isVoidType()) return true;
    if (auto* BO = dyn_cast<BinaryOperator>(P))
      if (BO->getOpcode() == BO_Comma && BO->getLHS() == S) return true;
    return false;
  }

  void emitEvents(const Stmt* S, json::Array& ev, ParentMap& PM,
                  const std::set<const Expr*>& calleeRefs) {
    unsigned line = lineOf(S->getBeginLoc());
    auto base = [&](const char* k) {
      json::Object o{{"k", k}, {"line", (int64_t)line}};
      return o;
    };
    if (auto* CE = dyn_cast<CallExpr>(S)) {
      json::Value d = callDesc(CE, 0);
      json::Object o = std::move(*d.getAsObject());
      o["line"] = (int64_t)line;
      o["src"] = srcText(S);
      if (isDiscarded(S, PM)) o["disc"] = true;
      ev.push_back(std::move(o));
      return;
    }
    if (auto* CC = dyn_cast<CXXConstructExpr>(S)) {
      const CXXConstructorDecl* CD = CC->getConstructor();
      if (CD->isTrivial() && CC->getNumArgs() == 0) return;
      json::Object o = base("call");
      o["fn"] = funcId(CD);
      o["name"] = funcName(CD);
      o["ctor"] = true;
      json::Array args;
      for (const Expr* A : CC->arguments()) args.push_back(desc(A, 1));
      o["args"] = std::move(args);
      o["ty"] = typeStr(CC->getType());
      o["src"] = srcText(S);
      ev.push_back(std::move(o));
      return;
    }
    if (auto* BO = dyn_cast<BinaryOperator>(S)) {
      if (BO->isAssignmentOp()) {
        json::Object o = base("asg");
        o["op"] = BO->getOpcodeStr().str();
        o["l"] = desc(BO->getLHS(), 1);
        o["r"] = desc(BO->getRHS(), 1);
        o["src"] = srcText(S);
        ev.push_back(std::move(o));
      }
      return;
    }
    if (auto* UO = dyn_cast<UnaryOperator>(S)) {
      if (UO->isIncrementDecrementOp()) {
        json::Object o = base("asg");
        o["op"] = UO->isIncrementOp() ? "++" : "--";
        o["post"] = UO->isPostfix();
        o["l"] = desc(UO->getSubExpr(), 1);
        o["src"] = srcText(S);
        ev.push_back(std::move(o));
      } else if (UO->getOpcode() == UO_Deref) {
        json::Object o = base("deref");
        o["e"] = desc(UO->getSubExpr(), 1);
        ev.push_back(std::move(o));
      }
      return;
    }
    if (auto* ME = dyn_cast<MemberExpr>(S)) {
      // `p->m` evaluated here: a dereference of p at exactly this CFG position
      if (ME->isArrow() && !isa<CXXThisExpr>(ME->getBase()->IgnoreParenImpCasts())) {
        json::Object o = base("arrow");
        o["e"] = desc(ME->getBase(), 1);
        o["m"] = ME->getMemberDecl()->getNameAsString();
        ev.push_back(std::move(o));
      }
      return;
    }
    if (auto* AS = dyn_cast<ArraySubscriptExpr>(S)) {
      json::Object o = base("idx");
      o["b"] = desc(AS->getBase(), 1);
      o["i"] = desc(AS->getIdx(), 1);
      o["src"] = srcText(S);
      ev.push_back(std::move(o));
      return;
    }
    if (auto* DS = dyn_cast<DeclStmt>(S)) {
      for (const Decl* D : DS->decls()) {
        if (auto* VD = dyn_cast<VarDecl>(D)) {
          json::Object o = base("decl");
          o["n"] = localName(VD);
          o["ty"] = typeStr(VD->getType());
          o["tk"] = typeKind(VD->getType());
          if (VD->getType()->isReferenceType()) o["ref"] = true;
          if (VD->isStaticLocal()) o["static"] = true;
          if (VD->hasInit()) o["init"] = desc(VD->getInit(), 1);
          o["src"] = srcText(S);
          ev.push_back(std::move(o));
          // structured binding: every name is an alias of one member of the unnamed object
          if (auto* DD = dyn_cast<DecompositionDecl>(VD)) {
            QualType T = DD->getType().getNonReferenceType();
            const CXXRecordDecl* RD = T->getAsCXXRecordDecl();
            std::vector<const FieldDecl*> fields;
            if (RD) for (const FieldDecl* F : RD->fields()) fields.push_back(F);
            unsigned idx = 0;
            for (const BindingDecl* BD : DD->bindings()) {
              json::Object b = base("decl");
              b["n"] = BD->getNameAsString();
              b["ty"] = typeStr(BD->getType());
              b["tk"] = typeKind(BD->getType());
              b["ref"] = true;
              json::Object var{{"k", "var"}, {"n", localName(VD)}, {"vk", "local"},
                               {"ty", typeStr(VD->getType())}, {"tk", typeKind(VD->getType())}};
              if (fields.size() == DD->bindings().size()) {
                const FieldDecl* F = fields[idx];
                json::Object m{{"k", "mem"}, {"n", qualName(F)}, {"ty", typeStr(F->getType())},
                               {"tk", typeKind(F->getType())}};
                m["b"] = std::move(var);
                b["init"] = std::move(m);
              } else {
                json::Object c{{"k", "call"}, {"name", "get<" + std::to_string(idx) + ">"}};
                c["args"] = json::Array{std::move(var)};
                b["init"] = std::move(c);
              }
              b["src"] = srcText(S);
              ev.push_back(std::move(b));
              ++idx;
            }
          }
        }
      }
      return;
    }
    if (auto* RS = dyn_cast<ReturnStmt>(S)) {
      json::Object o = base("ret");
      if (RS->getRetValue()) o["e"] = desc(RS->getRetValue(), 1);
      o["src"] = srcText(S);
      ev.push_back(std::move(o));
      return;
    }
    if (auto* NE = dyn_cast<CXXNewExpr>(S)) {
      json::Value d = desc(NE, 0);
      json::Object o = std::move(*d.getAsObject());
      o["line"] = (int64_t)line;
      o["src"] = srcText(S);
      ev.push_back(std::move(o));
      return;
    }
    if (auto* DE = dyn_cast<CXXDeleteExpr>(S)) {
      json::Object o = base("delete");
      o["e"] = desc(DE->getArgument(), 1);
      ev.push_back(std::move(o));
      return;
    }
    if (auto* DRE = dyn_cast<DeclRefExpr>(S)) {
      if (auto* FD = dyn_cast<FunctionDecl>(DRE->getDecl())) {
        if (!calleeRefs.count(DRE)) {
          json::Object o = base("fnref");
          o["fn"] = funcId(FD);
          o["name"] = funcName(FD);
          ev.push_back(std::move(o));
        }
      }
      return;
    }
    if (auto* LE = dyn_cast<LambdaExpr>(S)) {
      json::Object o = base("fnref");
      o["fn"] = funcId(LE->getCallOperator());
      o["name"] = funcName(LE->getCallOperator());
      o["lambda"] = true;
      ev.push_back(std::move(o));
      return;
    }
  }

  const char* termKind(const Stmt* T) {
    if (!T) return "";
    if (isa<IfStmt>(T)) return "if";
    if (isa<WhileStmt>(T)) return "while";
    if (isa<ForStmt>(T)) return "for";
    if (isa<DoStmt>(T)) return "do";
    if (isa<CXXForRangeStmt>(T)) return "range";
    if (isa<SwitchStmt>(T)) return "switch";
    if (isa<ConditionalOperator>(T)) return "cond";
    if (isa<GotoStmt>(T)) return "goto";
    if (isa<BreakStmt>(T)) return "break";
    if (isa<ContinueStmt>(T)) return "continue";
    if (auto* BO = dyn_cast<BinaryOperator>(T)) {
      if (BO->getOpcode() == BO_LAnd) return "land";
      if (BO->getOpcode() == BO_LOr) return "lor";
    }
    return T->getStmtClassName();
  }

  void processFunction(const FunctionDecl* FD) {
    if (!FD->doesThisDeclarationHaveABody()) return;
    if (FD->isDependentContext()) return;
    const Stmt* Body = FD->getBody();
    if (!Body) return;
    if (!inRoot(FD->getLocation())) return;
    std::string id = funcId(FD);
    if (!seenFn.insert(id).second) return;
    localNames.clear();
    localCount.clear();
    // number the locals in source order first, so that names do not depend on CFG order
    struct Pre : RecursiveASTVisitor<Pre> {
      Extractor& X;
      explicit Pre(Extractor& x) : X(x) {}
      bool shouldVisitImplicitCode() const { return true; }
      bool VisitVarDecl(VarDecl* VD) { X.localName(VD); return true; }
      bool TraverseLambdaExpr(LambdaExpr*) { return true; }
    } pre(*this);
    pre.TraverseStmt(const_cast<Stmt*>(Body));

    json::Object fo;
    fo["id"] = id;
    fo["name"] = funcName(FD);
    fo["file"] = relFile(FD->getLocation());
    fo["line"] = (int64_t)lineOf(FD->getBeginLoc());
    fo["endline"] = (int64_t)lineOf(FD->getEndLoc());
    fo["ret"] = typeStr(FD->getReturnType());
    fo["retk"] = typeKind(FD->getReturnType());
    json::Array params;
    for (const ParmVarDecl* P : FD->parameters()) {
      json::Object po{{"n", P->getNameAsString()}, {"ty", typeStr(P->getType())},
                      {"tk", typeKind(P->getType())}};
      if (P->getType()->isReferenceType()) {
        po["ref"] = true;
        if (P->getType()->getPointeeType().isConstQualified()) po["cref"] = true;
      }
      if (P->getType()->isPointerType() && P->getType()->getPointeeType().isConstQualified())
        po["cptr"] = true;
      params.push_back(std::move(po));
    }
    fo["params"] = std::move(params);
    if (auto* MD = dyn_cast<CXXMethodDecl>(FD)) {
      fo["cls"] = qualName(MD->getParent());
      if (MD->isVirtual()) fo["virt"] = true;
      if (MD->isStatic()) fo["static"] = true;
      if (MD->isConst()) fo["const"] = true;
      json::Array ov;
      for (const CXXMethodDecl* O : MD->overridden_methods()) ov.push_back(funcId(O));
      if (!ov.empty()) fo["overrides"] = std::move(ov);
      if (isa<CXXConstructorDecl>(MD)) fo["ctor"] = true;
      if (isa<CXXDestructorDecl>(MD)) fo["dtor"] = true;
      if (MD->getParent()->isLambda()) fo["lambda"] = true;
    }
    if (FD->isTemplateInstantiation()) fo["tmpl"] = true;
    // internal linkage (static / anonymous namespace): a helper private to its translation unit
    if (!FD->isExternallyVisible()) fo["internal"] = true;
    if (auto* MD2 = dyn_cast<CXXMethodDecl>(FD))
      if (MD2->getAccess() == AS_private) fo["private"] = true;

    CFG::BuildOptions BO;
    BO.setAllAlwaysAdd();
    BO.AddImplicitDtors = false;
    BO.AddInitializers = true;
    BO.AddEHEdges = false;
    BO.PruneTriviallyFalseEdges = false;   // keep `if constexpr` / constant branches visible
    std::unique_ptr<CFG> cfg = CFG::buildCFG(FD, const_cast<Stmt*>(Body), &Ctx, BO);
    if (!cfg) {
      fo["cfg_failed"] = true;
      functions.push_back(std::move(fo));
      return;
    }
    ParentMap PM(const_cast<Stmt*>(Body));
    std::set<const Expr*> calleeRefs;
    collectCalleeRefs(Body, calleeRefs);
    if (auto* CD = dyn_cast<CXXConstructorDecl>(FD))
      for (const CXXCtorInitializer* I : CD->inits())
        if (I->getInit()) {
          collectCalleeRefs(I->getInit(), calleeRefs);
        }

    json::Array blocks;
    for (const CFGBlock* B : *cfg) {
      json::Object bo;
      bo["id"] = (int64_t)B->getBlockID();
      json::Array ev;
      for (const CFGElement& El : *B) {
        if (auto CS = El.getAs<CFGStmt>()) {
          emitEvents(CS->getStmt(), ev, PM, calleeRefs);
        } else if (auto CI = El.getAs<CFGInitializer>()) {
          const CXXCtorInitializer* I = CI->getInitializer();
          if (I->isAnyMemberInitializer() && I->getInit()) {
            // Calls inside a default member initialiser (`T x_ = f();`) are not separate CFG
            // elements: emit them here so that they are visible as call events.
            if (isa<CXXDefaultInitExpr>(I->getInit()->IgnoreImplicit())) {
              std::vector<const Stmt*> st{cast<CXXDefaultInitExpr>(I->getInit()->IgnoreImplicit())->getExpr()};
              std::vector<const Stmt*> post;
              while (!st.empty()) {
                const Stmt* X = st.back();
                st.pop_back();
                if (!X) continue;
                post.push_back(X);
                for (const Stmt* C : X->children()) st.push_back(C);
              }
              for (auto it = post.rbegin(); it != post.rend(); ++it)
                if (isa<CallExpr>(*it)) emitEvents(*it, ev, PM, calleeRefs);
            }
            json::Object o{{"k", "asg"}, {"op", "="}, {"init", true},
                           {"line", (int64_t)lineOf(I->getSourceLocation())}};
            const FieldDecl* F = I->getAnyMember();
            o["l"] = json::Object{{"k", "mem"}, {"n", qualName(F)}, {"ty", typeStr(F->getType())},
                                  {"tk", typeKind(F->getType())},
                                  {"b", json::Object{{"k", "this"}}}, {"arrow", true}};
            o["r"] = desc(I->getInit(), 1);
            ev.push_back(std::move(o));
          }
        }
      }
      bo["ev"] = std::move(ev);
      json::Array succ;
      for (auto SI = B->succ_begin(); SI != B->succ_end(); ++SI) {
        const CFGBlock* SB = SI->getReachableBlock();
        if (!SB) SB = SI->getPossiblyUnreachableBlock();
        if (SB) succ.push_back((int64_t)SB->getBlockID());
        else succ.push_back(nullptr);
      }
      bo["succ"] = std::move(succ);
      if (const Stmt* T = B->getTerminatorStmt()) {
        json::Object to{{"kind", termKind(T)}, {"line", (int64_t)lineOf(T->getBeginLoc())}};
        if (const Stmt* C = B->getTerminatorCondition())
          if (auto* CE = dyn_cast<Expr>(C)) {
            to["cond"] = desc(CE, 0);
            to["src"] = srcText(CE);
          }
        if (auto* IS = dyn_cast<IfStmt>(T))
          if (IS->isConstexpr()) to["constexpr"] = true;
        bo["term"] = std::move(to);
      }
      if (const Stmt* L = B->getLabel()) {
        json::Object lo;
        if (auto* CS = dyn_cast<CaseStmt>(L)) {
          Expr::EvalResult R;
          if (CS->getLHS() && !CS->getLHS()->isValueDependent() &&
              CS->getLHS()->EvaluateAsInt(R, Ctx)) {
            int64_t lo_v = R.Val.getInt().getExtValue(), hi_v = lo_v;
            if (CS->getRHS() && CS->getRHS()->EvaluateAsInt(R, Ctx))
              hi_v = R.Val.getInt().getExtValue();
            lo["case"] = json::Array{lo_v, hi_v};
          }
          lo["cdesc"] = desc(CS->getLHS(), 1);
        } else if (isa<DefaultStmt>(L)) {
          lo["default"] = true;
        } else if (auto* LS = dyn_cast<LabelStmt>(L)) {
          lo["label"] = LS->getName();
        }
        lo["line"] = (int64_t)lineOf(L->getBeginLoc());
        bo["label"] = std::move(lo);
      }
      if (B->hasNoReturnElement()) bo["noreturn"] = true;
      blocks.push_back(std::move(bo));
    }
    fo["entry"] = (int64_t)cfg->getEntry().getBlockID();
    fo["exit"] = (int64_t)cfg->getExit().getBlockID();
    fo["blocks"] = std::move(blocks);
    functions.push_back(std::move(fo));
  }

  // ---- visitors -----------------------------------------------------------------------------

  bool VisitFunctionDecl(FunctionDecl* FD) {
    processFunction(FD);
    return true;
  }
  bool VisitLambdaExpr(LambdaExpr* LE) {
    if (CXXMethodDecl* MD = LE->getCallOperator()) processFunction(MD);
    return true;
  }

  bool VisitCXXRecordDecl(CXXRecordDecl* RD) {
    if (!RD->isThisDeclarationADefinition() || RD->isLambda()) return true;
    if (!inRoot(RD->getLocation())) return true;
    if (RD->isDependentContext()) return true;
    std::string n = qualName(RD);
    if (!seenClass.insert(n).second) return true;
    json::Object co{{"name", n}, {"file", relFile(RD->getLocation())},
                    {"line", (int64_t)lineOf(RD->getLocation())}};
    json::Array bases, fields, methods;
    for (const CXXBaseSpecifier& B : RD->bases())
      if (const CXXRecordDecl* BD = B.getType()->getAsCXXRecordDecl()) bases.push_back(qualName(BD));
    for (const FieldDecl* F : RD->fields()) {
      json::Object fo{{"n", qualName(F)}, {"ty", typeStr(F->getType())},
                      {"tk", typeKind(F->getType())},
                      {"access", (int64_t)F->getAccess()}};
      if (F->hasInClassInitializer() && F->getInClassInitializer())
        fo["init"] = desc(F->getInClassInitializer(), 1);      // default member initialiser
      fields.push_back(std::move(fo));
    }
    for (const CXXMethodDecl* M : RD->methods()) {
      if (M->isImplicit()) continue;
      json::Object mo{{"id", funcId(M)}, {"name", funcName(M)}};
      if (M->isVirtual()) mo["virt"] = true;
      if (M->isPure()) mo["pure"] = true;
      if (M->isDeleted()) mo["deleted"] = true;
      mo["access"] = (int64_t)M->getAccess();
      json::Array ov;
      for (const CXXMethodDecl* O : M->overridden_methods()) ov.push_back(funcId(O));
      if (!ov.empty()) mo["overrides"] = std::move(ov);
      methods.push_back(std::move(mo));
    }
    co["bases"] = std::move(bases);
    co["fields"] = std::move(fields);
    co["methods"] = std::move(methods);
    classes.push_back(std::move(co));
    return true;
  }

  bool VisitEnumDecl(EnumDecl* ED) {
    if (!ED->isThisDeclarationADefinition() || !inRoot(ED->getLocation())) return true;
    std::string n = qualName(ED);
    if (n.empty()) n = "<anon>@" + relFile(ED->getLocation()) + ":" + std::to_string(lineOf(ED->getLocation()));
    if (!seenEnum.insert(n).second) return true;
    json::Array cs;
    for (const EnumConstantDecl* C : ED->enumerators())
      cs.push_back(json::Object{{"n", qualName(C)}, {"v", (int64_t)C->getInitVal().getExtValue()}});
    enums.push_back(json::Object{{"name", n}, {"file", relFile(ED->getLocation())},
                                 {"line", (int64_t)lineOf(ED->getLocation())},
                                 {"consts", std::move(cs)}});
    return true;
  }

  json::Value apvalue(const APValue& V, QualType T, int depth) {
    if (depth > 3) return nullptr;
    if (V.isInt()) return (int64_t)V.getInt().getExtValue();
    if (V.isArray()) {
      unsigned n = V.getArraySize();
      if (n > 4096) return nullptr;
      QualType ET = T;
      if (const ArrayType* AT = Ctx.getAsArrayType(T)) ET = AT->getElementType();
      json::Array a;
      for (unsigned i = 0; i < n; ++i) {
        const APValue& E = i < V.getArrayInitializedElts() ? V.getArrayInitializedElt(i) : V.getArrayFiller();
        json::Value ev = apvalue(E, ET, depth + 1);
        if (ev.kind() == json::Value::Null) return nullptr;
        a.push_back(std::move(ev));
      }
      return std::move(a);
    }
    if (V.isStruct()) {
      const CXXRecordDecl* RD = T->getAsCXXRecordDecl();
      if (!RD) return nullptr;
      json::Object o;
      unsigned i = 0;
      for (const FieldDecl* F : RD->fields()) {
        if (i >= V.getStructNumFields()) break;
        json::Value fv = apvalue(V.getStructField(i), F->getType(), depth + 1);
        if (fv.kind() != json::Value::Null) o[qualName(F)] = std::move(fv);
        ++i;
      }
      return std::move(o);
    }
    return nullptr;
  }

  bool VisitVarDecl(VarDecl* VD) {
    if (isa<ParmVarDecl>(VD)) return true;
    if (!VD->hasGlobalStorage()) return true;    // globals, static members, static locals
    if (!inRoot(VD->getLocation())) return true;
    if (VD->getDeclContext()->isDependentContext()) return true;
    const Expr* Init = VD->getAnyInitializer();
    std::string n = qualName(VD);
    if (VD->isStaticLocal()) {
      const DeclContext* DC = VD->getDeclContext();
      while (DC && !isa<FunctionDecl>(DC)) DC = DC->getParent();
      if (DC) n = funcName(cast<FunctionDecl>(DC)) + "::" + VD->getNameAsString();
    }
    if (!Init && seenGlobal.count(n)) return true;
    if (!seenGlobal.insert(n).second && !Init) return true;
    json::Object go{{"name", n}, {"ty", typeStr(VD->getType())}, {"tk", typeKind(VD->getType())},
                    {"file", relFile(VD->getLocation())},
                    {"line", (int64_t)lineOf(VD->getLocation())}};
    if (VD->getType().isConstQualified()) go["const"] = true;
    if (Init && !Init->isValueDependent()) {
      go["init"] = desc(Init, 0);
      if (VD->getType()->isIntegralOrEnumerationType()) {
        Expr::EvalResult R;
        if (Init->EvaluateAsInt(R, Ctx)) go["cv"] = (int64_t)R.Val.getInt().getExtValue();
      } else if (VD->getType().isConstQualified() &&
                 (VD->getType()->isRecordType() || VD->getType()->isArrayType())) {
        // a constant table (constexpr object / const array of integers): its evaluated value
        if (const APValue* V = VD->evaluateValue()) {
          json::Value t = apvalue(*V, VD->getType(), 0);
          if (t.kind() != json::Value::Null) go["cvtab"] = std::move(t);
        }
      }
    }
    globals.push_back(std::move(go));
    return true;
  }
};

class Consumer : public ASTConsumer {
 public:
  void HandleTranslationUnit(ASTContext& Ctx) override {
    if (Ctx.getDiagnostics().hasErrorOccurred()) {
      llvm::errs() << "nvx: parse errors, refusing to emit facts\n";
      return;
    }
    Extractor X(Ctx);
    X.TraverseDecl(Ctx.getTranslationUnitDecl());
    json::Object top;
    top["functions"] = std::move(X.functions);
    top["classes"] = std::move(X.classes);
    top["enums"] = std::move(X.enums);
    top["globals"] = std::move(X.globals);
    std::error_code EC;
    llvm::raw_fd_ostream os(g_out, EC);
    if (EC) {
      llvm::errs() << "nvx: cannot write " << g_out << ": " << EC.message() << "\n";
      return;
    }
    os << json::Value(std::move(top));
  }
};

class Action : public ASTFrontendAction {
 public:
  std::unique_ptr<ASTConsumer> CreateASTConsumer(CompilerInstance&, llvm::StringRef) override {
    return std::make_unique<Consumer>();
  }
};

}  // namespace

int main(int argc, const char** argv) {
  if (argc < 5) {
    llvm::errs() << "usage: nvx <out.json> <root> <file> -- <flags>\n";
    return 2;
  }
  g_out = argv[1];
  g_root = argv[2];
  std::string file = argv[3];
  std::string err;
  std::unique_ptr<tooling::FixedCompilationDatabase> DB =
      tooling::FixedCompilationDatabase::loadFromCommandLine(argc, argv, err);
  if (!DB) {
    llvm::errs() << "nvx: " << err << "\n";
    return 2;
  }
  tooling::ClangTool Tool(*DB, {file});
  int rc = Tool.run(tooling::newFrontendActionFactory<Action>().get());
  return rc;
}
