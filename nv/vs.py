"""Value-set abstract interpretation of the re2c-generated scanners (template VS).

Abstract state per program point:
  Y     set of values the scanner variable `yych` can have (256-bit mask)
  sync  `yych` is the byte under the cursor
  past  the cursor may have moved beyond the terminating NUL (i.e. may point outside the buffer)
  saved for every pointer local copied from the cursor (re2c marker, token start) and for the
        member the cursor is stored to: the `past` bit at the time of the copy
  tok   set of Lexer::Token values the local `token` can have (None = unknown)
  acc   set of values of `yyaccept`

Obligation: no read through the cursor while `past` is set.  `past` is set by advancing the
cursor from a byte that may be 0 (or is unknown), and cleared only by an explicit comparison of
the cursor with the end pointer.  The analysis is path-sensitive through state partitioning:
every block keeps the set of distinct states reaching it (joined when more than CAP)."""
from model import strip, dstr, const_value, walk, norm_cond, mentions_var

ALL = (1 << 256) - 1
CAP = 400


def bit(v):
    return 1 << (v & 255)


def rng(lo, hi):
    m = 0
    for v in range(max(lo, 0), min(hi, 255) + 1):
        m |= 1 << v
    return m


def popcount(m):
    return bin(m).count('1')


class State(tuple):
    """(Y, sync, past, saved(frozenset of (name, past)), tok, acc)"""
    __slots__ = ()

    def __new__(cls, Y=ALL, sync=False, past=False, saved=frozenset(), tok=None, acc=None, n=0):
        return tuple.__new__(cls, (Y, sync, past, saved, tok, acc, n))

    Y = property(lambda s: s[0])
    sync = property(lambda s: s[1])
    past = property(lambda s: s[2])
    saved = property(lambda s: s[3])
    tok = property(lambda s: s[4])
    acc = property(lambda s: s[5])
    n = property(lambda s: s[6])

    def with_(self, **kw):
        d = dict(Y=self.Y, sync=self.sync, past=self.past, saved=self.saved, tok=self.tok, acc=self.acc, n=self.n)
        d.update(kw)
        return State(**d)

    def saved_get(self, name):
        for n, p in self.saved:
            if n == name:
                return p
        return None

    def saved_set(self, name, past):
        return self.with_(saved=frozenset([(n, p) for n, p in self.saved if n != name] + [(name, past)]))


def join(a, b):
    def j(x, y):
        if x is None or y is None:
            return None
        return x | y
    sv = {}
    for n, p in list(a.saved) + list(b.saved):
        sv[n] = sv.get(n, False) or p
    return State(a.Y | b.Y, a.sync and b.sync, a.past or b.past, frozenset(sv.items()), j(a.tok, b.tok), j(a.acc, b.acc),
                 max(a.n, b.n))


class Scanner:
    def __init__(self, prog, f, init=None, read_masks=None):
        """read_masks: optional list of value masks assumed for the 1st, 2nd, ... byte read through
        the cursor on a path (used to ask "what happens for inputs starting with these bytes")."""
        self.read_masks = read_masks or []
        self.rets = set()
        self.prog = prog
        self.f = f
        self.cursor = None
        self.yych = set()
        self.endvar = None
        self.member = None          # member the cursor is loaded from / stored to (Lexer::ofs_)
        self.violations = []
        self.exits = []
        self.tables = {}
        self.states = 0
        self.transitions = 0
        self.reads = 0
        self.advances = 0
        self._discover()
        self.init = init

    # ---- discovery ------------------------------------------------------------------------------
    def _discover(self):
        f = self.f
        for e in f.events():
            if e['k'] in ('asg', 'decl'):
                l = strip(e['l']) if e['k'] == 'asg' else {'k': 'var', 'n': e['n']}
                r = e.get('r') if e['k'] == 'asg' else e.get('init')
                if isinstance(l, dict) and l.get('k') == 'var' and l['n'].split('#')[0] == 'yych' and r is not None:
                    self.yych.add(l['n'])
                    for x in walk(r):
                        if x.get('k') == 'un' and x['op'] == '*':
                            for y in walk(x['e']):
                                if y.get('k') == 'var' and y.get('tk') == 'ptr':
                                    self.cursor = self.cursor or y['n']
        if self.cursor is None:
            return
        for g in self.prog.globals.values():
            if g['name'].startswith(f.name + '::yybm') or g['name'] == f.name + '::yybm':
                vals = [const_value(x) for x in (g.get('init') or {}).get('e', [])]
                if len(vals) == 256 and all(v is not None for v in vals):
                    self.tables.setdefault('yybm', []).append(vals)
        # several re2c blocks in one function each have their own yybm: keyed by declaration order
        self.bm_by_line = {}
        for g in self.prog.globals.values():
            if g['name'].startswith(f.name + '::yybm'):
                vals = [const_value(x) for x in (g.get('init') or {}).get('e', [])]
                self.bm_by_line[g['line']] = vals
        for e in f.events('decl'):
            if e['n'] == self.cursor and e.get('init') is not None:
                for x in walk(e['init']):
                    if x.get('k') == 'mem':
                        self.member = x['n']
        for b in f.blocks.values():
            t = b.get('term')
            if t and 'cond' in t:
                c = strip(t['cond'])
                if isinstance(c, dict) and c.get('k') == 'bin' and c['op'] in ('<', '>=', '>', '<=') and \
                        isinstance(strip(c['l']), dict) and strip(c['l']).get('n') == self.cursor and \
                        isinstance(strip(c['r']), dict) and strip(c['r']).get('k') == 'var':
                    self.endvar = strip(c['r'])['n']

    def bm_for(self, line):
        """The yybm table in scope at a source line: the last one declared before it."""
        best = None
        for l, v in sorted(self.bm_by_line.items()):
            if l <= line:
                best = v
        return best

    # ---- transfer ------------------------------------------------------------------------------------
    def is_cursor(self, d):
        d = strip(d)
        return isinstance(d, dict) and d.get('k') == 'var' and d['n'] == self.cursor

    def reads_cursor(self, d):
        """descriptor dereferences the cursor itself (`*p`, `*++p`, `*(q = ++p)`)."""
        d = strip(d)
        if not (isinstance(d, dict) and d.get('k') == 'un' and d['op'] == '*'):
            return False
        x = strip(d['e'])
        while isinstance(x, dict):
            if x.get('k') == 'var':
                return x['n'] == self.cursor
            if x.get('k') == 'un' and x['op'] in ('pre++', 'post++'):
                x = strip(x['e'])
            elif x.get('k') == 'bin' and x['op'] == '=':
                x = strip(x['r'])
            else:
                return False
        return False

    def advance(self, st):
        self.advances += 1
        if st.sync and not (st.Y & 1):
            return st.with_(sync=False)
        return st.with_(sync=False, past=True)

    def step(self, st, e):
        k = e['k']
        if k == 'asg':
            l = strip(e['l'])
            op = e['op']
            if self.is_cursor(l) and op in ('++', '+='):
                return self.advance(st)
            if isinstance(l, dict) and l.get('k') == 'var' and op == '=':
                n = l['n']
                r = e.get('r')
                if n in self.yych:
                    if any(self.reads_cursor(x) for x in walk(r)):
                        if st.n < len(self.read_masks):
                            return st.with_(Y=self.read_masks[st.n], sync=True, n=st.n + 1)
                        return st.with_(Y=ALL, sync=True, n=min(st.n + 1, len(self.read_masks)))
                    return st.with_(Y=ALL, sync=False)
                if n == self.cursor:
                    sr = strip(r)
                    if isinstance(sr, dict) and sr.get('k') == 'var' and st.saved_get(sr['n']) is not None:
                        return st.with_(past=st.saved_get(sr['n']), sync=False)
                    if any(x.get('k') == 'un' and x['op'] in ('pre++', 'post++') and self.is_cursor(x['e']) for x in walk(r)):
                        return st
                    return st.with_(past=False, sync=False)
                if n.split('#')[0] == 'token':
                    v = const_value(r)
                    return st.with_(tok=frozenset([v]) if v is not None else None)
                if n.split('#')[0] == 'yyaccept':
                    v = const_value(r)
                    return st.with_(acc=frozenset([v]) if v is not None else None)
                if l.get('tk') == 'ptr' and mentions_var(r, self.cursor):
                    return st.saved_set(n, st.past)
                return st
            if isinstance(l, dict) and l.get('k') == 'mem' and op == '=' and self.is_cursor(e.get('r')):
                # cursor stored to a member (Lexer::ofs_): remember in which state
                st2 = st.saved_set('@' + l['n'], st.past)
                self.exits.append((self.f.where(e), l['n'], st.past, st.tok))
                return st2
            return st
        if k == 'decl':
            n = e['n']
            init = e.get('init')
            if n == self.cursor:
                return st.with_(past=False, sync=False)
            if n in self.yych or n.split('#')[0] == 'yych':
                return st.with_(Y=ALL, sync=False)
            if n.split('#')[0] == 'yyaccept':
                v = const_value(init)
                return st.with_(acc=frozenset([v]) if v is not None else None)
            if n.split('#')[0] == 'token':
                return st.with_(tok=None)
            if init is not None and e.get('tk') == 'ptr' and mentions_var(init, self.cursor):
                return st.saved_set(n, st.past)
            return st
        if k == 'deref':
            if self.reads_cursor({'k': 'un', 'op': '*', 'e': e['e']}):
                self.reads += 1
                if st.past:
                    self.violations.append((self.f.where(e), 'read through the cursor after it may have passed the '
                                            'terminating NUL', dstr(e['e'])))
            return st
        if k == 'ret':
            self.rets.add((self.f.where(e), dstr(e.get('e')), st.n))
            return st
        if k == 'call':
            nm = e.get('name') or ''
            if nm in SCANNER_FUNCS and self.member and st.saved_get('@' + self.member):
                self.violations.append((self.f.where(e), 'calls %s (which reads at %s) while %s may be past the '
                                        'terminating NUL' % (nm, self.member, self.member), nm))
            return st
        return st

    # ---- edges -----------------------------------------------------------------------------------------
    def refine(self, st, bid, idx):
        """State after taking successor #idx of block bid, or None if infeasible."""
        f = self.f
        b = f.blocks[bid]
        t = b.get('term')
        if not t or 'cond' not in t:
            return st
        if t['kind'] == 'switch':
            s = b['succ'][idx]
            c = strip(t['cond'])
            if not (isinstance(c, dict) and c.get('k') == 'var'):
                return st
            name = c['n']
            lab = f.blocks[s].get('label') if s is not None else None
            allcases = [f.blocks[x]['label']['case'] for x in b['succ'] if x is not None and
                        (f.blocks[x].get('label') or {}).get('case')]
            if lab and lab.get('case'):
                lo, hi = lab['case']
                vals = set(range(lo, hi + 1))
            else:
                covered = set()
                for lo, hi in allcases:
                    covered |= set(range(lo, hi + 1))
                vals = None
                notvals = covered
            if name in self.yych:
                m = rng(min(vals), max(vals)) if vals is not None else (ALL & ~sum(bit(v) for v in notvals))
                Y = st.Y & m
                return st.with_(Y=Y) if Y else None
            if name.split('#')[0] == 'yyaccept' and st.acc is not None:
                a = (st.acc & frozenset(vals)) if vals is not None else (st.acc - frozenset(notvals))
                return st.with_(acc=a) if a else None
            return st
        if len(b['succ']) != 2:
            return st
        c = f.eff_cond(bid)
        atom, pol = norm_cond(None, c)
        if idx == 1:
            pol = not pol
        a = strip(atom)
        if not isinstance(a, dict):
            return st
        # yybm[0+yych] & M
        if a.get('k') == 'bin' and a['op'] == '&':
            tbl = strip(a['l'])
            m = const_value(a['r'])
            if isinstance(tbl, dict) and tbl.get('k') == 'idx' and 'yybm' in dstr(tbl['b']) and m is not None and \
                    any(x.get('k') == 'var' and x['n'] in self.yych for x in walk(tbl['i'])):
                bm = self.bm_for(t.get('line', 0))
                if bm is None:
                    return st
                mask = 0
                for v in range(256):
                    if bm[v] & m:
                        mask |= 1 << v
                Y = st.Y & (mask if pol else (ALL & ~mask))
                return st.with_(Y=Y) if Y else None
            return st
        if a.get('k') == 'bin' and a['op'] in ('<', '=='):
            l, r = strip(a['l']), strip(a['r'])
            lv, rv = const_value(l), const_value(r)

            def isy(d):
                return isinstance(d, dict) and d.get('k') == 'var' and d['n'] in self.yych
            if a['op'] == '<':
                if isy(l) and rv is not None:
                    m = rng(0, rv - 1)
                elif isy(r) and lv is not None:
                    m = rng(lv + 1, 255)
                elif isinstance(l, dict) and l.get('k') == 'var' and l['n'] == self.cursor and \
                        isinstance(r, dict) and r.get('k') == 'var' and r['n'] == self.endvar:
                    # cursor < end : the cursor is inside the buffer again
                    return st.with_(past=False) if pol else st
                else:
                    return st
                Y = st.Y & (m if pol else (ALL & ~m))
                return st.with_(Y=Y) if Y else None
            if a['op'] == '==':
                if isy(l) and rv is not None:
                    Y = st.Y & (bit(rv) if pol else (ALL & ~bit(rv)))
                    return st.with_(Y=Y) if Y else None
                for name, attr in (('token', 'tok'), ('yyaccept', 'acc')):
                    if isinstance(l, dict) and l.get('k') == 'var' and l['n'].split('#')[0] == name and rv is not None:
                        cur = getattr(st, attr)
                        if cur is None:
                            return st
                        new = (cur & frozenset([rv])) if pol else (cur - frozenset([rv]))
                        return st.with_(**{attr: new}) if new else None
        return st

    # ---- fixpoint ----------------------------------------------------------------------------------------
    def run(self):
        f = self.f
        if self.cursor is None:
            return False
        states = {bid: set() for bid in f.blocks}
        init = self.init or State()
        states[f.entry].add(init)
        work = [(f.entry, init)]
        self.block_exit = {}
        while work:
            bid, st = work.pop()
            self.states += 1
            cur = st
            for e in f.blocks[bid]['ev']:
                cur = self.step(cur, e)
            b = f.blocks[bid]
            if b.get('noreturn'):
                continue
            for idx, s in enumerate(b['succ']):
                if s is None:
                    continue
                nxt = self.refine(cur, bid, idx)
                if nxt is None:
                    continue
                self.transitions += 1
                if nxt in states[s]:
                    continue
                if len(states[s]) >= CAP:
                    j = nxt
                    for o in states[s]:
                        j = join(j, o)
                    if j in states[s]:
                        continue
                    states[s] = {j}
                    work.append((s, j))
                else:
                    states[s].add(nxt)
                    work.append((s, nxt))
        self.final = states
        # de-duplicate reports
        self.violations = sorted(set(self.violations))
        self.exits = sorted(set((w, m, p, tuple(sorted(t)) if t is not None else None) for w, m, p, t in self.exits))
        return True


SCANNER_FUNCS = set()


def scanner_functions(prog):
    """Functions that contain a re2c scanner: they assign `yych` from a pointer dereference."""
    out = []
    for f in prog.functions.values():
        if any(e['k'] in ('decl',) and e['n'].split('#')[0] == 'yych' for e in f.events('decl')):
            out.append(f)
    SCANNER_FUNCS.clear()
    SCANNER_FUNCS.update(f.name for f in out)
    return out
