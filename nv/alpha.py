"""Alpha-normalisation of local names: rules are written against the names the code had when they were
confirmed by reading (nv/design_time_names.json, one entry per function: parameters by position, locals with type and
initialiser).  A refactoring that only renames a parameter or a local must not change any verdict, so before the rules
run, a name of the current tree that the reference does not know is mapped back to the reference name it stands for:

  * parameters by position (same count, same types - the function id already fixes the types);
  * a local to the reference local that is missing from the current function and has the same type and, after the
    mapping found so far, textually the same initialiser (several such twins are paired in declaration order).  A local without initialiser is mapped only if it is the only
    unknown local of its type and exactly one reference local of that type is missing.

Nothing is mapped when the declaration differs in type or initialiser (`const bool force = ...("generator")` does not
become `restat`), so a change of meaning keeps its new name and the rules see it as what it is.

python3 nv/alpha.py --snapshot   regenerates the reference from NV_REPO (done once, on the tree the rules were read on)."""
import json
import os
import sys

HERE = os.path.dirname(os.path.abspath(__file__))
REF = os.path.join(HERE, 'design_time_names.json')


def _walk(d):
    st = [d]
    while st:
        x = st.pop()
        if isinstance(x, dict):
            yield x
            st.extend(v for v in x.values() if isinstance(v, (dict, list)))
        elif isinstance(x, list):
            st.extend(v for v in x if isinstance(v, (dict, list)))


def _text(d, ren=None):
    """Canonical text of an initialiser with variable names mapped through ren."""
    if isinstance(d, dict):
        if d.get('k') == 'var':
            n = d.get('n', '')
            return 'v:' + (ren.get(n, n) if ren else n)
        return '{' + ','.join('%s=%s' % (k, _text(d[k], ren)) for k in sorted(d) if k not in ('line', 'src', 'col', '_b', '_i')) + '}'
    if isinstance(d, list):
        return '[' + ','.join(_text(x, ren) for x in d) + ']'
    return repr(d)


def _locals(F):
    out = []
    for b in F.get('blocks', []):
        for e in b.get('ev', []):
            if e.get('k') == 'decl' and not e.get('static'):
                out.append(e)
    out.sort(key=lambda e: (e.get('line', 0), e.get('n', '')))
    return out


def snapshot(facts):
    ref = {}
    for fid, F in facts['functions'].items():
        if F.get('lambda') or F.get('tmpl') or not F.get('blocks'):
            continue
        if (F.get('file') or '').endswith(('_test.cc', 'test.cc')) or 'third_party' in (F.get('file') or ''):
            continue
        ref[fid] = {'params': [[p.get('n', ''), p.get('ty', '')] for p in F.get('params', [])],
                    'locals': [[e['n'], e.get('ty', ''), _text(e.get('init')) if e.get('init') is not None else None] for e in _locals(F)]}
    return ref


def mapping_for(F, R):
    ren = {}
    ps = F.get('params', [])
    if len(ps) == len(R['params']) and all(p.get('ty', '') == rp[1] for p, rp in zip(ps, R['params'])):
        for p, rp in zip(ps, R['params']):
            if p.get('n') and rp[0] and p['n'] != rp[0]:
                ren[p['n']] = rp[0]
    cur = _locals(F)
    cur_names = {e['n'] for e in cur} | {p.get('n') for p in ps}
    ref_names = {l[0] for l in R['locals']} | {rp[0] for rp in R['params']}
    # a parameter may only take a reference name that is free in the current function
    ren = {a: b for a, b in ren.items() if b not in cur_names}
    missing = [l for l in R['locals'] if l[0] not in cur_names]
    unknown = [e for e in cur if e['n'] not in ref_names]
    for e in unknown:
        ty = e.get('ty', '')
        if e.get('init') is not None:
            t = _text(e['init'], ren)
            cands = [l for l in missing if l[1] == ty and l[2] == t]
        else:
            cands = [l for l in missing if l[1] == ty and l[2] is None]
            if len([u for u in unknown if u.get('ty', '') == ty and u.get('init') is None]) != 1:
                cands = []
        # several missing locals with the same type and initialiser (the same helper variable declared in several
        # scopes: `int len = (int)(in - start)` three times): they are interchangeable, pair them in declaration order
        if len(cands) == 1 or (len(cands) > 1 and e.get('init') is not None):
            ren[e['n']] = cands[0][0]
            missing.remove(cands[0])
    return ren


def normalise(facts):
    """Maps renamed parameters / locals back to their reference names, in place.  Returns {fid: {new: ref}}."""
    try:
        ref = json.load(open(REF))
    except (OSError, ValueError):
        return {}
    done = {}
    for fid, F in facts['functions'].items():
        R = ref.get(fid)
        if R is None or not F.get('blocks'):
            continue
        ren = mapping_for(F, R)
        if not ren:
            continue
        for p in F.get('params', []):
            if p.get('n') in ren:
                p['n'] = ren[p['n']]
        for x in _walk(F.get('blocks')):
            k = x.get('k')
            if k in ('var', 'decl') and x.get('n') in ren:
                x['n'] = ren[x['n']]
        done[fid] = ren
    # lambdas see the locals of the function they are written in under the same names
    for fid, F in facts['functions'].items():
        if not F.get('lambda'):
            continue
        for outer, ren in done.items():
            if fid.startswith(outer.split('(')[0] + '::lambda@'):
                for x in _walk(F.get('blocks')):
                    if x.get('k') == 'var' and x.get('n') in ren and x.get('vk') != 'param':
                        x['n'] = ren[x['n']]
    return done


if __name__ == '__main__':
    if '--snapshot' in sys.argv:
        sys.path.insert(0, HERE)
        import facts as _f
        os.environ['NV_NO_ALPHA'] = '1'
        fx, info = _f.load_facts()
        json.dump(snapshot(fx), open(REF, 'w'), indent=0, sort_keys=True)
        print('wrote %s (%d functions)' % (REF, len(json.load(open(REF)))))
