"""C18 — cleaning removes only what ninja built, and all of it (DESIGN 5.18)."""
from facts import AnalysisBroken
from model import (norm_cond, dstr, strip, fact_holds, mentions_field, mentions_call, mentions_var,
                   const_value, walk)
from rules import (local_container_pushes, deep_resolve, lastname, guarded, calls_to, who_may_call, dominated_by, full_range, loops_over,
                   every_iteration_passes, basename, origins, skip_conditions_exact,
                   reached_only_via)

SCOPES = {
    'Cleaner::CleanAll': 'everything',
    'Cleaner::DoCleanTarget': 'by target',
    'Cleaner::DoCleanRule': 'by rule',
}
PUBLIC = ['Cleaner::CleanAll', 'Cleaner::CleanTargets', 'Cleaner::CleanRules', 'Cleaner::CleanDead']


def phony_atom(a):
    return mentions_field(a, 'Rule::phony_') or mentions_call(a, 'Edge::is_phony')


def is_generator_edge(ef):
    """The branch edge means "this statement has the generator binding set"."""
    key, pol, atom = ef
    a = strip(atom)
    if isinstance(a, dict) and a.get('k') == 'call' and basename(a.get('name') or '') == 'empty':
        return pol is False            # !GetBinding("generator").empty()
    return pol is True                 # GetBindingBool("generator")


def classify_origin(o):
    s = dstr(o)
    so = strip(o) if isinstance(o, dict) else o
    if isinstance(so, dict) and so.get('k') == 'call' and so.get('name') == 'Node::path':
        r = so.get('recv')
        rs = dstr(r)
        if 'Edge::outputs_' in rs and 'inputs_' not in rs and 'validations_' not in rs:
            return 'output-path'
        return 'node-path:' + rs[:60]
    if isinstance(so, dict) and so.get('k') == 'call' and so.get('name') == 'Edge::GetUnescapedDepfile':
        return 'depfile'
    if isinstance(so, dict) and so.get('k') == 'call' and so.get('name') == 'Edge::GetUnescapedRspfile':
        return 'rspfile'
    if 'AsString' in s and ('entries' in s or 'first' in s):
        return 'log-key'
    return 'other:' + s[:70]


def run(ctx):
    prog = ctx.prog
    R = ctx.rule
    cl = [f for f in prog.functions.values() if f.cls == 'Cleaner']
    if len(cl) < 15:
        raise AnalysisBroken('only %d Cleaner methods found' % len(cl))

    # ---- W1: who may delete ------------------------------------------------------------------------
    R('C18.W1', 'W', 'inside the cleaner, files are removed only through Cleaner::Remove -> '
      'Cleaner::RemoveFile -> DiskInterface::RemoveFile, and only when not in a dry run')
    for f in cl:
        for eff, e in prog.direct_effects(f):
            if eff.startswith('fs-'):
                ctx.violation('C18.W1', f.name, 'raw-fs-effect:%s' % e.get('name'), f.where(e),
                              'Cleaner method %s performs a raw file-system effect %s' % (f.name, e.get('name')))
        for e in f.calls('DiskInterface::RemoveFile'):
            ctx.check('C18.W1', f.name == 'Cleaner::RemoveFile', f.name, 'DiskInterface::RemoveFile:site',
                      f.where(e), 'DiskInterface::RemoveFile is called only by Cleaner::RemoveFile')
        for e in f.calls():
            if e.get('name') in ('DiskInterface::WriteFile', 'DiskInterface::MakeDirs', 'DiskInterface::MakeDir'):
                ctx.violation('C18.W1', f.name, 'cleaner-writes:%s' % e.get('name'), f.where(e),
                              'Cleaner method %s writes to the file system' % f.name)
    who_may_call(ctx, 'C18.W1', 'Cleaner::RemoveFile', {'Cleaner::Remove': 'the single removal site'}, 'removal')
    # the clean tools change nothing on disk except through that site (so a dry run, which is decided there, changes
    # nothing at all): from NinjaMain::ToolClean / ToolCleanDead no file-system mutation is reachable on a call path that
    # does not go through Cleaner::RemoveFile (the logs are not rewritten, nothing is created)
    MUT = ('fs-write', 'fs-remove', 'fs-mkdir', 'fs-rename', 'fs-truncate', 'fs-open-write', 'spawn', 'buildlog-append', 'depslog-append')
    rmf = prog.fn('Cleaner::RemoveFile').id
    ntool = 0
    for tname in ('NinjaMain::ToolClean', 'NinjaMain::ToolCleanDead'):
        for tf in prog.fns(tname):
            ntool += 1
            seen, work, hit = {tf.id}, [(tf.id, [tf.name])], None
            while work and hit is None:
                fid, chain = work.pop()
                g = prog.functions[fid]
                for eff_, ev in prog.direct_effects(g):
                    if eff_ in MUT or eff_.startswith('fs-') and eff_ not in ('fs-read', 'fs-stat'):
                        hit = (eff_, chain + ['%s: %s' % (g.where(ev), ev.get('name'))])
                        break
                for ev in list(g.events('call')) + list(g.events('new')):
                    for t in (prog.call_targets(ev) if ev['k'] == 'call' else [ev.get('fn')]):
                        if t in prog.functions and t not in seen and t != rmf:
                            seen.add(t)
                            work.append((t, chain + [prog.functions[t].name]))
            ctx.check('C18.W1', hit is None, tf.name, 'clean-tool:mutation-outside-RemoveFile', tf.loc,
                      '%s reaches no file-system mutation except through Cleaner::RemoveFile (%d functions in its call cone)' % (tf.name, len(seen)),
                      witness=None if hit is None else {'effect': hit[0], 'call_chain': hit[1][-6:]})
    ctx.check('C18.W1', ntool == 2, 'NinjaMain', 'clean-tool:anchors', 'src/ninja.cc', 'ToolClean and ToolCleanDead found')
    rm = prog.fn('Cleaner::Remove')
    for e in rm.calls('Cleaner::RemoveFile'):
        guarded(ctx, 'C18.W1', rm, e, lambda a: mentions_field(a, 'BuildConfig::dry_run'), False,
                'nothing is removed in a dry run', construct='Remove:dry-run-unguarded')
    for e in rm.calls('Cleaner::Report'):
        facts = rm.facts_at(e)
        ok = fact_holds(facts, lambda a: mentions_call(a, 'Cleaner::FileExists') or
                        mentions_call(a, 'DiskInterface::Stat'), True) or \
            fact_holds(facts, lambda a: isinstance(strip(a), dict) and strip(a).get('k') == 'bin' and strip(a).get('op') == '==' and
                       const_value(strip(a).get('r')) == 0 and any(mentions_call(x_, n_) for x_ in (strip(a).get('l'), deep_resolve(rm, strip(a).get('l')))
                                                        for n_ in ('Cleaner::RemoveFile', 'DiskInterface::RemoveFile')), True)
        ctx.check('C18.W1', ok, rm.name, 'Remove:report-unconditional', rm.where(e),
                  'a file is reported only if it exists (dry run) or was removed (ret == 0)')
    # ... and "all of it": a path given to Remove is acted on (removed, or listed in a dry run) unless this very path
    # was handled before - an earlier error, a counter, a flag are not reasons to leave the rest of the files behind
    acts = [e for e in rm.events('call') if e.get('name') in ('Cleaner::RemoveFile', 'Cleaner::FileExists')]
    def handled_before(b, i, s2):
        return not any(pol is True and (mentions_call(a, 'Cleaner::IsAlreadyRemoved') or mentions_field(a, 'Cleaner::removed_'))
                       for k, pol, a in rm.edge_facts(b, i))
    r = rm.find_path(None, lambda x: x['k'] in ('ret', 'exit'), from_succ=rm.entry, is_blocker=lambda x: x in acts, edge_ok=handled_before)
    ctx.check('C18.W1', bool(acts) and r is None, rm.name, 'Remove:skipped-for-another-reason', rm.loc,
              'Cleaner::Remove acts on every path that was not removed already',
              witness=None if r is None else {'blocks': r[0]})
    ctx.floor('C18.W1', 6)

    # ---- V1: provenance of every removed path --------------------------------------------------
    R('C18.V1', 'V', 'every path given to Cleaner::Remove is the path of an element of some '
      'Edge::outputs_, an edge\'s depfile or rspfile, or a build-log key under the dead guard')
    n = 0
    for f, e in calls_to(prog, 'Cleaner::Remove'):
        n += 1
        os_ = origins(f, e['args'][0])
        # collect-then-act: paths gathered in a local container and removed in a second loop are judged where they are
        # selected (the push), with the facts that hold there
        sel = [e]
        flows = [local_container_pushes(f, o) for o in os_]
        if os_ and all(flows):
            sel = [pe for fl in flows for pe, pv in fl]
            os_ = [o2 for fl in flows for pe, pv in fl for o2 in origins(f, pv)]
        kinds = sorted({classify_origin(o) for o in os_})
        ok = bool(kinds) and all(k in ('output-path', 'depfile', 'rspfile', 'log-key') for k in kinds)
        ctx.check('C18.V1', ok, f.name, 'Remove-arg:%s' % ','.join(kinds), f.where(e),
                  'Remove(%s) in %s removes %s' % (dstr(e['args'][0])[:50], f.name, kinds))
        if 'log-key' in kinds:
            # dead guard: !n || (!n->in_edge() && n->out_edges().empty())
            bad = None
            alive_kinds = set()

            def dead_test(atom, pol):
                """kind of a test that says "dead" with this polarity: no producer / no consumers"""
                if mentions_field(atom, 'Node::in_edge_') and '&&' not in dstr(atom) and '||' not in dstr(atom):
                    return 'producer' if pol is False else None
                k = dstr(atom)
                if 'validation_out_edges' in k and 'empty' in k and '&&' not in k and '||' not in k:
                    return 'validated-edges' if pol is True else None
                if 'out_edges' in k and 'empty' in k and '&&' not in k and '||' not in k:
                    return 'consumers' if pol is True else None
                return None
            for bid, b in f.blocks.items():
                for i, s in enumerate(b['succ']):
                    if s is None:
                        continue
                    kinds = set()
                    for k, pol, atom in f.edge_facts(bid, i, all=True):
                        a = strip(atom)
                        # alive: a single test says "has a producer" / "has consumers" ...
                        dk = dead_test(atom, not pol)
                        if dk:
                            kinds.add(dk)
                        # ... or the conjunction `no producer && no consumers` (computed as a value) came out false
                        if isinstance(a, dict) and a.get('k') == 'bin' and a['op'] == '&&' and pol is False:
                            parts, st = [], [a]
                            while st:
                                x = strip(st.pop())
                                if isinstance(x, dict) and x.get('k') == 'bin' and x['op'] == '&&':
                                    st += [x['l'], x['r']]
                                else:
                                    parts.append(norm_cond(prog, x))
                            pk = {dead_test(pa, pp) for pa, pp in parts}
                            if None not in pk:
                                kinds |= pk
                    if kinds:
                        alive_kinds |= kinds
                        r = f.find_path(None, lambda x: any(x is se for se in sel), from_succ=s, init_facts=frozenset((k, p) for k, p, a in f.edge_facts(bid, i, all=True)),
                                        is_blocker=lambda x: x['k'] == 'call' and x.get('name') == 'State::LookupNode')
                        if r is not None:
                            bad = (sorted(kinds), r[0])
            ctx.check('C18.V1', alive_kinds == {'producer', 'consumers', 'validated-edges'}, f.name, 'dead-guard:tests-absent', f.where(e),
                      'whether a log key is dead is decided by looking at the node\'s producer, its consumers and the edges it validates '
                      '(every way a node appears in the graph; tests found: %s)' % sorted(alive_kinds))
            ctx.check('C18.V1', bad is None, f.name, 'dead-guard:weakened', f.where(e),
                      'a log key is removed only if its node is unknown or appears nowhere in the graph (no producer, no consumer, validates nothing)',
                      witness=None if bad is None else {'fact': bad[0], 'blocks': bad[1]})
            reached_only_via(ctx, 'C18.V1', f, e, lambda a: True, None, 'n/a', 'n/a') if False else None
            # a file can also appear in the graph as a discovered dependency (deps log): a node created by the deps log has no
            # edge until a scan splices it in, so the edge tests above cannot see that use - the decision has to ask the deps log
            asks_deps = any((x.get('name') or '').startswith('DepsLog::') for g in [f] + [prog.functions[t] for c in f.events('call') for t in prog.call_targets(c) if t in prog.functions]
                            for x in g.events('call'))
            ctx.check('C18.V1', asks_deps, f.name, 'dead-guard:deps-log-users-ignored', f.where(e),
                      'before a log key is removed as dead, the deps log is asked whether a recorded dependency list still names the file')
    ctx.floor('C18.V1', 6)

    # ---- TA1: sibling guards of the three scopes ----------------------------------------------
    R('C18.TA1', 'TA', 'the three clean scopes remove outputs under the same exclusions: never a '
      'phony statement\'s names, and generator outputs only with -g')
    for name, what in SCOPES.items():
        f = prog.fn(name)
        sites = [e for e in f.calls('Cleaner::Remove')
                 if any(classify_origin(o) == 'output-path' for o in origins(f, e['args'][0]))]
        if not sites:
            ctx.violation('C18.TA1', name, 'scope:no-output-removal', f.loc,
                          'clean scope "%s" no longer removes outputs' % what)
            continue
        for e in sites:
            guarded(ctx, 'C18.TA1', f, e, phony_atom, False,
                    'scope "%s": outputs of phony statements are never removed' % what,
                    construct='phony-guard-missing')
        for e in f.calls('Cleaner::RemoveEdgeFiles'):
            guarded(ctx, 'C18.TA1', f, e, phony_atom, False,
                    'scope "%s": depfile/rspfile of phony statements are never removed' % what,
                    construct='phony-guard-missing:RemoveEdgeFiles')
        # generator exclusion: a branch on GetBindingBool("generator") whose true side (with the
        # -g flag off) cannot reach the removal
        gen_edges = []
        for bid, b in f.blocks.items():
            for i, s in enumerate(b['succ']):
                ef = f.edge_fact(bid, i)
                if ef and '"generator"' in ef[0] and s is not None and is_generator_edge(ef):
                    gen_edges.append((bid, s, ef))
        if not gen_edges:
            ctx.violation('C18.TA1', name, 'generator-guard-missing', f.loc,
                          'scope "%s" removes outputs of generator rules without -g (no test of the '
                          'generator binding)' % what)
        for bid, s, ef in gen_edges:
            for e in sites:
                r = f.find_path(None, lambda x: x is e, from_succ=s, init_facts=[(ef[0], ef[1])],
                                is_blocker=lambda x: x['k'] == 'call' and
                                basename(x.get('name') or '').startswith('operator++'))
                ctx.check('C18.TA1', r is None, name, 'generator-guard-ineffective', f.where(e),
                          'scope "%s": a generator statement is skipped unless -g' % what)
    ctx.floor('C18.TA1', 8)

    # ---- O1: completeness ----------------------------------------------------------------------------
    R('C18.O1', 'O', 'every edge / every output in scope is visited; depfile and rspfile are '
      'covered; dyndep files are loaded before anything is removed')
    ca = prog.fn('Cleaner::CleanAll')
    full_range(ctx, 'C18.O1', ca, 'State::edges_', 'clean all visits every build statement')
    full_range(ctx, 'C18.O1', ca, 'Edge::outputs_', 'all outputs of a statement')
    dr = prog.fn('Cleaner::DoCleanRule')
    full_range(ctx, 'C18.O1', dr, 'State::edges_', 'clean by rule visits every build statement')
    full_range(ctx, 'C18.O1', dr, 'Edge::outputs_', 'all outputs of a statement')
    # statements are selected by the *name* of their rule: rules are scoped per file, a subninja file may declare a rule
    # of the same name, and `-t clean -r NAME` means all of them (comparing Rule objects would keep their outputs)
    for e in list(dr.calls('Cleaner::Remove')) + list(dr.calls('Cleaner::RemoveEdgeFiles')):
        guarded(ctx, 'C18.O1', dr, e, lambda a: dstr(a).count('Rule::name') >= 2 and ('operator==' in dstr(a) or '==' in dstr(a)), True,
                'clean by rule selects statements by comparing rule names', construct='DoCleanRule:not-by-name')
    dt = prog.fn('Cleaner::DoCleanTarget')
    full_range(ctx, 'C18.O1', dt, 'Edge::outputs_', 'all outputs of the target\'s statement')
    full_range(ctx, 'C18.O1', dt, 'Edge::inputs_', 'clean by target descends into every input')
    for name in SCOPES:
        f = prog.fn(name)
        ctx.check('C18.O1', any(True for _ in f.calls('Cleaner::RemoveEdgeFiles')), name,
                  'scope:no-RemoveEdgeFiles', f.loc, '%s also removes depfile and rspfile' % name)
    ref = prog.fn('Cleaner::RemoveEdgeFiles')
    kinds = set()
    for e in ref.calls('Cleaner::Remove'):
        kinds |= {classify_origin(o) for o in origins(ref, e['args'][0])}
    ctx.check('C18.O1', kinds == {'depfile', 'rspfile'}, ref.name, 'RemoveEdgeFiles:kinds', ref.loc,
              'RemoveEdgeFiles removes the depfile and the rspfile (%s)' % sorted(kinds))
    for e in ref.calls('Cleaner::Remove'):
        a = strip(e['args'][0])
        v = dstr(a)
        def empty_edge(b, i, s2, v=v):
            for k, pol, atom in ref.edge_facts(b, i):
                sa = strip(atom)
                if pol is True and isinstance(sa, dict) and sa.get('k') == 'call' and lastname(sa.get('name')) == 'empty' and \
                        dstr(strip(sa.get('recv'))) == v:
                    return False
            return True
        r = ref.find_path(None, lambda x: x['k'] in ('exit', 'ret'), from_succ=ref.entry, is_blocker=lambda x: x is e,
                          edge_ok=empty_edge)
        ctx.check('C18.O1', r is None, ref.name, 'RemoveEdgeFiles:skipped:%s' % v[:40], ref.where(e),
                  'Remove(%s) is skipped only when the edge has no such file (.empty())' % v[:60],
                  witness=None if r is None else {'blocks': r[0]})
    for name in PUBLIC:
        f = prog.fn(name)
        lds = [x for x in f.calls('Cleaner::LoadDyndeps') if not x.get('args')]        # the load-everything form
        work = [e for e in f.calls() if e.get('name') in ('Cleaner::Remove', 'Cleaner::DoCleanTarget',
                                                           'Cleaner::DoCleanRule', 'Cleaner::RemoveEdgeFiles')]
        ok = bool(lds) and bool(work) and all(f.dominates_ev(lds[0], w) for w in work)
        ctx.check('C18.O1', ok, name, 'entry:no-LoadDyndeps-first', f.loc,
                  '%s loads dyndep files before removing anything' % name)
    for name in ('Cleaner::CleanTarget', 'Cleaner::CleanRule'):
        for f in prog.fns(name):
            if any(True for _ in f.calls('Cleaner::DoCleanTarget')) or any(True for _ in f.calls('Cleaner::DoCleanRule')):
                lds = [x for x in f.calls('Cleaner::LoadDyndeps') if not x.get('args')]
                work = [e for e in f.calls() if e.get('name') in ('Cleaner::DoCleanTarget', 'Cleaner::DoCleanRule')]
                ctx.check('C18.O1', bool(lds) and all(f.dominates_ev(lds[0], w) for w in work), f.name,
                          'entry:no-LoadDyndeps-first', f.loc, '%s loads dyndep files first' % f.name)
    ld = prog.fn('Cleaner::LoadDyndeps', nparams=0)
    full_range(ctx, 'C18.O1', ld, 'State::edges_', 'dyndep files of all statements are considered')
    for l in loops_over(ld, 'State::edges_'):
        skip_conditions_exact(
            ctx, 'C18.O1', ld, l, lambda x: x['k'] == 'call' and x.get('name') == 'DyndepLoader::LoadDyndeps',
            [(lambda a: strip(a).get('k') == 'var' and strip(a)['n'].split('#')[0] == 'dyndep', False),
             (lambda a: mentions_field(a, 'Edge::dyndep_') and not mentions_field(a, 'Node::dyndep_pending_'), False),
             (lambda a: mentions_field(a, 'Node::dyndep_pending_') or mentions_call(a, 'Node::dyndep_pending'), False)],
            'a dyndep file is skipped only if the statement has none or it is already loaded',
            'Cleaner::LoadDyndeps:extra-skip')
    # visited set before descent (recursion over a possibly cyclic manifest)
    rec = list(dt.calls('Cleaner::DoCleanTarget'))
    for e in rec:
        dominated_by(ctx, 'C18.O1', dt, e, lambda x: x['k'] == 'call' and basename(x.get('name') or '') == 'insert'
                     and mentions_field(x.get('recv'), 'Cleaner::cleaned_'),
                     'the target is marked visited before the descent', 'DoCleanTarget:mark-after-descent')
        guarded(ctx, 'C18.O1', dt, e, lambda a: mentions_field(a, 'Cleaner::cleaned_'), None,
                'descent only into inputs not yet visited', construct='DoCleanTarget:descent-unguarded')
    # ... and into every one of them: the visited set is the only reason to leave an input out (what a phony alias or a
    # source file leads to is decided one level down, by the statement that produces it - or by there being none)
    for l in loops_over(dt, 'Edge::inputs_'):
        in_cleaned = lambda a: mentions_field(a, 'Cleaner::cleaned_')
        skip_conditions_exact(ctx, 'C18.O1', dt, l, lambda x: x['k'] == 'call' and x.get('name') == 'Cleaner::DoCleanTarget',
                              [(in_cleaned, True), (in_cleaned, False)],
                              'clean by target leaves an input out of the descent only because it was visited already',
                              'DoCleanTarget:input-skipped')
    # "nothing to remove" is what remove() itself reported (ENOENT), not the answer of a query that follows symlinks
    rmf = prog.fn('RealDiskInterface::RemoveFile')
    for e in rmf.events('ret'):
        if const_value(e.get('e')) == 1:
            guarded(ctx, 'C18.O1', rmf, e, lambda a: mentions_call(a, 'remove') or mentions_call(a, 'unlink'), True,
                    'RemoveFile reports "not there" only after remove()/unlink() failed', construct='RemoveFile:absent-verdict-not-from-remove')
    probes = [e for e in rmf.events('call') if e.get('name') in ('access', 'stat', 'stat64', 'fopen', 'open', 'faccessat')]
    ctx.check('C18.O1', not probes, rmf.name, 'RemoveFile:symlink-following-probe', rmf.loc,
              'RemoveFile does not probe the path with a call that follows symlinks (%s)' % [e['name'] for e in probes])
    ctx.floor('C18.O1', 18)
