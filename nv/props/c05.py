"""C05 — failures are contained, reported, never recorded as success (DESIGN 5.5)."""
from facts import AnalysisBroken
from model import mentions_enum, dstr, strip, fact_holds, mentions_field, mentions_call, mentions_var, const_value
from props.scan_common import check_build_exit_codes
from rules import (guarded, calls_to, field_writes, who_may_write, error_discipline, atom_cmp,
                   is_enum, is_var, is_field, has_field, anything, must_pass, basename, origins, deep_resolve)

STATUS = 'BuildResult::CommandCompleted::status'


def success_atom(a):
    """`<something>.status == ExitSuccess` or `exit_status() == ExitSuccess`."""
    a = strip(a)
    return isinstance(a, dict) and a.get('k') == 'bin' and a['op'] == '==' and \
        is_enum('ExitSuccess')(a['r']) and (mentions_field(a['l'], STATUS) or
                                            mentions_call(a['l'], 'BuildResult::exit_status'))


def result_is(enum):
    def p(a):
        a = strip(a)
        if not (isinstance(a, dict) and a.get('k') == 'bin' and a['op'] == '=='):
            return False
        l = strip(a['l'])
        return is_enum(enum)(a['r']) and isinstance(l, dict) and l.get('k') == 'var' and \
            'EdgeResult' in (l.get('ty') or '')
    return p


def phony_atom(a):
    return mentions_field(a, 'Rule::phony_') or mentions_call(a, 'Edge::is_phony')


def want_nothing_atom(a):
    a = strip(a)
    return isinstance(a, dict) and a.get('k') == 'bin' and a['op'] == '==' and \
        is_enum('Plan::kWantNothing')(a['r'])


def run(ctx):
    prog = ctx.prog
    R = ctx.rule

    # ---- G1: success bookkeeping only under result == kEdgeSucceeded -------------------------
    R('C05.G1', 'G', 'in functions taking a Plan::EdgeResult, outputs_ready_=true, --wanted_edges_, '
      'want_.erase, Builder::LoadDyndeps and Plan::NodeFinished are guarded by result == kEdgeSucceeded')
    fns = [f for f in prog.functions.values()
           if any('EdgeResult' in p['ty'] for p in f.params)]
    if not fns:
        raise AnalysisBroken('no function with a Plan::EdgeResult parameter')
    ok_pred = result_is('Plan::kEdgeSucceeded')
    for f in fns:
        for e in f.events():
            site = None
            if e['k'] == 'asg':
                l = strip(e['l'])
                if isinstance(l, dict) and l.get('k') == 'mem':
                    if l['n'] == 'Edge::outputs_ready_' and const_value(e.get('r')) == 1:
                        site = 'outputs_ready_ = true'
                    elif l['n'] == 'Plan::wanted_edges_' and e['op'] in ('--', '-='):
                        site = '--wanted_edges_'
            elif e['k'] == 'call':
                nm = e.get('name') or ''
                if basename(nm) == 'erase' and mentions_field(e.get('recv'), 'Plan::want_'):
                    site = 'want_.erase'
                elif nm in ('Builder::LoadDyndeps', 'Plan::NodeFinished'):
                    site = nm
            if site:
                guarded(ctx, 'C05.G1', f, e, ok_pred, True,
                        '%s only for a succeeded edge' % site, construct='unguarded:%s' % site)
    ctx.floor('C05.G1', 5)

    # ---- G1b: call sites of Plan::EdgeFinished pass a result consistent with their guard ----
    R('C05.G1b', 'G', 'Plan::EdgeFinished(kEdgeSucceeded) only under success() / is_phony() / '
      'want == kWantNothing; (kEdgeFailed) only under !success()')
    for f, e in calls_to(prog, 'Plan::EdgeFinished'):
        arg = strip(e['args'][1]) if len(e.get('args', [])) > 1 else None
        if not (isinstance(arg, dict) and arg.get('k') == 'enum'):
            ctx.violation('C05.G1b', f.name, 'EdgeFinished:non-constant-result', f.where(e),
                          'Plan::EdgeFinished called with a non-constant result in %s' % f.name)
            continue
        facts = f.facts_at(e)
        if arg['n'] == 'Plan::kEdgeSucceeded':
            ok = fact_holds(facts, success_atom, True) or fact_holds(facts, phony_atom, True) \
                or fact_holds(facts, want_nothing_atom, True)
            ctx.check('C05.G1b', ok, f.name, 'EdgeFinished(kEdgeSucceeded):unguarded', f.where(e),
                      'EdgeFinished(kEdgeSucceeded) in %s is reached only for a successful command, '
                      'a phony edge or an edge that is not wanted' % f.name)
        else:
            ok = fact_holds(facts, success_atom, False)
            ctx.check('C05.G1b', ok, f.name, 'EdgeFinished(kEdgeFailed):unguarded', f.where(e),
                      'EdgeFinished(kEdgeFailed) in %s is reached only under !success()' % f.name)
    ctx.floor('C05.G1b', 4)

    # ---- G2: no log record without success ---------------------------------------------------
    R('C05.G2', 'G', 'BuildLog::RecordCommand / DepsLog::RecordDeps outside the log classes are '
      'guarded by success(); RecordDeps additionally by !dry_run')
    for name in ('BuildLog::RecordCommand', 'DepsLog::RecordDeps'):
        for f, e in calls_to(prog, name):
            if f.cls in ('BuildLog', 'DepsLog'):
                continue
            guarded(ctx, 'C05.G2', f, e, success_atom, True, '%s only after success' % name,
                    construct='unguarded:%s' % name)
            if name == 'DepsLog::RecordDeps':
                guarded(ctx, 'C05.G2', f, e, has_field('BuildConfig::dry_run'), False,
                        'DepsLog::RecordDeps not in a dry run', construct='dryrun:%s' % name)
    ctx.floor('C05.G2', 3)

    # ---- O1: exit code plumbing ---------------------------------------------------------------
    R('C05.O1', 'O', 'after FinishCommand, SetFailureCode(result.exit_status()) on every path; '
      'exit_code_ written only under code != ExitSuccess; Build returns ExitSuccess only when '
      '!more_to_do(); RunBuild returns Build\'s status')
    build = prog.fn('Builder::Build')
    # predicates that say "the command succeeded": `status == ExitSuccess`, `exit_status() == ExitSuccess`, and the
    # accessors whose whole body is such a comparison (BuildResult::success, CommandCompleted::success)
    success_fns = set()
    for fn in prog.functions.values():
        rets = list(fn.events('ret'))
        if fn.retk == 'bool' and len(rets) == 1 and success_atom(rets[0].get('e')):
            success_fns.add(fn.name)

    def says_success(a):
        a = strip(a)
        return success_atom(a) or (isinstance(a, dict) and a.get('k') == 'call' and a.get('name') in success_fns)

    def from_status(d):
        return mentions_field(d, STATUS) or mentions_call(d, 'BuildResult::exit_status')

    def records_failure(x):
        # SetFailureCode(<the command's status>), or the same store written out: exit_code_ = <the command's status>
        if x['k'] == 'call' and x.get('name') == 'Builder::SetFailureCode' and from_status(x['args'][0]):
            return True
        return x['k'] == 'asg' and x['op'] == '=' and mentions_field(x['l'], 'Builder::exit_code_') and \
            from_status(deep_resolve(build, x['r']))

    def not_known_success(b, i, s):
        # a path on which the command is known to have succeeded has no failure code to record
        return not any(pol is True and says_success(a) for k, pol, a in build.edge_facts(b, i))
    for e in build.calls('Builder::FinishCommand'):
        must_pass(ctx, 'C05.O1', build, records_failure,
                  lambda x: x['k'] in ('ret', 'exit') or
                  (x['k'] == 'call' and x.get('name') == 'Plan::more_to_do'),
                  'the failed command\'s status is recorded (SetFailureCode(result.exit_status())) after FinishCommand',
                  'FinishCommand-without-SetFailureCode', start=e, edge_ok=not_known_success)
    for f, e, kind, rhs in field_writes(prog, 'Builder::exit_code_'):
        if e.get('init'):
            ctx.check('C05.O1', is_enum('ExitSuccess')(rhs) or const_value(rhs) == 0, f.name,
                      'exit_code_:init', f.where(e), 'exit_code_ initialised to ExitSuccess')
            continue
        r_ = strip(rhs)
        if isinstance(r_, dict) and r_.get('k') == 'enum' and r_['n'] != 'ExitSuccess' and r_['n'].startswith('Exit'):
            ctx.inst('C05.O1', f.where(e), 'exit_code_ assigned the failure constant %s' % r_['n'])
            continue
        facts = f.facts_at(e)
        if fact_holds(facts, says_success, False):
            ctx.inst('C05.O1', f.where(e), 'exit_code_ assigned where the command is known to have failed')
            continue
        guarded(ctx, 'C05.O1', f, e,
                atom_cmp('==', anything, is_enum('ExitSuccess')), False,
                'exit_code_ assigned only a non-success code', construct='exit_code_:write')
    for e in build.events('ret'):
        d = strip(e.get('e'))
        if isinstance(d, dict) and d.get('k') == 'enum' and d['n'] == 'ExitSuccess':
            facts = build.facts_at(e)
            ok = fact_holds(facts, lambda a: mentions_field(a, 'Plan::wanted_edges_') or
                            mentions_call(a, 'Plan::more_to_do'), False)
            ctx.check('C05.O1', ok, build.name, 'return ExitSuccess:while-more-to-do',
                      build.where(e), 'Build returns ExitSuccess only when !plan_.more_to_do()')
    rb = prog.fn('NinjaMain::RunBuild')
    n = 0
    for e in rb.calls('Builder::Build'):
        n += 1
        # the status returned by Build must flow to a return of RunBuild
        rets = [r for r in rb.events('ret') if rb.ev_reaches(e, r)]
        var = None
        for d in rb.events('decl'):
            if d.get('init') and mentions_call(d['init'], 'Builder::Build'):
                var = d['n']
        ok = any((var and mentions_var(r.get('e'), var)) or mentions_call(r.get('e'), 'Builder::Build')
                 for r in rets)
        ctx.check('C05.O1', ok, rb.name, 'RunBuild:drops-Build-status', rb.where(e),
                  'RunBuild returns the status produced by Builder::Build')
    rm = prog.fn('real_main')
    for e in rm.calls('NinjaMain::RunBuild'):
        var = None
        for d in rm.events('decl'):
            if d.get('init') and mentions_call(d['init'], 'NinjaMain::RunBuild'):
                var = d['n']
        ok = any(x['k'] in ('ret', 'call') and (
            (x['k'] == 'ret' and var and mentions_var(x.get('e'), var)) or
            (x['k'] == 'call' and x.get('name') in ('exit', '_exit') and var and
             mentions_var(x['args'][0], var)))
            for x in rm.events() if x['k'] in ('ret', 'call') and rm.ev_reaches(e, x))
        ctx.check('C05.O1', ok, rm.name, 'real_main:drops-RunBuild-status', rm.where(e),
                  'real_main exits with the status returned by RunBuild')
    ctx.floor('C05.O1', 5)

    # ---- W1: who may write the plan counters -------------------------------------------------
    R('C05.W1', 'W', 'writers of Plan::wanted_edges_ / command_edges_ (a failed edge keeps '
      'more_to_do() true)')
    wanted = {'Plan::Plan': 'constructor =0', 'Plan::Reset': '=0', 'Plan::EdgeWanted': '++',
              'Plan::EdgeFinished': '-- under result==kEdgeSucceeded (C05.G1)',
              'Plan::CleanNode': '-- paired with want=kWantNothing (C03.O1)'}
    who_may_write(ctx, 'C05.W1', 'Plan::wanted_edges_', wanted, 'wanted_edges_')
    cmd = {'Plan::Plan': 'constructor =0', 'Plan::Reset': '=0', 'Plan::EdgeWanted': '++ non-phony',
           'Plan::CleanNode': '-- non-phony, paired'}
    who_may_write(ctx, 'C05.W1', 'Plan::command_edges_', cmd, 'command_edges_')
    ctx.floor('C05.W1', 8)
    ctx.table('C05.W1.writers', {'Plan::wanted_edges_': wanted, 'Plan::command_edges_': cmd})

    # ---- G3: failure budget ---------------------------------------------------------------------
    R('C05.G3', 'G', 'the failure budget is decremented only under !success() and only while '
      'non-zero; starting work is guarded by budget != 0; reaping finished commands is not')
    budget = None
    for d in build.events('decl'):
        if d.get('init') is not None and mentions_field(d['init'], 'BuildConfig::failures_allowed'):
            budget = d['n']
    if budget is None:
        raise AnalysisBroken('local failure budget (initialised from config_.failures_allowed) '
                             'not found in Builder::Build')
    nz = lambda a: (isinstance(strip(a), dict) and strip(a).get('k') == 'var' and
                    strip(a)['n'] == budget) or \
        (isinstance(strip(a), dict) and strip(a).get('k') == 'bin' and strip(a)['op'] == '<' and
         const_value(strip(a)['l']) == 0 and is_var(budget)(strip(a)['r']))
    for e in build.events('asg'):
        if is_var(budget)(e['l']):
            if e['op'] in ('--', '-='):
                guarded(ctx, 'C05.G3', build, e, success_atom, False,
                        'budget decremented only for a failed command', construct='budget--:unguarded')
                guarded(ctx, 'C05.G3', build, e, nz, True,
                        'budget decremented only while non-zero (never negative, so `if (budget)` '
                        'stays false once exhausted)', construct='budget--:may-go-negative')
            else:
                ctx.violation('C05.G3', build.name, 'budget:other-write', build.where(e),
                              'failure budget written by `%s`' % e.get('src'))
    for e in build.calls('Plan::FindWork'):
        guarded(ctx, 'C05.G3', build, e, nz, True, 'FindWork (start of new work) only while the '
                'failure budget is non-zero', construct='FindWork:unguarded-by-budget')
    for e in build.calls('Builder::StartEdge'):
        guarded(ctx, 'C05.G3', build, e, nz, True, 'StartEdge only while the failure budget is '
                'non-zero', construct='StartEdge:unguarded-by-budget')
    for e in build.calls('CommandRunner::WaitForCommandOrJobserverToken'):
        guarded(ctx, 'C05.G3', build, e, lambda a: mentions_var(a, budget), None,
                'waiting for running commands does not depend on the failure budget',
                construct='Wait:guarded-by-budget', forbidden=True)
    for e in build.calls('Builder::FinishCommand'):
        guarded(ctx, 'C05.G3', build, e, lambda a: mentions_var(a, budget), None,
                'FinishCommand (recording finished commands) does not depend on the failure budget',
                construct='FinishCommand:guarded-by-budget', forbidden=True)
    # "it still waits for, and records, the commands already running": while commands are pending, Build() leaves only
    # through a return that was preceded by Cleanup() (interrupt / internal error: the running commands are aborted on
    # purpose) - otherwise it goes round the loop again.  The "cannot make any more progress" exit is for pending == 0.
    pend = None
    for e in build.events('asg'):
        l = strip(e['l'])
        if e['op'] == '++' and isinstance(l, dict) and l.get('k') == 'var' and l.get('vk') == 'local' and \
                any(x['k'] == 'asg' and x['op'] == '--' and dstr(strip(x['l'])) == dstr(l) for x in build.events('asg')):
            if any(True for _ in build.calls('Builder::StartEdge')) and build.ev_reaches(next(build.calls('Builder::StartEdge')), e):
                pend = l['n']
    ctx.check('C05.G3', pend is not None, build.name, 'pending:counter-absent', build.loc,
              'Build counts the commands it started and has not reaped yet (%s)' % pend)
    if pend is not None:
        npd = 0
        for bid, b in build.blocks.items():
            for i, s2 in enumerate(b['succ']):
                if s2 is None:
                    continue
                if any(p_ is True and isinstance(strip(a), dict) and strip(a).get('k') == 'var' and strip(a)['n'] == pend
                       for k_, p_, a in build.edge_facts(bid, i)):
                    npd += 1
                    r = build.find_path(None, lambda x: x['k'] == 'ret', from_succ=s2,
                                        init_facts=[(k_, p_) for k_, p_, a in build.edge_facts(bid, i)],
                                        is_blocker=lambda x: x['k'] == 'call' and x.get('name') in ('Builder::Cleanup', 'Plan::more_to_do'))
                    ctx.check('C05.G3', r is None, build.name, 'pending:build-left-with-commands-running', 'src/build.cc:%s' % (b.get('term') or {}).get('line', '?'),
                              'with commands still running Build() returns only after Cleanup(), otherwise it waits again',
                              witness=None if r is None else {'blocks': r[0]})
        ctx.check('C05.G3', npd >= 1, build.name, 'pending:never-tested', build.loc, 'Build branches on "commands are pending"')
    ctx.floor('C05.G3', 8)

    # ---- X1: missing source reported, before any command -----------------------------------
    R('C05.X1', 'X', 'Plan::AddSubTarget: leaf && dirty && !generated_by_dep_loader => *err set '
      'and failure; RunBuild cannot reach Builder::Build after a failed AddTarget')
    ast = prog.fn('Plan::AddSubTarget')
    n = 0
    for e in ast.events('call'):
        if basename(e.get('name') or '') in ('operator=', 'assign') and 'err' in dstr(e.get('recv')) and \
                ('missing and no known rule' in dstr(e.get('args')) or
                 any('missing and no known rule' in dstr(o) for a in (e.get('args') or []) for o in origins(ast, a))):
            n += 1
            facts = ast.facts_at(e)
            ok = fact_holds(facts, lambda a: mentions_field(a, 'Node::dirty_'), True) and \
                fact_holds(facts, lambda a: mentions_field(a, 'Node::generated_by_dep_loader_'), False) \
                and fact_holds(facts, lambda a: is_var('edge')(a) or mentions_call(a, 'Node::in_edge') or mentions_field(a, 'Node::in_edge_'), False)
            ctx.check('C05.X1', ok, ast.name, 'missing-source-error:guard', ast.where(e),
                      'the "missing and no known rule" error is raised exactly for a dirty leaf '
                      'that was not created by a dep loader')
            # ... and for every such leaf: no further condition (how the node was reached, who asked) lets one through
            def consistent(b, i, s2):
                for k, pol, a in ast.edge_facts(b, i):
                    if mentions_field(a, 'Node::dirty_') and strip(a).get('k') != 'bin' and pol is False:
                        return False
                    if mentions_field(a, 'Node::generated_by_dep_loader_') and pol is True:
                        return False
                    if (is_var('edge')(a) or mentions_call(a, 'Node::in_edge') or (strip(a).get('k') == 'mem' and strip(a)['n'] == 'Node::in_edge_')) and pol is True:
                        return False
                return True
            r = ast.find_path(None, lambda x: x['k'] in ('ret', 'exit'), is_blocker=lambda x: x is e, from_succ=ast.entry, edge_ok=consistent)
            ctx.check('C05.X1', r is None, ast.name, 'missing-source-error:extra-condition', ast.where(e),
                      'every dirty leaf that no dep loader created is reported (no other condition skips the error)',
                      witness=None if r is None else {'blocks': r[0]})
            # and every path from here returns false
            r = ast.find_path(e, lambda x: x['k'] == 'ret' and const_value(x.get('e')) != 0)
            ctx.check('C05.X1', r is None, ast.name, 'missing-source-error:returns-true',
                      ast.where(e), 'after setting the error AddSubTarget returns false')
    if n == 0:
        ctx.violation('C05.X1', ast.name, 'missing-source-error:absent', ast.loc,
                      'Plan::AddSubTarget no longer reports a missing source file')
    # the recursion propagates it
    for e in ast.calls('Plan::AddSubTarget'):
        ctx.check('C05.X1', not e.get('disc'), ast.name, 'AddSubTarget:recursive-result-dropped',
                  ast.where(e), 'recursive AddSubTarget result is tested')
    # RunBuild: failed AddTarget with non-empty err never reaches Build
    n2 = 0
    for e in rb.calls('Builder::AddTarget'):
        n2 += 1
        blk = e['_b']
        c = rb.eff_cond(blk)
        # successor where AddTarget returned false
        from rules import failure_successor
        fs = failure_successor(rb, e)
        if fs is None:
            ctx.violation('C05.X1', rb.name, 'AddTarget:result-not-branched', rb.where(e),
                          'result of Builder::AddTarget does not decide a branch in RunBuild')
            continue
        b, idx = fs
        s = rb.blocks[b]['succ'][idx]

        def edge_ok(bb, i, ss, rb=rb):
            ef = rb.edge_fact(bb, i)
            if ef and basename(strip(ef[2]).get('name') or '') == 'empty' and \
                    'err' in dstr(strip(ef[2]).get('recv')):
                return not ef[1]        # only the err-non-empty side
            return True
        r = rb.find_path(None, lambda x: x['k'] == 'call' and x.get('name') == 'Builder::Build',
                         from_succ=s, edge_ok=edge_ok)
        ctx.check('C05.X1', r is None, rb.name, 'AddTarget-failure:reaches-Build', rb.where(e),
                  'a failed AddTarget with a non-empty error cannot reach Builder::Build',
                  witness=None if r is None else {'blocks': r[0]})
    # the error above is raised when the plan walks through a dirty edge to its leaves; the walk stops at an edge whose outputs
    # are "ready" - so a dirty edge (a phony alias over a missing source is dirty for exactly that reason) must not come out of
    # the scan as ready, the one exception being a phony edge without any inputs
    scan_ = prog.fn('DependencyScan::RecomputeNodeDirty')
    stores_ = [e for e in scan_.events('asg') if mentions_field(e['l'], 'Edge::outputs_ready_') and const_value(e.get('r')) in (0, False)]
    nd_ = 0
    for bid, b in scan_.blocks.items():
        for i, s2 in enumerate(b['succ']):
            if s2 is None or not any(k_ == 'dirty' and p_ is True for k_, p_, a_ in scan_.edge_facts(bid, i)):
                continue
            if not any(scan_.ev_reaches({'_b': s2, '_i': -1}, st) or st['_b'] == s2 for st in stores_):
                continue
            # only the last test of `dirty` in front of the store counts: no other dirty-test between
            if any(k_ == 'dirty' for st in stores_ for bb in (scan_.reachable_from(s2) | {s2}) if st['_b'] in scan_.reachable_from(bb)
                   for ii in range(len(scan_.blocks[bb]['succ'])) for k_, p_, a_ in scan_.edge_facts(bb, ii)):
                continue
            nd_ += 1
            r_ = scan_.find_path(None, lambda x: x['k'] == 'ret' and const_value(x.get('e')) == 1, from_succ=s2, sensitive=False,
                                 is_blocker=lambda x: any(x is y for y in stores_),
                                 edge_ok=lambda b2, i2, s3: not any(p_ is True and 'Edge::inputs_' in k_ and 'empty' in k_ for k_, p_, a_ in scan_.edge_facts(b2, i2)))
            ctx.check('C05.X1', r_ is None, scan_.name, 'dirty-edge:left-ready', 'src/graph.cc:%s' % (b.get('term') or {}).get('line', '?'),
                      'a dirty edge leaves the scan with outputs_ready_ = false unless it is a phony edge without inputs',
                      witness=None if r_ is None else {'blocks': r_[0]})
    ctx.check('C05.X1', nd_ >= 1 and bool(stores_), scan_.name, 'dirty-edge:test-absent', scan_.loc, 'the scan marks a dirty edge as not ready (%d test edges)' % nd_)
    ctx.floor('C05.X1', 6)

    # ---- G5: a failed command must not stay "up to date" through an older log entry ---------
    R('C05.G5', 'G', 'necessary for "the next build retries it": when a command fails, either its '
      'outputs are removed or the build-log entries of its outputs are invalidated; otherwise a '
      'successful record from an earlier run keeps vouching for the half-written output')
    fc = prog.fn('Builder::FinishCommand')
    fails = [e for e in fc.calls('Plan::EdgeFinished') if is_enum('Plan::kEdgeFailed')(e['args'][1])]
    if not fails:
        raise AnalysisBroken('no EdgeFinished(kEdgeFailed) site in FinishCommand')
    for e in fails:
        r = fc.find_path(None, lambda x: x is e, from_succ=fc.entry,
                         is_blocker=lambda x: x['k'] == 'call' and (
                             x.get('name') in ('DiskInterface::RemoveFile', 'BuildLog::RecordCommand', 'BuildLog::Invalidate') or
                             (x.get('name') or '').startswith('BuildLog::') and 'Erase' in (x.get('name') or '')))
        after = any(x['k'] == 'call' and x.get('name') in ('DiskInterface::RemoveFile',) and fc.ev_reaches(e, x)
                    and 'rspfile' not in dstr(x.get('args')) for x in fc.events('call')
                    if fact_holds(fc.facts_at(x), success_atom, False))
        ctx.check('C05.G5', r is None or after, fc.name, 'failed-command:stale-log-entry-kept', fc.where(e),
                  'the failure path invalidates the outputs\' earlier build-log entries or removes the outputs')
    # "no record is written for it, so the next build retries it": an output without a log entry
    # must come out dirty whatever else holds
    nle = 0
    for f in prog.functions.values():
        if not f.name.startswith('RecomputeOutputsDirtyCache::RecomputeOutputDirty<true>'):
            continue
        for bid, b in f.blocks.items():
            for i, s2 in enumerate(b['succ']):
                if s2 is None:
                    continue
                for k, pol, atom in f.edge_facts(bid, i):
                    if pol is False and (mentions_call(atom, 'RecomputeOutputsDirtyCache::CachedLogEntry::is_valid') or
                                         mentions_field(atom, 'RecomputeOutputsDirtyCache::CachedLogEntry::entry_')):
                        nle += 1
                        r = f.find_path(None, lambda x: x['k'] == 'ret' and const_value(x.get('e')) == 0, from_succ=s2)
                        ctx.check('C05.G5', r is None, 'RecomputeOutputsDirtyCache::RecomputeOutputDirty', 'no-log-entry:treated-clean',
                                  'src/graph.cc:%s' % f.term(bid)['line'],
                                  'an output that has no build-log entry is reported dirty',
                                  witness=None if r is None else {'blocks': r[0]})
    ctx.check('C05.G5', nle >= 1, 'RecomputeOutputsDirtyCache::RecomputeOutputDirty', 'no-log-entry:test-absent', 'src/graph.cc',
              'the scan tests whether the output has a build-log entry (%d edges)' % nle)
    ctx.floor('C05.G5', 3)

    # ---- G4: wait status -> ExitStatus ----------------------------------------------------------
    R('C05.G4', 'G', 'where a wait status becomes an ExitStatus, the exit-code bits '
      '((status & 0xff00) >> 8) are returned only under WIFEXITED ((status & 0x7f) == 0); every '
      'other return is a non-success value')
    pes = prog.fn('ParseExitStatus')
    n = 0

    def is_wexitstatus(d):
        from model import walk
        return any(x.get('k') == 'bin' and x['op'] == '>>' and const_value(x['r']) == 8 and
                   isinstance(strip(x['l']), dict) and strip(x['l']).get('k') == 'bin' and
                   strip(x['l'])['op'] == '&' and const_value(strip(x['l'])['r']) == 0xff00
                   for x in walk(d))

    def wifexited(a):
        a = strip(a)
        return isinstance(a, dict) and a.get('k') == 'bin' and a['op'] == '==' and \
            const_value(a['r']) == 0 and isinstance(strip(a['l']), dict) and \
            strip(a['l']).get('k') == 'bin' and strip(a['l'])['op'] == '&' and \
            const_value(strip(a['l'])['r']) == 0x7f
    for e in pes.events('ret'):
        n += 1
        if is_wexitstatus(e.get('e')):
            guarded(ctx, 'C05.G4', pes, e, wifexited, True,
                    'WEXITSTATUS returned only under WIFEXITED', construct='WEXITSTATUS:unguarded')
        else:
            v = const_value(e.get('e'))
            d = strip(e.get('e'))
            nonzero = (v is not None and v != 0) or (
                isinstance(d, dict) and d.get('k') == 'bin' and d['op'] == '+' and
                (const_value(d['r']) or 0) >= 128)
            ctx.check('C05.G4', nonzero, pes.name, 'non-exit-return:maybe-success', pes.where(e),
                      'abnormal termination maps to a non-success status (`%s`)' % e.get('src'))
    # the other direction: a command that exited normally reports its own exit code, whatever it is - only a wait
    # status that says "killed by SIGINT/SIGTERM/SIGHUP" means interrupted (an exit code 130/143 is a plain failure:
    # it gets its FAILED block, counts against -k, and does not stop the build as "interrupted by user")
    for e in pes.events('ret'):
        if fact_holds(pes.facts_at(e), wifexited, True):
            ctx.check('C05.G4', is_wexitstatus(deep_resolve(pes, e.get('e'))), pes.name, 'WIFEXITED:status-not-transparent', pes.where(e),
                      'under WIFEXITED the exit code is returned as it is (`%s`)' % (e.get('src') or '')[:60])
    # the status of a failed command reaches the exit code untouched: FinishCommand replaces result.status only to
    # downgrade a *successful* command (unusable deps information), never to overwrite a failure status with another
    fcm = prog.fn('Builder::FinishCommand')
    nst = 0
    for e in fcm.stores():
        if mentions_field(e.get('l'), STATUS):
            nst += 1
            ok = fact_holds(fcm.facts_at(e), lambda a: mentions_field(a, STATUS) and mentions_enum(a, 'ExitSuccess'), True) or \
                fact_holds(fcm.facts_at(e), lambda a: mentions_call(a, 'BuildResult::CommandCompleted::success'), True)
            ctx.check('C05.G4', ok, fcm.name, 'status:failure-code-overwritten', fcm.where(e),
                      'result.status is replaced only where the command is known to have succeeded')
    ctx.check('C05.G4', nst >= 1, fcm.name, 'status:downgrade-absent', fcm.loc, 'FinishCommand downgrades a success whose deps cannot be used (%d stores)' % nst)
    for f, e in calls_to(prog, 'ParseExitStatus'):
        ctx.check('C05.G4', not e.get('disc'), f.name, 'ParseExitStatus:discarded', f.where(e),
                  'the parsed status is stored (%s)' % f.name)
    # the same statement decided by evaluation, whatever form the function has: for every wait status "exited with code c"
    # (c << 8) the result is c itself - in particular no code but 0 becomes ExitSuccess, and 130 stays a plain failure code
    import charset as _cs
    pname_ = pes.params[0]['n'] if pes.params else 'status'
    wrong = []
    for code in range(0, 256):
        rv = _cs.returned_for_value(pes, pname_, code << 8)
        if rv != {code}:
            wrong.append((code, sorted(map(str, rv))))
    ctx.check('C05.G4', not wrong, pes.name, 'exit-code:not-transparent:%s' % (wrong[0][0] if wrong else ''), pes.loc,
              'ParseExitStatus(exited with code c) == c for every c in 0..255%s' % ((' - differs for %s' % wrong[:4]) if wrong else ''))
    ctx.floor('C05.G4', 6)
    check_child_lifecycle(ctx)

    # ---- E1 -------------------------------------------------------------------------------------
    R('C05.E1', 'E1', 'error discipline over build.cc and ninja.cc: fallible results are used and '
      'a failure edge never reaches a success return')
    fns = [f for f in prog.functions.values() if f.file in ('build.cc', 'ninja.cc')]
    ignore = {
        ('NinjaMain::RebuildManifest', 'Builder::AddTarget'): 'n/a',
    }
    soft = {f.name: 'query/maintenance tool: reports with Warning/Error and carries on' for f in fns
            if f.name.startswith('NinjaMain::Tool')}
    error_discipline(ctx, 'C05.E1', fns, ignore=IGNORE_E1, soft_ok=soft)
    check_build_exit_codes(ctx, 'C05.E1', prog)
    ctx.floor('C05.E1', 26)
    ctx.table('C05.E1.ignore', {'%s -> %s' % k: v for k, v in IGNORE_E1.items()})


IGNORE_E1 = {
    ('Builder::Cleanup', 'DiskInterface::Stat'):
        'lock-file probe during cleanup; an error means "nothing to remove"',
    ('NinjaMain::ToolRestat', 'NinjaMain::EnsureBuildDirExists'): 'n/a',
}


def check_child_lifecycle(ctx):
    """C05.S1: from waitpid() to the status the builder sees."""
    from model import walk, facts_str
    prog = ctx.prog
    ctx.rule('C05.S1', 'O', 'a child\'s wait status reaches the builder untouched and once: TryFinish answers "alive" only when '
             'waitpid() returned 0, otherwise it forgets the pid and stores ParseExitStatus of the very status waitpid() filled in; '
             'exit_status_ has no other writer; Finish() returns that field after a blocking wait; Done() is "reaped" for console '
             'children and "pipe closed" for the others; NextFinished() hands out the front of the queue and removes exactly it')
    tf = prog.fn('Subprocess::TryFinish')
    wp = list(tf.calls('waitpid'))
    ctx.check('C05.S1', len(wp) == 1, tf.name, 'TryFinish:waitpid-sites', tf.loc, 'one waitpid() in TryFinish')
    if len(wp) != 1:
        raise AnalysisBroken('C05.S1: waitpid() call of Subprocess::TryFinish not found')
    w = wp[0]
    ctx.check('C05.S1', mentions_field(w['args'][0], 'Subprocess::pid_') and strip(w['args'][0]).get('k') == 'mem', tf.name, 'waitpid:not-own-child', tf.where(w),
              'waitpid() waits for this subprocess\'s own pid (never -1 / a group: another child\'s status would be consumed)')
    stvar = None
    for x in walk(w['args'][1]):
        if isinstance(x, dict) and x.get('k') == 'var':
            stvar = x['n']
    for e in tf.events('ret'):
        v = const_value(e.get('e'))
        facts = tf.facts_at(e)
        if v in (0, False):
            def ret_zero(a):
                a = strip(a)
                return isinstance(a, dict) and a.get('k') == 'bin' and a['op'] == '==' and const_value(a['r']) == 0 and \
                    (mentions_call(a['l'], 'waitpid') or mentions_call(deep_resolve(tf, a['l']), 'waitpid') or _only_def_call(tf, a['l'], 'waitpid'))
            ctx.check('C05.S1', fact_holds(facts, ret_zero, True), tf.name, 'TryFinish:alive-without-zero', tf.where(e),
                      '"still alive" is answered only where waitpid() returned 0; facts: %s' % facts_str(facts)[:6])
        else:
            r1 = tf.find_path(None, lambda x: x is e, from_succ=tf.entry,
                              is_blocker=lambda x: x['k'] == 'asg' and mentions_field(x['l'], 'Subprocess::pid_') and const_value(x.get('r')) == -1)
            r2 = tf.find_path(None, lambda x: x is e, from_succ=tf.entry,
                              is_blocker=lambda x: x['k'] == 'asg' and mentions_field(x['l'], 'Subprocess::exit_status_'))
            ctx.check('C05.S1', r1 is None and r2 is None, tf.name, 'TryFinish:terminated-without-bookkeeping', tf.where(e),
                      '"terminated" is answered only after pid_ = -1 and the store of exit_status_')
    n = 0
    for f, e, kind, rhs in field_writes(prog, 'Subprocess::exit_status_'):
        if e.get('init') and f.d.get('ctor'):
            continue
        n += 1
        ok = f.name == 'Subprocess::TryFinish' and isinstance(strip(rhs), dict) and strip(rhs).get('k') == 'call' and \
            strip(rhs).get('name') == 'ParseExitStatus' and is_var(stvar or '?')(strip(rhs)['args'][0]) and \
            not any(x['k'] == 'asg' and is_var(stvar or '?')(x['l']) for x in f.events('asg'))
        ctx.check('C05.S1', ok, f.name, 'exit_status_:other-writer-or-value', f.where(e),
                  'exit_status_ = ParseExitStatus(%s), the variable waitpid() filled in, unmodified - in %s' % (stvar, f.name))
    ctx.check('C05.S1', n >= 1, tf.name, 'exit_status_:never-stored', tf.loc, 'the status is stored (%d writers)' % n)
    fi = prog.fn('Subprocess::Finish')
    for e in fi.events('ret'):
        ctx.check('C05.S1', isinstance(strip(e.get('e')), dict) and strip(e['e']).get('k') == 'mem' and strip(e['e'])['n'] == 'Subprocess::exit_status_',
                  fi.name, 'Finish:returns-other', fi.where(e), 'Finish() returns exit_status_')
    r = fi.find_path(None, lambda x: x['k'] == 'ret', from_succ=fi.entry, is_blocker=lambda x: x['k'] == 'call' and x.get('name') == 'Subprocess::TryFinish',
                     edge_ok=lambda b, i, s: not any(mentions_field(a, 'Subprocess::pid_') and const_value(strip(a).get('r')) == -1 and
                                                     ((strip(a).get('op') == '==') == bool(pol)) for k, pol, a in fi.edge_facts(b, i, all=True)
                                                     if isinstance(strip(a), dict) and strip(a).get('k') == 'bin' and strip(a).get('op') in ('==', '!=')))
    ctx.check('C05.S1', r is None, fi.name, 'Finish:returns-before-reaping', fi.loc, 'with a live pid Finish() returns only after TryFinish()',
              witness=None if r is None else {'blocks': r[0]})
    # Done(): truth table over the three atoms
    dn = prog.fn('Subprocess::Done')
    rets = list(dn.events('ret'))
    ok = len(rets) >= 1
    table = {}
    for cons in (False, True):
        for reaped in (False, True):
            for closed in (False, True):
                vals = set()
                for e in rets:
                    # a return is taken into account if its guard facts are compatible with the assignment
                    env = {'Subprocess::use_console_': cons, 'pid': reaped, 'fd': closed}
                    if not _compatible(dn, e, env):
                        continue
                    vals.add(_eval_done(deep_resolve(dn, e.get('e')), env))
                want = reaped if cons else closed
                table['console=%d reaped=%d pipe_closed=%d' % (cons, reaped, closed)] = sorted(map(str, vals))
                ok = ok and vals == {want}
    ctx.check('C05.S1', ok, dn.name, 'Done:truth-table', dn.loc,
              'Done() == (console ? reaped : pipe closed) for all eight combinations: %s' % table)
    nf = prog.fn('SubprocessSet::NextFinished')
    pops = [e for e in nf.events('call') if (e.get('name') or '').endswith('::pop')]
    fronts = [e for e in nf.events('call') if (e.get('name') or '').endswith('::front')]
    ctx.check('C05.S1', len(pops) == 1 and len(fronts) == 1 and nf.dominates_ev(fronts[0], pops[0]), nf.name, 'NextFinished:front-pop', nf.loc,
              'NextFinished() reads the front, then pops once')
    if len(pops) == 1 and len(fronts) == 1:
        nonempty = lambda a: 'empty' in dstr(a)
        ctx.check('C05.S1', fact_holds(nf.facts_at(pops[0]), nonempty, False), nf.name, 'NextFinished:pop-of-empty-queue', nf.where(pops[0]),
                  'the queue is popped only when it is not empty')
        # what is returned: a null constant, the front element, or a variable every store of which is one of the two
        def front_or_null(d, depth=0):
            d = strip(d)
            if not isinstance(d, dict):
                return False
            if (const_value(d) in (0, None) and 'null' in dstr(d)) or const_value(d) == 0:
                return 'null'
            if d.get('k') == 'call' and (d.get('name') or '').endswith('::front'):
                return 'front'
            if d.get('k') == 'var' and depth < 3:
                defs = [x.get('init') for x in nf.events('decl') if x['n'] == d['n'] and x.get('init') is not None] + \
                       [x.get('r') for x in nf.events('asg') if is_var(d['n'])(x['l']) and x.get('op') == '=']
                kinds = {front_or_null(x, depth + 1) for x in defs}
                return 'var' if defs and kinds <= {'null', 'front', 'var'} else False
            return False
        for e in nf.events('ret'):
            ctx.check('C05.S1', bool(front_or_null(e.get('e'))), nf.name, 'NextFinished:returns-other', nf.where(e),
                      'what NextFinished() returns is null or the front element of the queue (%s)' % dstr(e.get('e')))
        # with a non-empty queue the front is taken (and popped) before the function returns; the stores of the front
        # element are the ones paired with the pop
        def nonempty_world(b2, i2, s2):
            return not any(nonempty(a2) and p2 is True and isinstance(strip(a2), dict) and strip(a2).get('k') == 'call'
                           for k2, p2, a2 in nf.edge_facts(b2, i2))
        r = nf.find_path(None, lambda x: x['k'] == 'ret', from_succ=nf.entry, is_blocker=lambda x: x is pops[0], edge_ok=nonempty_world)
        ctx.check('C05.S1', r is None, nf.name, 'NextFinished:finished-subprocess-not-handed-out', nf.loc,
                  'with a non-empty queue NextFinished() pops before it returns', witness=None if r is None else {'blocks': r[0]})
    ctx.floor('C05.S1', 10)


def _only_def_call(f, d, callee):
    d = strip(d)
    if not (isinstance(d, dict) and d.get('k') == 'var'):
        return False
    defs = [e for e in f.events() if (e['k'] == 'asg' and is_var(d['n'])(e['l'])) or
            (e['k'] == 'decl' and e['n'] == d['n'] and e.get('init') is not None and dstr(e.get('init')) != '_')]
    return bool(defs) and all(mentions_call(e.get('r') if e['k'] == 'asg' else e.get('init'), callee) for e in defs)


def _atom_value(a, env):
    a = strip(a)
    if not isinstance(a, dict):
        return None
    if a.get('k') == 'mem' and a['n'] == 'Subprocess::use_console_':
        return env['Subprocess::use_console_']
    if a.get('k') == 'bin' and a['op'] in ('==', '!=') and const_value(a['r']) == -1 and isinstance(strip(a['l']), dict) and strip(a['l']).get('k') == 'mem':
        n = strip(a['l'])['n']
        v = env['pid'] if n == 'Subprocess::pid_' else env['fd'] if n == 'Subprocess::fd_' else None
        return None if v is None else (v if a['op'] == '==' else not v)
    if a.get('k') == 'bin' and a['op'] in ('<', '>=') and const_value(a['r']) == 0 and isinstance(strip(a['l']), dict) and strip(a['l']).get('k') == 'mem':
        n = strip(a['l'])['n']
        v = env['pid'] if n == 'Subprocess::pid_' else env['fd'] if n == 'Subprocess::fd_' else None
        return None if v is None else (v if a['op'] == '<' else not v)
    return None


def _eval_done(d, env):
    d = strip(d)
    if not isinstance(d, dict):
        return None
    v = _atom_value(d, env)
    if v is not None:
        return v
    if d.get('k') == 'un' and d['op'] == '!':
        x = _eval_done(d['e'], env)
        return None if x is None else not x
    if d.get('k') == 'bin' and d['op'] in ('&&', '||'):
        l, r = _eval_done(d['l'], env), _eval_done(d['r'], env)
        if d['op'] == '&&':
            return False if (l is False or r is False) else (True if (l and r) else None)
        return True if (l or r) else (False if (l is False and r is False) else None)
    if d.get('k') == 'cond':
        c = _eval_done(d['c'], env)
        return None if c is None else _eval_done(d['t'] if c else d['f'], env)
    cv = const_value(d)
    if cv in (0, 1, True, False):
        return bool(cv)
    return None


def _compatible(f, e, env):
    for k, (pol, a) in f.facts_at(e).items():
        v = _eval_done(a, env)
        if v is not None and v != bool(pol):
            return False
    return True
