"""Shared pieces for the dirty-scan properties C01/C02/C03/C10: timestamp roles and the
comparison contract (template CC)."""
from facts import AnalysisBroken
from model import dstr, strip, walk, mentions_field, mentions_call, mentions_var, const_value
from rules import basename, origins

OUTDIRTY = ['RecomputeOutputsDirtyCache::RecomputeOutputDirty<true>',
            'RecomputeOutputsDirtyCache::RecomputeOutputDirty<false>']


def var_base(d):
    """Name of the local/param a `x->mtime()` / `x.mtime` expression is rooted in."""
    for x in walk(d):
        if x.get('k') == 'var':
            return x['n'].split('#')[0].split('@')[0]
    return None


def ts_role(f, d):
    """Role of a timestamp-valued descriptor inside function f:
    OUT, IN, LOG, DEPS, NOW, START, REC (a local accumulating the mtime to record), or None."""
    d = strip(d)
    if not isinstance(d, dict):
        return None
    s = dstr(d)
    if 'BuildLog::LogEntry::mtime' in s:
        return 'LOG'
    if 'DepsLog::Deps::mtime' in s:
        return 'DEPS'
    if 'Edge::command_start_time_' in s:
        return 'START'
    if 'Node::mtime_' in s or mentions_call(d, 'Node::mtime'):
        vb = var_base(d)
        if vb in ('most_recent_input',) or any(x.get('k') == 'var' and x['n'] in mri_vars(f) for x in walk(d) if isinstance(x, dict)):
            return 'IN'
        if vb in ('output', 'o', 'out_node'):
            return 'OUT'
        if vb in ('i', 'input'):
            return 'IN'
        os_ = origins(f, d)
        so = ' '.join(dstr(o) for o in os_)
        if 'Edge::outputs_' not in so and 'Edge::inputs_' not in so:
            from rules import deep_resolve
            so = dstr(deep_resolve(f, deep_resolve(f, d)))
        if 'Edge::outputs_' in so:
            return 'OUT'
        if 'Edge::inputs_' in so:
            return 'IN'
        # a cursor / "best so far" iterator: follow every definition of the variables it is rooted in
        so = ' '.join(_def_closure(f, d))
        if 'Edge::outputs_' in so and 'Edge::inputs_' not in so:
            return 'OUT'
        if 'Edge::inputs_' in so and 'Edge::outputs_' not in so:
            return 'IN'
        return 'NODE'
    if d.get('k') == 'var':
        os_ = origins(f, d)
        if os_ and all(isinstance(strip(o), dict) and strip(o).get('k') == 'call' and
                       strip(o).get('name') == 'DiskInterface::Stat' for o in os_):
            return 'NOW'
        if d['n'].split('#')[0].split('@')[0] in rec_vars(f):
            return 'REC'
        if d['n'].split('#')[0].split('@')[0] in ('mtime', 'deps_mtime', 'new_mtime'):
            return 'NOW' if any(mentions_call(o, 'DiskInterface::Stat') for o in os_) else 'TS'
    return None


def rec_vars(f):
    """The locals in which `f` accumulates the mtime it hands to BuildLog::RecordCommand: the variable passed there and
    every local it is (transitively) assigned from, except those that only ever hold a fresh Stat() result.  Names
    without the `#k` / `@k` suffixes.  {'record_mtime'} when f does not call RecordCommand."""
    c = getattr(f, '_rec_vars', None)
    if c is not None:
        return c
    out = {'record_mtime'}
    todo = []
    for e in f.calls('BuildLog::RecordCommand'):
        if len(e.get('args') or []) > 3:
            todo += [x['n'] for x in walk(e['args'][3]) if isinstance(x, dict) and x.get('k') == 'var' and x.get('vk') == 'local']
    seen = set()
    while todo and len(seen) < 12:
        v = todo.pop()
        if v in seen:
            continue
        seen.add(v)
        os_ = origins(f, {'k': 'var', 'n': v, 'vk': 'local'})
        if os_ and all(isinstance(strip(o), dict) and strip(o).get('k') == 'call' and strip(o).get('name') == 'DiskInterface::Stat' for o in os_):
            continue                                    # a fresh stat result: NOW, not the accumulator
        out.add(v.split('#')[0].split('@')[0])
        for e in f.events():
            src = None
            if e['k'] == 'decl' and e['n'] == v and e.get('init') is not None:
                src = e['init']
            elif e['k'] == 'asg' and e.get('op') == '=' and isinstance(strip(e['l']), dict) and strip(e['l']).get('k') == 'var' and strip(e['l'])['n'] == v:
                src = e.get('r')
            if src is not None:
                # only timestamp-valued operands: the condition of `c ? a : b` is not a source of the value
                st = [strip(src)]
                while st:
                    x = st.pop()
                    while isinstance(x, dict) and x.get('k') in ('cast', 'paren') and x.get('e') is not None:
                        x = strip(x['e'])
                    if isinstance(x, dict) and x.get('k') == 'cond':
                        st += [strip(x['t']), strip(x['f'])]
                    elif isinstance(x, dict) and x.get('k') == 'var' and x.get('vk') == 'local' and x['n'] not in seen:
                        todo.append(x['n'])
    try:
        f._rec_vars = out
    except Exception:
        pass
    return out


def is_rec_var(f):
    return lambda d: isinstance(strip(d), dict) and strip(d).get('k') == 'var' and strip(d)['n'].split('#')[0].split('@')[0] in rec_vars(f)


def _def_closure(f, d, limit=12):
    """Texts of everything the variables in d are (transitively) defined from: declarations with initialiser and assignments."""
    seen, out, todo = set(), [], [x['n'] for x in walk(d) if isinstance(x, dict) and x.get('k') == 'var']
    while todo and len(seen) < limit:
        v = todo.pop()
        if v in seen:
            continue
        seen.add(v)
        for e in f.events():
            src = None
            if e['k'] == 'decl' and e['n'] == v and e.get('init') is not None:
                src = e['init']
            elif e['k'] == 'asg' and e.get('op') == '=' and isinstance(strip(e['l']), dict) and strip(e['l']).get('k') == 'var' and strip(e['l'])['n'] == v:
                src = e.get('r')
            if src is None:
                continue
            out.append(dstr(src))
            todo += [x['n'] for x in walk(src) if isinstance(x, dict) and x.get('k') == 'var' and x['n'] not in seen]
    return out


def mri_vars(f):
    """The names under which `f` keeps its running maximum of the input timestamps: most_recent_input itself, and a
    "best so far" cursor it is read from (`m = best != end ? *best : NULL` after a std::max_element-style loop)."""
    out = {'most_recent_input'}
    for e in f.events():
        src = None
        if e['k'] == 'decl' and e['n'].split('#')[0].split('@')[0] == 'most_recent_input':
            src = e.get('init')
        elif e['k'] == 'asg' and mentions_var(e['l'], 'most_recent_input') and strip(e['l']).get('k') == 'var':
            src = e.get('r')
        for x in walk(src):
            if isinstance(x, dict) and x.get('k') == 'var' and x['n'].split('#')[0].split('@')[0] != 'most_recent_input':
                v = x['n']
                if any(a['k'] == 'asg' and a.get('op') == '=' and isinstance(strip(a['l']), dict) and strip(a['l']).get('k') == 'var' and
                       strip(a['l'])['n'] == v for a in f.events('asg')):
                    out.add(v)
    return out


def mentions_mri(f, d):
    return any(mentions_var(d, v) or any(isinstance(x, dict) and x.get('k') == 'var' and x['n'] == v for x in walk(d)) for v in mri_vars(f))


def ts_comparisons(f):
    """All branch edges of f whose condition compares two timestamps.
    Yields (block, atom, role_l, role_r) with the atom normalised to `<` or `==`."""
    seen = set()
    for bid, b in f.blocks.items():
        for i, s in enumerate(b['succ']):
            ef = f.edge_fact(bid, i)
            if not ef:
                continue
            a = strip(ef[2])
            if not (isinstance(a, dict) and a.get('k') == 'bin' and a['op'] in ('<', '==')):
                continue
            rl, rr = ts_role(f, a['l']), ts_role(f, a['r'])
            if rl is None or rr is None:
                continue
            if (bid, ef[0]) in seen:
                continue
            seen.add((bid, ef[0]))
            yield bid, a, rl, rr


def true_succ(f, bid):
    """Successor of block bid taken when its (normalised) condition atom is TRUE."""
    for i, s in enumerate(f.blocks[bid]['succ']):
        ef = f.edge_fact(bid, i)
        if ef and ef[1] is True:
            return s
    return None


def false_succ(f, bid):
    for i, s in enumerate(f.blocks[bid]['succ']):
        ef = f.edge_fact(bid, i)
        if ef and ef[1] is False:
            return s
    return None


def check_cc(ctx, rid, f, roles, op, effect, what, construct, count=1):
    """Comparison contract: in f there are exactly `count` branches comparing (roles[0] op roles[1]),
    and their TRUE side has the given effect (a predicate over (f, successor block))."""
    found = [(bid, a) for bid, a, rl, rr in ts_comparisons(f) if (rl, rr) == tuple(roles)]
    rev = [(bid, a) for bid, a, rl, rr in ts_comparisons(f) if (rr, rl) == tuple(roles)]
    ok_all = True
    if len(found) != count:
        msg = '%s — expected %d comparison(s) %s %s %s in %s, found %d%s' % (
            what, count, roles[0], op, roles[1], f.name, len(found),
            (' (and %d with the operands reversed: %s)' % (len(rev), [dstr(a) for b, a in rev])) if rev else '')
        ctx.violation(rid, f.name, construct + ':relation', f.loc, msg)
        return False
    for bid, a in found:
        line = f.term(bid)['line']
        ok = a['op'] == op
        ok_all &= ctx.check(rid, ok, f.name, construct + ':relation', 'src/%s:%s' % (f.file, line),
                            '%s — %s compares %s %s %s as `%s`' % (what, f.name, roles[0], op, roles[1], dstr(a)))
        if ok and effect is not None:
            s = true_succ(f, bid)
            e_ok, detail = effect(f, bid, s)
            ok_all &= ctx.check(rid, e_ok, f.name, construct + ':effect', 'src/%s:%s' % (f.file, line),
                                '%s — when `%s` holds: %s' % (what, dstr(a), detail))
    return ok_all


def effect_returns(value):
    """TRUE side reaches only `return <value>` (before any other return)."""
    def eff(f, bid, s):
        if s is None:
            return False, 'no successor'
        ef = None
        for i, x in enumerate(f.blocks[bid]['succ']):
            if x == s:
                ef = f.edge_fact(bid, i)
        r = f.find_path(None, lambda x: x['k'] == 'ret' and const_value(x.get('e')) != value,
                        from_succ=s, init_facts=[(ef[0], ef[1])] if ef else None,
                        is_blocker=lambda x: x['k'] == 'ret' and const_value(x.get('e')) == value)
        return r is None, 'the function returns %s' % ('true' if value else 'false')
    return eff


def effect_assigns(varname, rhs_pred, also=None):
    """TRUE side assigns varname (or one of the names also(f) gives) from something satisfying rhs_pred before anything
    else decides."""
    def eff(f, bid, s):
        if s is None:
            return False, 'no successor'
        names = {varname} | (set(also(f)) if also else set())
        for e in f.blocks[s]['ev']:
            l_ = strip(e['l']) if e['k'] == 'asg' else None
            if isinstance(l_, dict) and l_.get('k') == 'un' and l_.get('op') == '*':      # an out-parameter passed by pointer: `*v = x`
                l_ = strip(l_.get('e'))
            if e['k'] == 'asg' and e['op'] == '=' and isinstance(l_, dict) and \
                    l_.get('k') == 'var' and (l_['n'].split('#')[0].split('@')[0] in names or l_['n'] in names):
                return bool(rhs_pred(e.get('r'))), '%s = %s' % (l_['n'], dstr(e.get('r')))
        return False, 'no assignment to %s on the true side' % varname
    return eff


def check_prune_recheck(ctx, rid, prog):
    """Plan::CleanNode: an edge is un-wanted (and the prune propagated through its outputs) only
    after DependencyScan::RecomputeOutputsDirty has re-examined *that* edge: the call dominates the
    un-want and the recursion, and the flag tested is the one the call filled in."""
    from rules import is_enum
    cn = prog.fn('Plan::CleanNode')
    rc = list(cn.calls('DependencyScan::RecomputeOutputsDirty'))
    sites = [e for e in cn.events('asg') if is_enum('Plan::kWantNothing')(e.get('r'))] + list(cn.calls('Plan::CleanNode'))
    for e in sites:
        ok = len(rc) == 1 and cn.dominates_ev(rc[0], e) and (mentions_var(rc[0].get('args'), 'outputs_dirty') or not rc[0].get('disc'))
        ctx.check(rid, ok, cn.name, 'CleanNode:prune-without-recheck', cn.where(e),
                  'pruning (un-want / recursion) happens only after the scan re-examined the edge\'s outputs')
    if not sites:
        ctx.violation(rid, cn.name, 'CleanNode:no-prune-sites', cn.loc, 'CleanNode has no un-want site')


def check_build_exit_codes(ctx, rid, prog):
    """Builder::Build: the recorded exit code of the first failed command (GetExitCode(), initially
    ExitSuccess) is returned only where a command failure has been recorded, i.e. behind
    `failures_allowed == 0` or `failures_allowed < config_.failures_allowed`; every other error
    exit returns a value that cannot be ExitSuccess."""
    b = prog.fn('Builder::Build')
    n = 0
    def failure_recorded(ef):
        k = ef[0].replace(' ', '')
        return ef[1] is True and 'failures_allowed' in k and ('failures_allowed==0' in k or 'failures_allowed<' in k)
    for e in b.events('ret'):
        v = e.get('v') if e.get('v') is not None else e.get('e')
        if not mentions_call(v, 'Builder::GetExitCode') and not mentions_field(v, 'Builder::exit_code_'):
            continue
        n += 1
        r = b.find_path(None, lambda x: x is e, from_succ=b.entry, sensitive=False,
                        edge_ok=lambda bb, i, s2: not any(failure_recorded(ef) for ef in b.edge_facts(bb, i)))
        ctx.check(rid, r is None, b.name, 'exit-code:success-on-error-exit', b.where(e),
                  'GetExitCode() is returned only after a command failure was recorded',
                  witness=None if r is None else {'blocks': r[0]})
    if n == 0:
        ctx.inst(rid, b.loc, 'Builder::Build has no return of the recorded exit code')
    # the plain success return is not reachable once an error text was stored
    for e in b.events('ret'):
        v = strip(e.get('e'))
        if isinstance(v, dict) and v.get('k') == 'enum' and v.get('n') == 'ExitSuccess':
            for a in b.events('asg'):
                l = strip(a['l'])
                if isinstance(l, dict) and l.get('k') in ('un', 'deref') and mentions_var(l, 'err'):
                    r = b.find_path(a, lambda x: x is e)
                    ctx.check(rid, r is None, b.name, 'exit-code:success-after-error-text', b.where(a),
                              'no path from `*err = ...` to `return ExitSuccess`')
                    n += 1
    return n


def check_refresh_validations(ctx, rid, prog):
    """Plan::RefreshDyndepDependents: the validation nodes a re-scan reports are planned for every
    dependent whose re-scan succeeded - whatever the dependent's own dirty state turns out to be."""
    f = prog.fn('Plan::RefreshDyndepDependents')
    rds = list(f.calls('DependencyScan::RecomputeDirty'))
    ok_sites = 0
    for e in rds:
        # the local that receives the validation nodes
        vn = None
        for a in e.get('args') or []:
            sa = strip(a)
            if isinstance(sa, dict) and sa.get('k') == 'un' and sa.get('op') == '&':
                n = strip(sa['e'])
                if isinstance(n, dict) and n.get('k') == 'var' and 'validation' in n['n']:
                    vn = n['n']
        if vn is None:
            ctx.violation(rid, f.name, 'refresh:validations-not-collected', f.where(e),
                          'the re-scan in RefreshDyndepDependents does not collect validation nodes')
            continue
        from rules import loops_over
        hdrs = [bid for bid, b in f.blocks.items() if b.get('term') and b['term']['kind'] in ('for', 'range', 'while') and
                any(x.get('k') == 'var' and x['n'] == vn for x in walk(b['term'].get('cond')))]
        hdrs += [l['header'] for l in loops_over(f, lambda d: d.get('k') == 'var' and d.get('n') == vn)]
        adds = [x for x in f.events('call') if x.get('name') in ('Plan::AddTarget', 'Plan::AddSubTarget')]
        # success successor of the re-scan
        starts = [s2 for bid, b in f.blocks.items() for i, s2 in enumerate(b['succ']) if s2 is not None and
                  any(pol is True and mentions_call(atom, 'DependencyScan::RecomputeDirty') for k, pol, atom in f.edge_facts(bid, i))]
        good = bool(hdrs) and bool(adds) and bool(starts)
        for s2 in starts:
            r = f.find_path(None, lambda x: x['k'] in ('exit', 'ret') or x is e, from_succ=s2,
                            is_blocker=lambda x: x.get('_b') in hdrs, sensitive=False)
            good = good and r is None
        ok_sites += 1
        ctx.check(rid, good, f.name, 'refresh:validations-skipped', f.where(e),
                  'after a successful re-scan of a dependent, the loop that plans its validation nodes is always entered')
    if not ok_sites:
        ctx.violation(rid, f.name, 'refresh:no-rescan', f.loc, 'no RecomputeDirty call in RefreshDyndepDependents')


def check_active_edges(ctx, rid, prog):
    """RealCommandRunner::GetActiveEdges reports every edge that was started and not yet handed back:
    a full-range loop over subproc_to_edge_ (the map StartCommand fills and WaitForCommand erases
    from) in which every iteration appends to the result.  Abort / Cleanup / ClearJobTokens act on
    exactly this list, so an edge missing from it keeps its slot and its partial outputs."""
    from rules import full_range, loops_over, every_iteration_passes, lastname
    gae = prog.fn('RealCommandRunner::GetActiveEdges')
    if full_range(ctx, rid, gae, 'RealCommandRunner::subproc_to_edge_', 'all started, not yet reaped commands are active',
                  construct='GetActiveEdges:not-all-of-subproc_to_edge_'):
        for l in loops_over(gae, 'RealCommandRunner::subproc_to_edge_'):
            every_iteration_passes(ctx, rid, gae, l, lambda x: x['k'] == 'call' and lastname(x.get('name')) in ('push_back', 'emplace_back'),
                                   'each entry is appended to the result', 'GetActiveEdges:entry-skipped')


def check_outputs_statted(ctx, rid, prog):
    """DependencyScan::RecomputeNodeDirty: on every visit of an edge (first scan and re-scan after a
    dyndep load alike) the loop that stats the edge's outputs runs before their dirtiness is
    computed - outputs added since the last visit have no mtime yet."""
    from rules import loops_over
    scan = prog.fn('DependencyScan::RecomputeNodeDirty')
    heads = []
    for l in loops_over(scan, 'Edge::outputs_'):
        body = scan.reachable_from(l['body']) | {l['body']}
        if any(e.get('name') in ('Node::StatIfNecessary', 'Node::Stat') and e['_b'] in body and l['header'] in scan.reachable_from(e['_b'])
               for e in scan.events('call')):
            heads.append(l['header'])
    uses = [e for e in scan.events('call') if e.get('name') in ('DependencyScan::RecomputeOutputsDirty', 'RecomputeOutputsDirtyCache::all',
                                                                'RecomputeOutputsDirtyCache::depfile')]
    dom = scan.dominators()
    ok = bool(heads) and bool(uses) and all(any(h in dom.get(u['_b'], ()) for h in heads) for u in uses)
    # ... and after the scan-time dyndep load, which may add outputs
    stats = [e for e in scan.events('call') if e.get('name') in ('Node::StatIfNecessary', 'Node::Stat') and
             any(e['_b'] in (scan.reachable_from(l['body']) | {l['body']}) for l in loops_over(scan, 'Edge::outputs_'))]
    loads = [e for e in scan.calls('DependencyScan::LoadDyndeps')]
    late = not any(scan.ev_reaches(s, l) for s in stats for l in loads)
    ctx.check(rid, late and bool(stats), scan.name, 'scan:outputs-statted-before-dyndep-load', scan.loc,
              'outputs are statted after the edge\'s dyndep file was loaded (it may add outputs)')
    ctx.check(rid, ok, scan.name, 'scan:outputs-not-statted-on-every-visit', scan.loc,
              'the per-output stat loop dominates every outputs-dirty computation of the scan (%d loop(s), %d use(s))' % (len(heads), len(uses)))


def check_midbuild_targets_scheduled(ctx, rid, prog):
    """Plan::RefreshDyndepDependents: targets added to the plan while the build is running
    (AddTarget for the validation nodes a re-scan reports) are followed, before the function
    succeeds, by a pass that schedules planned edges whose inputs are already ready - nothing else
    would (ScheduleInitialEdges runs once, NodeFinished only when an input finishes)."""
    from rules import loops_over
    from model import ret_value_class
    f = prog.fn('Plan::RefreshDyndepDependents')
    adds = [e for e in f.events('call') if e.get('name') in ('Plan::AddTarget', 'Plan::AddSubTarget')]
    heads = {l['header'] for l in loops_over(f, 'Plan::want_')}
    def schedules(x):
        return (x['k'] == 'call' and x.get('name') in ('Plan::ScheduleWork', 'Plan::EdgeMaybeReady', 'Plan::ScheduleInitialEdges')) or \
            x.get('_b') in heads
    for e in adds:
        r = f.find_path(e, lambda x: x['k'] == 'ret' and ret_value_class(prog, f, x) == 'success', is_blocker=schedules)
        ctx.check(rid, r is None, f.name, 'midbuild-target:never-scheduled', f.where(e),
                  'a target planned during the build is followed by a scheduling pass over ready edges',
                  witness=None if r is None else {'blocks': r[0]})
    if not adds:
        ctx.inst(rid, f.loc, 'RefreshDyndepDependents plans no new targets')


def check_logged_mtime_compared(ctx, rid, prog):
    """In both instantiations of the output check: when the output has a log entry and there is a newest input, no
    clean verdict (`return false`) is reachable without the comparison `logged mtime < newest input` having been made.
    The only ways around the comparison are: no build log, no entry for the output, no input at all."""
    def way_around(atom, pol):
        a = dstr(atom)
        if mentions_field(atom, 'RecomputeOutputsDirtyCache::buildLog_') and 'LookupByOutput' not in a:
            return pol is False
        if mentions_call(atom, 'RecomputeOutputsDirtyCache::CachedLogEntry::LookupByOutput') or \
                'CachedLogEntry::entry_' in a or mentions_call(atom, 'RecomputeOutputsDirtyCache::CachedLogEntry::is_valid'):
            return pol is False
        sa = strip(atom)
        if isinstance(sa, dict) and sa.get('k') == 'var' and var_base(sa) == 'most_recent_input':
            return pol is False
        return False
    n = 0
    for name in OUTDIRTY:
        f = prog.fn(name)
        cmp_blocks = {bid for bid, a, rl, rr in ts_comparisons(f) if (rl, rr) == ('LOG', 'IN')}
        if not cmp_blocks:
            ctx.violation(rid, f.name, 'logged-mtime:comparison-absent', f.loc,
                          '%s no longer compares the logged mtime with the newest input' % f.name)
            n += 1
            continue
        # the parameter (not a local of the same name)
        has_param = any(p.get('n') == 'most_recent_input' for p in (f.params or []))

        def edge_ok(b, i, s, f=f, cmp_blocks=cmp_blocks):
            if b in cmp_blocks:
                return False
            return not any(way_around(atom, pol) for k, pol, atom in f.edge_facts(b, i))
        r = f.find_path(None, lambda x: x['k'] == 'ret' and const_value(x.get('e')) == 0, from_succ=f.entry, edge_ok=edge_ok)
        n += 1
        ctx.check(rid, r is None and has_param, f.name, 'logged-mtime:comparison-skipped', f.loc if r is None else f.where(r[1]),
                  'with a log entry and a newest input, %s says "clean" only after comparing the logged mtime with that input' % f.name,
                  witness=None if r is None else {'blocks': r[0]})
    return n


def check_recheck_is_full(ctx, rid, prog):
    """DependencyScan::RecomputeOutputsDirty (the re-check behind restat pruning): whatever it stores through its
    `outputs_dirty` out-parameter is the verdict of the full output check, RecomputeOutputsDirtyCache::all(most_recent_input)
    - never a constant or a shortcut - and every return that reports success has stored it."""
    rod = prog.fn('DependencyScan::RecomputeOutputsDirty')
    outp = None
    for p in rod.params or []:
        if 'bool *' in (p.get('ty') or '') or 'bool*' in (p.get('ty') or ''):
            outp = p['n']
    if outp is None:
        # the verdict is the return value: every return hands back what the full check said
        from rules import deep_resolve as _dr
        rets = list(rod.events('ret'))
        for e in rets:
            r = _dr(rod, e.get('e'))
            ctx.check(rid, mentions_call(r, 'RecomputeOutputsDirtyCache::all') and mentions_var(r, 'most_recent_input'), rod.name,
                      'recheck:verdict-not-from-full-check', rod.where(e),
                      'the re-check returns exactly what RecomputeOutputsDirtyCache::all(most_recent_input) says: `%s`' % (e.get('src') or '')[:70])
        ctx.check(rid, bool(rets), rod.name, 'recheck:success-without-verdict', rod.loc, 'the re-check returns its verdict')
        return
    stores = [e for e in rod.stores() if mentions_var(e.get('l'), outp) and strip(e.get('l')).get('k') != 'var']
    from rules import deep_resolve

    def full(e):
        r = deep_resolve(rod, e.get('r') if e.get('k') != 'decl' else e.get('init'))
        return mentions_call(r, 'RecomputeOutputsDirtyCache::all') and mentions_var(r, 'most_recent_input')
    for e in stores:
        ctx.check(rid, full(e), rod.name, 'recheck:verdict-not-from-full-check', rod.where(e),
                  'the re-check reports exactly what RecomputeOutputsDirtyCache::all(most_recent_input) says: `%s`' % (e.get('src') or '')[:70])
    r = rod.find_path(None, lambda x: x['k'] == 'ret' and const_value(x.get('e')) != 0, from_succ=rod.entry,
                      is_blocker=lambda x: x in stores and full(x))
    ctx.check(rid, bool(stores) and r is None, rod.name, 'recheck:success-without-verdict', rod.loc,
              'every successful return of the re-check has stored the full verdict',
              witness=None if r is None else {'blocks': r[0]})


def check_readfile_status(ctx, rid, prog, fnames):
    """A file that exists but cannot be read is an error, not an empty file: from a DiskInterface / FileReader ReadFile
    call no path reaches a return that does not report failure unless it took a branch that established "the status is
    Okay" or "the status is NotFound" (or "not OtherError").  NotFound may be treated as empty; OtherError may not."""
    from rules import is_success_return
    n = 0
    for name in fnames:
        for f in prog.fns(name):
            for e in f.events('call'):
                if (e.get('name') or '').split('::')[-1] != 'ReadFile' or not any(c in (e.get('name') or '') for c in ('DiskInterface', 'FileReader')):
                    continue
                n += 1

                def explains(k, p):
                    return (p is True and ('::Okay' in k or '::NotFound' in k)) or (p is False and '::OtherError' in k)
                # the part of the function that can be reached without taking an explaining branch
                r = f.find_path(e, lambda x: is_success_return(prog, f, x), sensitive=False,
                                edge_ok=lambda b, i, s2, f=f: not any(explains(k, p) for k, p, a in f.edge_facts(b, i)))
                ctx.check(rid, r is None, f.name, 'ReadFile:error-status-accepted', f.where(e),
                          'after ReadFile %s goes on only when the status is known to be Okay or NotFound' % f.name,
                          witness=None if r is None else {'blocks': r[0]})
    return n


def check_pollfd_index(ctx, rid, prog):
    """SubprocessSet::DoWork: an index into the pollfd array that was taken as "the number of entries so far" names the
    entry that is pushed next.  For every subscript fds[IDX] with IDX defined as the running count: under the
    conditions the subscript is used (e.g. jobserver_fd_ >= 0), the first entry pushed after the definition of IDX
    is the one built from what that use is about; no other entry gets in between."""
    n = 0
    for f in prog.fns('SubprocessSet::DoWork'):
        pushes = [e for e in f.events('call') if (e.get('name') or '').endswith('::push_back') and mentions_var(e.get('recv'), 'fds')]
        for u in f.events('call'):
            if not (u.get('op') == '[]' and mentions_var(u.get('recv'), 'fds')):
                continue
            idx = strip((u.get('args') or [None])[0])
            if not (isinstance(idx, dict) and idx.get('k') == 'var' and idx.get('vk') == 'local'):
                continue
            decls = [d for d in f.events('decl') if d['n'] == idx['n'] and d.get('init') is not None]
            if len(decls) != 1 or f.single_def(idx['n']) is None:
                continue        # a cursor that is advanced (cur_nfd++), not a saved position
            d = decls[0]
            n += 1
            # what the use is conditioned on
            use_facts = {(k, p) for k, (p, a) in f.facts_at(u).items()}
            subject = {x['n'] for k, (p, a) in f.facts_at(u).items() for x in walk(a) if x.get('k') == 'mem'}

            def about_subject(e, subject=subject):
                a = strip((e.get('args') or [None])[0])
                init = f.single_def(a['n']) if isinstance(a, dict) and a.get('k') == 'var' else a
                return any(x.get('k') == 'mem' and x['n'] in subject for x in walk(init))
            mine = [e for e in pushes if about_subject(e)]
            r = f.find_path(d, lambda x: x in pushes and x not in mine, is_blocker=lambda x: x in mine or x is u, sensitive=False,
                            edge_ok=lambda b, i, s2: not any((k, not p) in use_facts for k, p, a in f.edge_facts(b, i)))
            ctx.check(rid, bool(mine) and r is None, f.name, 'pollfd:index-names-another-entry:%s' % idx['n'], f.where(u),
                      '`%s` (= the number of entries when it was taken) is the position of the entry pushed for %s' % (idx['n'], sorted(subject)),
                      witness=None if r is None else {'blocks': r[0]})
    return n


def all_clean_loops(prog, cn):
    """Loops of Plan::CleanNode over the regular inputs of the dependent edge ([begin, end - order_only)) that can only
    go round while the element is clean: leaving such a loop through its condition means "no regular input is dirty"
    (what `find_if(begin, end, dirty) == end` / `none_of` say in one call)."""
    from rules import loops_over, loop_blocks
    out = []
    for l in loops_over(cn, 'Edge::inputs_'):
        if l['full'] or 'Edge::order_only_deps_' not in (l.get('bound') or ''):
            continue
        body = loop_blocks(cn, l)
        seen, st, escapes = set(), [l['body']], False
        while st:
            b = st.pop()
            if b in seen or b not in body:
                continue
            seen.add(b)
            for i, s2 in enumerate(cn.blocks[b]['succ']):
                if s2 is None:
                    continue
                if any(pol is False and (mentions_field(a, 'Node::dirty_') or mentions_call(a, 'Node::dirty')) and
                       strip(a).get('k') in ('mem', 'call') for k, pol, a in cn.edge_facts(b, i)):
                    continue        # this way the element is known clean
                if s2 == l['header']:
                    escapes = True
                st.append(s2)
        if not escapes and len(seen) >= 1:
            out.append(l)
    return out


def all_clean_base(prog, cn):
    """Leaf predicate for rules.justified(): the condition says "every regular input of the edge is clean"."""
    loops = all_clean_loops(prog, cn)

    def base(g, a, pol):
        a = strip(a)
        if not isinstance(a, dict):
            return False
        s = dstr(a)
        if pol and 'find_if' in s and 'end' in s.split('find_if')[-1]:
            return True
        if (pol and 'none_of' in s) or (pol is False and 'any_of' in s):
            return True
        if pol and a.get('k') == 'call' and (a.get('op') == '==' or 'operator==' in (a.get('name') or '')):
            ops = ([a['recv']] if a.get('recv') is not None else []) + list(a.get('args') or [])
            return any(isinstance(strip(o), dict) and strip(o).get('k') == 'var' and strip(o).get('n') == l['var'] for o in ops for l in loops)
        return False
    return base
