"""C08 — the build log survives torn writes, restarts and compaction (DESIGN 5.8)."""
import re

from facts import AnalysisBroken
from model import (ret_value_class, dstr, strip, fact_holds, mentions_field, mentions_call, mentions_var,
                   const_value, walk)
from rules import (guarded, calls_to, field_writes, who_may_write, who_may_call, full_range,
                   loops_over, every_iteration_passes, basename, origins, is_var, is_enum,
                   lastname, dominated_by, reject_if, must_pass, reached_only_via, deep_resolve,
                   header_iff_empty, linear, block_env, justified, str_value)

ENTRY_FIELDS = ['BuildLog::LogEntry::start_time', 'BuildLog::LogEntry::end_time',
                'BuildLog::LogEntry::mtime', 'BuildLog::LogEntry::command_hash']


def uses_var(e, v):
    for k in ('l', 'r', 'e', 'init', 'recv', 'args', 'b', 'i'):
        if k in e and any(x.get('k') == 'var' and x['n'] == v for x in walk(e[k])):
            return True
    return False


def fmt_convs(fmt):
    """[(conversion, following literal)] of a printf format."""
    return re.findall(r'%([0-9]*l{0,2}[a-zA-Z])([^%]*)', fmt)


def run(ctx):
    prog = ctx.prog
    R = ctx.rule
    load = prog.fn('BuildLog::Load')
    rc = prog.fn('BuildLog::RecordCommand')
    we = prog.fn('BuildLog::WriteEntry')

    # ---- N1: checked splitting ---------------------------------------------------------------------
    R('C08.N1', 'N', 'in BuildLog::Load every memchr result is tested for null before any use, and '
      'the null side leaves the record without touching it (a torn line is skipped)')
    n = 0
    for e in load.calls('memchr'):
        n += 1
        # the variable receiving the result
        asg = [x for x in load.blocks[e['_b']]['ev'][e['_i']:] if x['k'] in ('asg', 'decl') and
               mentions_call(x.get('r') or x.get('init'), 'memchr')]
        if not asg:
            ctx.violation('C08.N1', load.name, 'memchr:result-not-stored', load.where(e), 'memchr result is not stored')
            continue
        a = asg[0]
        v = strip(a['l'])['n'] if a['k'] == 'asg' else a['n']
        # the next branch after the store (straight-line blocks in between - the seam of an inlined helper - are walked through)
        tb, extra = a['_b'], []
        for _ in range(6):
            if load.blocks[tb].get('term') or len(load.succ(tb)) != 1:
                break
            tb = load.succ(tb)[0]
            extra += load.blocks[tb]['ev']
        c = strip(load.eff_cond(tb))
        tested = isinstance(c, dict) and any(x.get('k') == 'var' and x['n'] == v for x in walk(c))
        # nothing may touch the result between the call and its test
        between = [x for x in load.blocks[a['_b']]['ev'][a['_i'] + 1:] + extra if uses_var(x, v)]
        tested = tested and not between
        ctx.check('C08.N1', tested, load.name, 'memchr:unchecked:%s' % v, load.where(e),
                  'the result of memchr (`%s`) is tested right away' % v)
        if not tested:
            continue
        nul = None
        for i, s in enumerate(load.blocks[tb]['succ']):
            ef = load.edge_fact(tb, i)
            if ef and ef[1] is False and is_var(v)(ef[2]):
                nul = s
        if nul is None:
            ctx.violation('C08.N1', load.name, 'memchr:null-edge-unknown:%s' % v, load.where(e), 'cannot find the null edge')
            continue
        r = load.find_path(None, lambda x: uses_var(x, v) and not (x['k'] == 'asg' and is_var(v)(x['l']) and not uses_var({'r': x.get('r')}, v)),
                           from_succ=nul, is_blocker=lambda x: x['k'] == 'call' and x.get('name') == 'LineReader::ReadLine')
        ctx.check('C08.N1', r is None, load.name, 'memchr:null-used:%s' % v, load.where(e),
                  'on the null side `%s` is not used before the next line is read' % v,
                  witness=None if r is None else {'blocks': r[0], 'use': r[1].get('src')})
        r = load.find_path(None, lambda x: x['k'] == 'asg' and any(mentions_field(x['l'], f) for f in ENTRY_FIELDS),
                           from_succ=nul, is_blocker=lambda x: x['k'] == 'call' and x.get('name') == 'LineReader::ReadLine')
        ctx.check('C08.N1', r is None, load.name, 'memchr:null-records:%s' % v, load.where(e),
                  'a line with a missing separator updates no entry')
        # ... and only that line: the loader goes on with the next line (complete records may follow a torn one since
        # ninja appends behind it), it does not stop reading
        r = load.find_path(None, lambda x: x['k'] in ('ret', 'exit') or (x['k'] == 'call' and x.get('name') == 'fclose'),
                           from_succ=nul, is_blocker=lambda x: x['k'] == 'call' and x.get('name') == 'LineReader::ReadLine')
        ctx.check('C08.N1', r is None, load.name, 'memchr:null-stops-load:%s' % v, load.where(e),
                  'a line with a missing separator is skipped and the next line is read',
                  witness=None if r is None else {'blocks': r[0]})
    # the incomplete last line (no newline) is skipped
    le = None
    for bid, b in load.blocks.items():
        for i, s in enumerate(b['succ']):
            ef = load.edge_fact(bid, i)
            if ef and ef[1] is False and is_var('line_end')(ef[2]):
                le = s
    if le is None:
        ctx.violation('C08.N1', load.name, 'line_end:unchecked', load.loc, 'Load does not test line_end for null')
    else:
        r = load.find_path(None, lambda x: x['k'] == 'asg' and any(mentions_field(x['l'], f) for f in ENTRY_FIELDS),
                           from_succ=le, is_blocker=lambda x: x['k'] == 'call' and x.get('name') == 'LineReader::ReadLine')
        ctx.check('C08.N1', r is None, load.name, 'line_end:null-records', load.loc,
                  'a line without a terminating newline (torn write) updates no entry')
    ctx.floor('C08.N1', 9)
    if n < 4:
        ctx.floor_failures.append('C08.N1: %d memchr sites in BuildLog::Load (4 separators confirmed)' % n)

    # ---- O1: record atomicity --------------------------------------------------------------------
    R('C08.O1', 'O', 'one record = one stdio call whose format ends in exactly one newline; in '
      'RecordCommand every WriteEntry is followed by fflush before the next record or success')
    outs = [e for e in we.events('call') if e.get('name') in ('fprintf', 'fwrite', 'fputs', 'fputc', 'putc', 'vfprintf')]
    ctx.check('C08.O1', len(outs) == 1 and outs[0].get('name') == 'fprintf', we.name, 'WriteEntry:output-calls', we.loc,
              'WriteEntry performs exactly one stdio output call (%s)' % [o.get('name') for o in outs])
    fmt = None
    if outs:
        f0 = strip(outs[0]['args'][1])
        fmt = str_value(prog, we, f0)
        ctx.check('C08.O1', fmt is not None and fmt.endswith('\n') and fmt.count('\n') == 1, we.name,
                  'WriteEntry:format-newline', we.where(outs[0]), 'the record format ends in exactly one \\n: %r' % fmt)
    for e in rc.calls('BuildLog::WriteEntry'):
        r = rc.find_path(e, lambda x: (x['k'] == 'ret' and const_value(x.get('e')) == 1) or
                         (x['k'] == 'call' and x.get('name') == 'BuildLog::WriteEntry'),
                         is_blocker=lambda x: (x['k'] == 'call' and x.get('name') == 'fflush') or
                         (x['k'] == 'ret' and const_value(x.get('e')) == 0),
                         edge_ok=lambda b, i, s: not (rc.edge_fact(b, i) and mentions_call(rc.edge_fact(b, i)[2], 'BuildLog::WriteEntry')
                                                      and rc.edge_fact(b, i)[1] is False))
        ctx.check('C08.O1', r is None, rc.name, 'RecordCommand:no-flush-after-record', rc.where(e),
                  'each record is flushed before the next one / before success is reported',
                  witness=None if r is None else {'blocks': r[0]})
    for f, e in calls_to(prog, 'BuildLog::WriteEntry'):
        ctx.check('C08.O1', not e.get('disc'), f.name, 'WriteEntry:result-ignored', f.where(e),
                  'the result of WriteEntry is checked in %s' % f.name)
    ctx.floor('C08.O1', 5)

    # ---- TA1: writer / reader format agreement ------------------------------------------------------
    R('C08.TA1', 'TA', 'the record format written by WriteEntry and the parse sequence of Load agree '
      'field by field (conversion, base, separator, order); header signature and versions agree')
    if fmt:
        convs = fmt_convs(fmt)
        wfields = [dstr(a).split('::')[-1] for a in outs[0]['args'][2:]]
        wfields = [w.replace('.c_str()', '') for w in wfields]
        seps = [c[1] for c in convs]
        ctx.check('C08.TA1', len(convs) == 5 and all(s == '\t' for s in seps[:-1]) and seps[-1] == '\n', we.name,
                  'format:separators', we.loc, 'five fields separated by tabs, terminated by newline: %s' % convs)
        # reader
        sep = [e for e in load.events('decl') if e['n'].split('#')[0] == 'kFieldSeparator']
        ctx.check('C08.TA1', len(sep) == 1 and const_value(sep[0].get('init')) == 9, load.name, 'reader:separator', load.loc,
                  'the reader splits at the tab character')
        for e in load.calls('memchr'):
            ctx.check('C08.TA1', mentions_var(e['args'][1], 'kFieldSeparator'), load.name, 'reader:memchr-separator',
                      load.where(e), 'memchr searches for kFieldSeparator')
        seq = []
        for e in load.events('call'):
            nm = e.get('name')
            if nm in ('atoi', 'atol', 'strtol', 'strtoll', 'strtoul', 'strtoull'):
                base = const_value(e['args'][2]) if len(e['args']) > 2 else 10
                seq.append((nm, base, e))
        order = sorted(seq, key=lambda t: -t[2]['_b'] * 1000 + t[2]['_i'])   # CFG order: higher block ids first
        kinds = [(nm, base) for nm, base, e in order]
        expect_r = {'d': [('atoi', 10)], 'ld': [('strtoll', 10), ('strtol', 10)], 'lld': [('strtoll', 10)],
                    'lx': [('strtoull', 16), ('strtoul', 16)], 'llx': [('strtoull', 16)]}
        wnum = [c[0] for c in convs if c[0] != 's']
        ok = len(kinds) == len(wnum) and all(k in expect_r.get(w, []) for k, w in zip(kinds, wnum))
        ctx.check('C08.TA1', ok, load.name, 'format:numeric-conversions', load.loc,
                  'numeric fields: written as %s, parsed as %s' % (wnum, kinds))
        # field order: which entry field receives which parsed value
        wnumf = [w for w, c in zip(wfields, convs) if c[0] != 's']
        rfields = []
        for nm, base, e in order:
            tgt = None
            for x in load.stores():
                if x['_b'] == e['_b'] and x['_i'] >= e['_i'] and mentions_call(x.get('r'), nm):
                    tgt = strip(x['l'])
                    break
            if isinstance(tgt, dict) and tgt.get('k') == 'var':
                v = tgt['n']
                fld = [dstr(y['l']).split('::')[-1] for y in load.stores() if mentions_var(y.get('r'), v)
                       and any(mentions_field(y['l'], f) for f in ENTRY_FIELDS)]
                rfields.append(fld[0] if fld else '?' + v)
            elif isinstance(tgt, dict):
                rfields.append(dstr(tgt).split('::')[-1])
            else:
                rfields.append('?')
        ctx.check('C08.TA1', rfields == wnumf, load.name, 'format:field-order', load.loc,
                  'field order: written %s, read %s' % (wnumf, rfields))
        ctx.check('C08.TA1', wfields[3] == 'output' and convs[3][0] == 's', we.name, 'format:output-field', we.loc,
                  'the fourth field is the output path (%s)' % wfields)
    sig = prog.global_('kFileSignature')
    cur = prog.global_('kCurrentVersion')
    old = prog.global_('kOldestSupportedVersion')
    ctx.check('C08.TA1', old.get('cv') is not None and cur.get('cv') is not None and old['cv'] <= cur['cv'],
              'kOldestSupportedVersion', 'versions', 'src/build_log.cc:%s' % cur['line'],
              'kOldestSupportedVersion (%s) <= kCurrentVersion (%s)' % (old.get('cv'), cur.get('cv')))
    nsig = 0
    for f, e in list(calls_to(prog, 'fprintf')) + list(calls_to(prog, 'sscanf')):
        if f.cls == 'BuildLog' and mentions_var(e['args'][1], 'kFileSignature'):
            nsig += 1
            if e['name'] == 'fprintf':
                ctx.check('C08.TA1', mentions_var(e['args'][2], 'kCurrentVersion'), f.name, 'header:version-written',
                          f.where(e), '%s writes the header with kCurrentVersion' % f.name)
            else:
                ctx.inst('C08.TA1', f.where(e), 'the reader parses the header with the same kFileSignature')
    ctx.check('C08.TA1', nsig >= 4, 'BuildLog', 'header:signature-sites', load.loc,
              'writer(s) and reader use the kFileSignature constant (%d sites)' % nsig)
    # the line reader looks for the newline in everything it has: each search ends at buf_end_
    lrd = prog.fn('LineReader::ReadLine')
    nsearch = 0
    for e in lrd.calls('memchr'):
        nsearch += 1
        env = block_env(lrd, e)
        end = linear(lrd, {'k': 'bin', 'op': '+', 'l': e['args'][0], 'r': e['args'][2]}, env)
        want = linear(lrd, {'k': 'mem', 'n': 'LineReader::buf_end_', 'b': {'k': 'this'}, 'arrow': True}, env)
        ctx.check('C08.N1', end == want and const_value(e['args'][1]) == 10, lrd.name, 'LineReader:search-stops-short', lrd.where(e),
                  'memchr(p, \'\\n\', n) searches up to the end of the buffered data (p + n = %s, buf_end_ = %s)' % (end, want))
    ctx.check('C08.N1', nsearch >= 2, lrd.name, 'LineReader:searches', lrd.loc, '%d newline searches in LineReader::ReadLine' % nsearch)
    # appending starts at a line boundary: on the "file is not empty" side of OpenForWriteIfNeeded every
    # success path looks at the last byte of the existing log, and a newline is written when it is not one
    owf = prog.fn('BuildLog::OpenForWriteIfNeeded')
    def last_byte_probe(x):
        return x['k'] == 'call' and x.get('name') in ('fseek', 'fseeko', 'lseek', 'pread') and \
            any(const_value(a) == -1 for a in (x.get('args') or []))
    nl_writes = [x for x in owf.events('call') if x.get('name') in ('fputc', 'putc', 'fwrite', 'fputs', 'fprintf') and
                 any(const_value(a) == 10 or (isinstance(strip(a), dict) and strip(a).get('k') == 'str' and strip(a).get('v') == '\n')
                     for a in (x.get('args') or []))]
    nonempty = [(bid, i, s2) for bid, b in owf.blocks.items() for i, s2 in enumerate(b['succ']) if s2 is not None and
                any(pol is False and mentions_call(atom, 'ftell') and isinstance(strip(atom), dict) and strip(atom).get('k') == 'bin' and
                    const_value(strip(atom)['r']) == 0 for k, pol, atom in owf.edge_facts(bid, i))]
    okl = bool(nonempty) and bool(nl_writes)
    for bid, i, s2 in nonempty:
        # (the only way round the probe is a failed open of the file for reading)
        def not_open_failure(b2, i2, s3):
            return not any(pol is False and mentions_call(deep_resolve(owf, atom), 'fopen') for k, pol, atom in owf.edge_facts(b2, i2))
        r = owf.find_path(None, lambda x: x['k'] == 'ret' and ret_value_class(prog, owf, x) == 'success', from_succ=s2,
                          is_blocker=last_byte_probe, edge_ok=not_open_failure)
        okl = okl and r is None
    ctx.check('C08.O1', okl, owf.name, 'append:not-at-line-boundary', owf.loc,
              'before appending to a non-empty log its last byte is examined and a missing newline is supplied '
              '(a record is never glued to a torn line)')
    header_iff_empty(ctx, 'C08.TA1', prog.fn('BuildLog::OpenForWriteIfNeeded'),
                     lambda x: x.get('name') == 'fprintf' and mentions_var(x.get('args'), 'kFileSignature'), 'BuildLog::log_file_')
    ctx.floor('C08.TA1', 14)

    # ---- O2: last wins, whole record -----------------------------------------------------------
    R('C08.O2', 'O', 'when a record is applied (Load, RecordCommand), all four value fields of the '
      'entry are overwritten on every path to the next record')
    for f, nxt in ((load, 'LineReader::ReadLine'), (rc, 'BuildLog::WriteEntry')):
        firsts = [e for e in f.events('asg') if any(mentions_field(e['l'], x) for x in ENTRY_FIELDS)]
        if not firsts:
            ctx.violation('C08.O2', f.name, 'entry:not-updated', f.loc, '%s does not update log entries' % f.name)
            continue
        first = max(firsts, key=lambda e: (e['_b'], -e['_i']))
        if f is load:
            # the later line of the file wins: once a complete record has been parsed (its output looked up in the
            # table), nothing keeps the older entry - every way to the next line passes the stores
            looked = [x for x in f.events('call') if lastname(x.get('name') or '').split('<')[0] == 'find' and mentions_field(x.get('recv'), 'BuildLog::entries_')]
            ctx.check('C08.O2', len(looked) == 1, f.name, 'entry:lookup-sites', f.loc, 'Load looks each record\'s output up once')
            for lk in looked:
                for fld in ENTRY_FIELDS:
                    r = f.find_path(lk, lambda x: x['k'] == 'call' and x.get('name') == nxt,
                                    is_blocker=lambda x, fld=fld: (x['k'] == 'asg' and mentions_field(x['l'], fld)) or x['k'] == 'ret')
                    ctx.check('C08.O2', r is None, f.name, 'entry:older-record-kept:%s' % fld.split('::')[-1], f.where(lk),
                              'a record for an output already in the table replaces it (%s): the later line wins' % fld.split('::')[-1],
                              witness=None if r is None else {'blocks': r[0]})
        for fld in ENTRY_FIELDS:
            r = f.find_path(None, lambda x: x['k'] == 'call' and x.get('name') == nxt and f.ev_reaches(first, x),
                            from_succ=first['_b'],
                            is_blocker=lambda x, fld=fld: (x['k'] == 'asg' and mentions_field(x['l'], fld)) or x['k'] == 'ret')
            ctx.check('C08.O2', r is None, f.name, 'entry:field-not-updated:%s' % fld.split('::')[-1], f.where(first),
                      '%s is overwritten whenever %s applies a record' % (fld.split('::')[-1], f.name))
    ctx.floor('C08.O2', 8)

    # ---- X1: unsupported version => discard, not error -----------------------------------------
    R('C08.X1', 'X', 'a log of an unsupported version is unlinked and reported as LOAD_NOT_FOUND '
      '(rebuild, not an error); callers fail only on LOAD_ERROR')
    n = 0
    for bid, b in load.blocks.items():
        for i, s in enumerate(b['succ']):
            ef = load.edge_fact(bid, i)
            if not (ef and ef[1] is True and s is not None):
                continue
            k = ef[0]
            if ('log_version <' in k and 'kOldestSupportedVersion' in k) or ('kCurrentVersion <' in k and 'log_version' in k):
                n += 1
                r = load.find_path(None, lambda x: x['k'] == 'ret' and not is_enum('LOAD_NOT_FOUND')(x.get('e')), from_succ=s,
                                   is_blocker=lambda x: x['k'] == 'ret', init_facts=[(ef[0], ef[1])])
                ctx.check('C08.X1', r is None, load.name, 'bad-version:not-NOT_FOUND', 'src/build_log.cc:%s' % load.term(bid)['line'],
                          'an unsupported version leads to LOAD_NOT_FOUND (%s)' % k)
                r = load.find_path(None, lambda x: x['k'] == 'ret', from_succ=s, init_facts=[(ef[0], ef[1])],
                                   is_blocker=lambda x: x['k'] == 'call' and x.get('name') in ('platformAwareUnlink', 'unlink', 'remove'))
                ctx.check('C08.X1', r is None, load.name, 'bad-version:not-unlinked', 'src/build_log.cc:%s' % load.term(bid)['line'],
                          'the unsupported log is deleted before returning (later appends start a fresh file)')
                r = load.find_path(None, lambda x: x['k'] == 'asg' and any(mentions_field(x['l'], f) for f in ENTRY_FIELDS),
                                   from_succ=s, init_facts=[(ef[0], ef[1])])
                ctx.check('C08.X1', r is None, load.name, 'bad-version:entries-loaded', 'src/build_log.cc:%s' % load.term(bid)['line'],
                          'no entry is loaded from an unsupported log')
    if n < 2:
        ctx.violation('C08.X1', load.name, 'bad-version:tests-absent', load.loc, 'version range tests missing (%d found)' % n)
    ob = prog.fn('NinjaMain::OpenBuildLog')
    reject_if(ctx, 'C08.X1', ob, lambda a: strip(a).get('k') == 'bin' and is_enum('LOAD_ERROR')(strip(a)['r']), True,
              'LOAD_ERROR fails the invocation', 'OpenBuildLog:LOAD_ERROR')
    for bid, b in ob.blocks.items():
        for i, s in enumerate(b['succ']):
            ef = ob.edge_fact(bid, i)
            if ef and ef[1] is True and 'LOAD_NOT_FOUND' in ef[0] and s is not None:
                r = ob.find_path(None, lambda x: x['k'] == 'ret' and const_value(x.get('e')) == 0, from_succ=s,
                                 is_blocker=lambda x: x['k'] == 'ret')
                ctx.check('C08.X1', r is None, ob.name, 'OpenBuildLog:NOT_FOUND-fails', ob.loc,
                          'LOAD_NOT_FOUND is not treated as an error')
    ctx.floor('C08.X1', 7)

    # ---- W1: restat / recompact write sets -----------------------------------------------------
    R('C08.W1', 'W', 'BuildLog::Restat writes only LogEntry::mtime and only for the named outputs '
      '(full string equality); Recompact writes no entry field and erases only entries the user '
      'reports dead; IsPathDead is true only for a path without producer whose Stat is 0')
    rs = prog.fn('BuildLog::Restat')
    rp = prog.fn('BuildLog::Recompact')
    for f, allowed in ((rs, {'BuildLog::LogEntry::mtime'}), (rp, set())):
        ws = set()
        for e in f.events('asg'):
            for x in walk(e['l']):
                if x.get('k') == 'mem' and x['n'].startswith('BuildLog::LogEntry::'):
                    ws.add(x['n'])
        ctx.check('C08.W1', ws <= allowed, f.name, 'entry-fields-written:%s' % ','.join(sorted(ws - allowed)), f.loc,
                  '%s writes only %s of a log entry (writes: %s)' % (f.name, sorted(allowed) or 'nothing', sorted(ws)))
    for e in rs.events('asg'):
        if mentions_field(e['l'], 'BuildLog::LogEntry::mtime'):
            os_ = origins(rs, e.get('r'))
            ctx.check('C08.W1', bool(os_) and all(mentions_call(o, 'DiskInterface::Stat') for o in os_), rs.name,
                      'Restat:mtime-source', rs.where(e), 'the new mtime is the Stat() of the entry\'s output')
            # selection, either idiom:
            #  (A) a flag local: initialised from `output_count > 0`, cleared only under a full-string equality
            #      of the entry's output with outputs[j]; the write is guarded by that flag being false;
            #  (B) direct control flow: every path from the start of the iteration to the write takes an edge
            #      `output_count <= 0` / `!(output_count > 0)` or an edge where that equality holds.
            def full_eq(a):
                a = strip(deep_resolve(rs, a))
                return isinstance(a, dict) and a.get('k') == 'call' and lastname(a.get('name')).startswith('operator==') and \
                    mentions_field(a, 'BuildLog::LogEntry::output') and mentions_var(a, 'outputs')
            def no_outputs_named(k, pol, atom):
                a = strip(atom)
                if not (isinstance(a, dict) and a.get('k') == 'bin' and mentions_var(a, 'output_count')):
                    return False
                l, r, op = strip(a['l']), strip(a['r']), a['op']
                if op == '<' and const_value(l) == 0 and mentions_var(r, 'output_count'):     # 0 < output_count
                    return pol is False
                if op == '<' and mentions_var(l, 'output_count') and const_value(r) == 1:     # output_count < 1
                    return pol is True
                if op == '==' and const_value(r) == 0:
                    return pol is True
                return False
            okA = False
            flags = [k for k, (pol, a) in rs.facts_at(e).items() if pol is False and isinstance(strip(a), dict) and
                     strip(a).get('k') == 'var' and strip(a).get('vk') == 'local']
            for fl in flags:
                defs = [x for x in rs.events() if (x['k'] == 'decl' and x['n'] == fl and x.get('init') is not None) or
                        (x['k'] == 'asg' and is_var(fl)(x['l']))]
                inits = [x for x in defs if x['k'] == 'decl']
                clears = [x for x in defs if x['k'] == 'asg']
                if len(inits) == 1 and mentions_var(inits[0]['init'], 'output_count') and clears and \
                        all(const_value(x.get('r')) == 0 and fact_holds(rs.facts_at(x), full_eq, True) for x in clears):
                    okA = True
            # (C) the guard in force at the write implies it, looking through composites, flags and helper predicates
            def base(g, a, pol):
                a = strip(a)
                if not isinstance(a, dict):
                    return False
                if no_outputs_named(None, pol, a):
                    return True
                if pol and a.get('k') == 'call' and lastname(a.get('name')).startswith('operator=='):
                    sides = ([a['recv']] if a.get('recv') is not None else []) + list(a.get('args') or [])
                    if len(sides) == 2:
                        for x, y in (sides, sides[::-1]):
                            ox = [strip(o) for o in origins(g, deep_resolve(g, x))]
                            oy = [strip(o) for o in origins(g, y)]
                            if ox and all(mentions_field(o, 'BuildLog::LogEntry::output') for o in ox) and oy and \
                                    all(mentions_var(o, 'outputs') for o in oy):
                                return True
                return False
            if not okA:
                okA = any(justified(prog, rs, fa, fp, base) for fp, fa in rs.facts_at(e).values())
            okB = False
            if not okA:
                heads = [l for l in loops_over(rs, 'BuildLog::entries_')
                         if e['_b'] in rs.reachable_from(l['body']) | {l['body']}]
                for l in heads:
                    r = rs.find_path(None, lambda x: x is e, from_succ=l['body'], sensitive=False,
                                     edge_ok=lambda b, i, s2: not any(no_outputs_named(k, pol, atom) or (pol is True and full_eq(atom))
                                                                      for k, pol, atom in rs.edge_facts(b, i)))
                    okB = r is None
            ctx.check('C08.W1', okA or okB, rs.name, 'Restat:unselected-entry-updated', rs.where(e),
                      'an entry\'s mtime is refreshed only if no outputs were named or its output equals (==) a named one '
                      '(idiom %s)' % ('flag' if okA else 'control flow' if okB else 'none recognised'))
    # each entry is written back
    for f in (rs, rp):
        ls = loops_over(f, 'BuildLog::entries_')
        ctx.check('C08.W1', len(ls) >= 1 and all(l['full'] for l in ls), f.name, 'entries-loop', f.loc,
                  '%s iterates all entries' % f.name)
    for l in loops_over(rs, 'BuildLog::entries_'):
        every_iteration_passes(ctx, 'C08.W1', rs, l, lambda x: x['k'] == 'call' and x.get('name') == 'BuildLog::WriteEntry',
                               'every entry is written to the new file', 'Restat:entry-dropped')
    from rules import skip_conditions_exact
    for l in loops_over(rp, 'BuildLog::entries_'):
        skip_conditions_exact(ctx, 'C08.W1', rp, l, lambda x: x['k'] == 'call' and x.get('name') == 'BuildLog::WriteEntry',
                              [(lambda a: mentions_call(a, 'BuildLogUser::IsPathDead'), True)],
                              'an entry is left out of the compacted log only if the user reports its path dead',
                              'Recompact:entry-dropped')
    for e in rp.events('call'):
        if lastname(e.get('name')) == 'erase' and mentions_field(e.get('recv'), 'BuildLog::entries_'):
            os_ = origins(rp, e['args'][0])
            ok = bool(os_) and all(isinstance(o, dict) and o.get('k') == 'elem' and 'dead_outputs' in dstr(o.get('of')) for o in os_)
            ctx.check('C08.W1', ok, rp.name, 'Recompact:erase-non-dead', rp.where(e), 'only collected dead outputs are erased')
    for e in rp.events('call'):
        if lastname(e.get('name')) == 'push_back' and 'dead_outputs' in dstr(e.get('recv')):
            guarded(ctx, 'C08.W1', rp, e, lambda a: mentions_call(a, 'BuildLogUser::IsPathDead'), True,
                    'dead_outputs collects only paths reported dead', construct='Recompact:dead-list')
    ipd = prog.fn('NinjaMain::IsPathDead')
    for e in ipd.events('ret'):
        d = strip(e.get('e'))
        if const_value(d) == 0:
            continue
        ok = isinstance(d, dict) and d.get('k') == 'bin' and d['op'] == '==' and const_value(d['r']) == 0 and \
            all(isinstance(strip(o), dict) and (strip(o).get('name') or '').endswith('DiskInterface::Stat')
                for o in origins(ipd, d['l']))
        ctx.check('C08.W1', ok, ipd.name, 'IsPathDead:true-without-stat', ipd.where(e),
                  'IsPathDead answers true only as `Stat(path) == 0` (file gone): %s' % dstr(d))
        # and only for a path that has no producer
        r = ipd.find_path(None, lambda x: x is e, from_succ=ipd.entry,
                          edge_ok=lambda b, i, s: not (ipd.edge_fact(b, i) and mentions_field(ipd.edge_fact(b, i)[2], 'Node::in_edge_')
                                                       and ipd.edge_fact(b, i)[1] is True))
        ctx.check('C08.W1', r is not None, ipd.name, 'IsPathDead:shape', ipd.where(e), 'reachable for nodes without producer')
    reject_if(ctx, 'C08.W1', ipd, lambda a: mentions_field(a, 'Node::in_edge_'), True,
              'a path that still has a producer is never dead', 'IsPathDead:producer-ignored',
              success=lambda x: x['k'] == 'ret' and const_value(x.get('e')) != 0)
    ctx.floor('C08.W1', 12)

    # ---- O3: temp-then-replace ----------------------------------------------------------------------
    R('C08.O3', 'O', 'Recompact / Restat close the live log first, write a temporary file completely, '
      'close it, and only then replace the log; ReplaceContent unlinks then renames and propagates '
      'both failures')
    for f in (rp, rs):
        fo = [e for e in f.calls('fopen')]
        cl = [e for e in f.calls('BuildLog::Close')]
        rep = [e for e in f.calls('ReplaceContent')]
        ctx.check('C08.O3', len(fo) == 1 and len(cl) >= 1 and len(rep) == 1, f.name, 'rewrite:shape', f.loc,
                  '%s: Close, fopen(temp), ReplaceContent present' % f.name)
        if not (fo and cl and rep):
            continue
        ctx.check('C08.O3', f.dominates_ev(cl[0], fo[0]), f.name, 'rewrite:close-first', f.where(fo[0]),
                  'the live log is closed before the temporary file is created')
        tmp = dstr(deep_resolve(f, fo[0]['args'][0]))
        dst = dstr(deep_resolve(f, rep[0]['args'][0]))
        ctx.check('C08.O3', ('.recompact' in tmp or '.restat' in tmp) and tmp != dst, f.name, 'rewrite:temp-name', f.where(fo[0]),
                  'the rewrite goes to a separate temporary file (%s)' % tmp[:60])
        ctx.check('C08.O3', dstr(deep_resolve(f, rep[0]['args'][1])) in tmp or 'temp_path' in dstr(rep[0]['args'][1]), f.name,
                  'rewrite:replace-args', f.where(rep[0]), 'ReplaceContent(path, temp_path)')
        dominated_by(ctx, 'C08.O3', f, rep[0], lambda x: x['k'] == 'call' and x.get('name') == 'fclose',
                     'the temporary file is closed before it replaces the log', 'rewrite:replace-before-fclose')
        # the last bytes reach the disk when the stream is closed: the close that precedes the replace is looked at, and
        # when it fails the temporary file does not replace the log
        closes = [x for x in f.calls('fclose') if f.dominates_ev(x, rep[0])]
        for c in closes:
            ctx.check('C08.O3', not c.get('disc'), f.name, 'rewrite:fclose-result-dropped', f.where(c),
                      'the result of closing the temporary file is tested before it replaces the log')
            for i, s2 in enumerate(f.blocks[c['_b']]['succ']):
                if s2 is None:
                    continue
                if any(mentions_call(a, 'fclose') and ((p_ is True and '== -1' in dstr(a)) or (p_ is False and '== 0' in dstr(a)) or
                                                       (p_ is True and dstr(strip(a)).startswith('fclose')) or
                                                       (p_ is True and '!=' in dstr(a) and ' 0' in dstr(a)) or (p_ is True and '< 0' in dstr(a)))
                       for k_, p_, a in f.edge_facts(c['_b'], i)):
                    r = f.find_path(None, lambda x: x is rep[0], from_succ=s2)
                    ctx.check('C08.O3', r is None, f.name, 'rewrite:replace-after-failed-fclose', f.where(c),
                              'a failed close of the temporary file does not reach ReplaceContent', witness=None if r is None else {'blocks': r[0]})
        for w in f.calls('BuildLog::WriteEntry'):
            ctx.check('C08.O3', f.ev_reaches(w, rep[0]) and not f.ev_reaches(rep[0], w), f.name, 'rewrite:write-after-replace',
                      f.where(w), 'all entries are written before the replace')
    rcn = prog.fn('ReplaceContent')
    un = [e for e in rcn.calls() if e.get('name') in ('platformAwareUnlink', 'unlink')]
    rn = [e for e in rcn.calls('rename')]
    ctx.check('C08.O3', len(un) == 1 and len(rn) == 1 and rcn.dominates_ev(un[0], rn[0]), rcn.name, 'ReplaceContent:order', rcn.loc,
              'ReplaceContent unlinks the destination, then renames the new content over it')
    for e in un + rn:
        from rules import failure_successor
        bid = e['_b']
        bad = None
        for i, s in enumerate(rcn.blocks[bid]['succ']):
            ef = rcn.edge_fact(bid, i)
            # (the wrapper around unlink() may or may not have been folded into the condition)
            names_ = {e['name']} | ({'unlink', 'platformAwareUnlink'} if e in un else set())
            if ef and any(mentions_call(ef[2], n_) for n_ in names_) and ef[1] is True and s is not None:   # (x < 0) true
                # a destination that is not there is the one failure of the unlink that may be passed over
                def not_enoent(b2, i2, s3):
                    return not (e in un and any(p2 is True and 'errno' in k2 and '== 2' in k2 for k2, p2, a2 in rcn.edge_facts(b2, i2)))
                r = rcn.find_path(None, lambda x: x['k'] == 'ret' and const_value(x.get('e')) != 0, from_succ=s,
                                  is_blocker=lambda x: x['k'] == 'ret', edge_ok=not_enoent)
                bad = r
                ctx.check('C08.O3', r is None, rcn.name, 'ReplaceContent:failure-ignored:%s' % e['name'], rcn.where(e),
                          'a failed %s makes ReplaceContent fail' % e['name'])
    # a destination that does not exist (a log Load() removed because of a bad header) is no obstacle: every failure return
    # behind the failed unlink is under "errno is not ENOENT" (or the unlink is only attempted for an existing file)
    for e in un:
        rets = [x for x in rcn.events('ret') if const_value(x.get('e')) == 0 and
                fact_holds(rcn.facts_at(x), lambda a: mentions_call(a, e['name']) or mentions_call(a, 'unlink'), True)]
        for x in rets:
            ok = fact_holds(rcn.facts_at(x), lambda a: 'errno' in dstr(a) and '== 2' in dstr(a), False) or \
                fact_holds(rcn.facts_at(e), lambda a: mentions_call(a, 'stat') or mentions_call(a, 'access'), None)
            ctx.check('C08.O3', ok, rcn.name, 'ReplaceContent:missing-destination-is-an-error', rcn.where(x),
                      'ReplaceContent fails because of the unlink only when errno is not ENOENT (a log removed while loading can still be rewritten)')
    # a generator command may itself rewrite .ninja_log (cmake runs `ninja -t restat/recompact`): the build log
    # is closed before every generator edge is started and reopened lazily by the next record
    bb = prog.fn('Builder::Build')
    gen_edges = [(b, i, s2) for b, blk in bb.blocks.items() for i, s2 in enumerate(blk['succ']) if s2 is not None and
                 any('"generator"' in k and ((pol is True and 'empty()' not in k) or (pol is False and 'empty()' in k))
                     for k, pol, atom in bb.edge_facts(b, i))]
    okg = bool(gen_edges)
    for b, i, s2 in gen_edges:
        r = bb.find_path(None, lambda x: x['k'] == 'call' and x.get('name') == 'Builder::StartEdge', from_succ=s2,
                         is_blocker=lambda x: x['k'] == 'call' and x.get('name') == 'BuildLog::Close')
        okg = okg and r is None
    ses = list(bb.calls('Builder::StartEdge'))
    ctx.check('C08.O3', okg and len(ses) >= 1, bb.name, 'generator:log-held-open', bb.loc,
              'Builder::Build tests the generator binding of the edge it is about to start and closes the build log first')
    ctx.floor('C08.O3', 18)
