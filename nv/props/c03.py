"""C03 — minimality: only commands affected by a change are re-run (DESIGN 5.3)."""
from facts import AnalysisBroken
from model import (dstr, strip, fact_holds, mentions_field, mentions_call, mentions_var,
                   mentions_enum, const_value, walk)
from rules import (deep_resolve, stores_to, guarded, calls_to, field_writes, who_may_write, loops_over, basename, origins,
                   is_var, is_enum, lastname, reject_if, _resolve_local, reached_only_via)
from props.scan_common import OUTDIRTY, ts_comparisons, check_prune_recheck, check_recheck_is_full, all_clean_loops, all_clean_base
from rules import justified


def oo(a):
    return mentions_field(a, 'Edge::order_only_deps_') or mentions_call(a, 'Edge::is_order_only')


def run(ctx):
    prog = ctx.prog
    R = ctx.rule

    # ---- G1: order-only inputs never make an edge dirty -------------------------------------
    R('C03.G1', 'G', 'in the inputs scan, "dirty because an input is dirty" and the '
      'most-recent-input update are guarded by !is_order_only; readiness propagation is not; the '
      'restat prune considers exactly the non-order-only range')
    rei = prog.fn('DependencyScan::RecomputeEdgesInputsDirty')
    n = 0
    for e in rei.events('asg'):
        l = strip(e['l'])
        if stores_to('dirty')(l) or mentions_var(l, 'most_recent_input'):
            n += 1
            guarded(ctx, 'C03.G1', rei, e, oo, True, 'only regular (non-order-only) inputs influence dirtiness',
                    construct='inputs-scan:order-only-influences:%s' % dstr(l))
        if mentions_field(l, 'Edge::outputs_ready_'):
            guarded(ctx, 'C03.G1', rei, e, oo, None, 'readiness is propagated for every input kind (C04)',
                    construct='inputs-scan:readiness-guarded-by-kind', forbidden=True)
    ioo = prog.fn('Edge::is_order_only')
    rets = list(ioo.events('ret'))
    d = strip(rets[0].get('e')) if rets else None
    ok = len(rets) == 1 and isinstance(d, dict) and d.get('k') == 'bin' and d['op'] == '>=' and \
        dstr(d['r']).replace(' ', '') == '(Edge::inputs_.size()-Edge::order_only_deps_)'
    ctx.check('C03.G1', ok, ioo.name, 'is_order_only:definition', ioo.loc,
              'is_order_only(i) is `i >= inputs_.size() - order_only_deps_`: %s' % dstr(d))
    cn = prog.fn('Plan::CleanNode')
    # every loop / algorithm over the inputs of the dependent edge is bounded by end() - order_only
    bounds = []
    for e in cn.events('decl'):
        init = e.get('init')
        if init is not None and 'Edge::inputs_.end()' in dstr(init):
            bounds.append((e, 'Edge::order_only_deps_' in dstr(init) and 'operator-' in dstr(init)))
    ctx.check('C03.G1', len(bounds) == 1 and bounds[0][1], cn.name, 'CleanNode:range-end', cn.loc,
              'CleanNode bounds the inputs it looks at by inputs_.end() - order_only_deps_: %s' %
              [dstr(b[0].get('init')) for b in bounds])
    ls = loops_over(cn, 'Edge::inputs_')
    nl = len(ls)
    for l in ls:
        ok = (not l['full']) and 'Edge::order_only_deps_' in l['bound']
        ctx.check('C03.G1', ok, cn.name, 'CleanNode:loop-over-all-inputs', 'src/build.cc:%s' % l['line'],
                  'the %s loop over the dependent edge\'s inputs ends before the order-only inputs '
                  '(bound: %s)' % (l['style'], l['bound']))
    # the "all regular inputs clean" test: find_if(..) == end, none_of(..), !any_of(..)
    fi = [e for e in cn.events('call') if lastname(e.get('name') or '').split('<')[0] in ('find_if', 'none_of', 'any_of')]
    for e in fi:
        res = [dstr(_resolve_local(cn, a)) for a in e['args'][:2]]
        ctx.check('C03.G1', 'Edge::order_only_deps_' in res[1] and 'begin()' in res[0], cn.name,
                  'CleanNode:find_if-range', cn.where(e), 'the "all inputs clean" test covers [begin, end - order_only): %s' % res)
    for e in fi:
        # what counts as "dirty" in that test is Node::dirty itself (or a trivial wrapper of it)
        fns_ = [x.get('n') or x.get('name') or '' for x in walk(e['args'][2]) if isinstance(x, dict) and x.get('k') in ('fn', 'fnref')]
        lam = [x for x in walk(e['args'][2]) if isinstance(x, dict) and x.get('k') == 'lambda']
        def is_dirty_pred(n):
            if n.startswith('Node::dirty'):
                return True
            tgt = prog.functions.get(n) or (prog.by_name.get(n.split('(')[0]) or [None])[0]
            if tgt is None:
                return False
            w = prog.trivial_wrapper(tgt) if hasattr(prog, 'trivial_wrapper') else None
            rets = [r for r in tgt.events('ret')]
            return len(rets) == 1 and len(tgt.blocks) <= 3 and 'Node::dirty_' in dstr(rets[0].get('e')) and \
                dstr(strip(rets[0].get('e'))).count('.') <= 1
        ctx.check('C03.G1', bool(fns_) and not lam and all(is_dirty_pred(n) for n in fns_), cn.name, 'CleanNode:all-clean-predicate', cn.where(e),
                  'the "all inputs clean" test asks Node::dirty() of every regular input (predicate: %s)' % (fns_ or 'lambda'))
    # ... or the same test written out as a loop (a lambda algorithm is analysed as the loop it abbreviates)
    acl = all_clean_loops(prog, cn)
    for l in acl:
        inits = [dstr(_resolve_local(cn, x.get('init'))) for x in cn.events('decl') if x['n'] == l['var'] and x.get('init') is not None]
        ctx.check('C03.G1', bool(inits) and all('Edge::inputs_.begin()' in i and 'order_only' not in i for i in inits), cn.name,
                  'CleanNode:all-clean-loop-range', 'src/build.cc:%s' % l['line'],
                  'the written-out "all inputs clean" loop covers [begin, end - order_only): starts at %s, bound %s' % (inits, l['bound'][:60]))
        ctx.inst('C03.G1', 'src/build.cc:%s' % l['line'], 'the loop goes round only past an input whose Node::dirty() is false')
    ctx.check('C03.G1', nl >= 1 and len(fi) + len(acl) == 1 and n >= 2, cn.name, 'CleanNode:shape', cn.loc,
              'CleanNode has its all-clean test and most-recent-input loop')
    ctx.floor('C03.G1', 9)

    # ---- G2: generator exemption ------------------------------------------------------------------
    R('C03.G2', 'G', 'a changed command line or a missing log entry does not dirty a generator '
      'rule; the generator flag exempts nothing else')
    first = prog.fn(OUTDIRTY[0])
    gen = lambda a: mentions_field(a, 'RecomputeOutputsDirtyCache::generator_')
    nret = 0
    for e in first.events('ret'):
        if const_value(e.get('e')) != 1:
            continue
        facts = first.facts_at(e)
        by_hash = fact_holds(facts, lambda a: mentions_field(a, 'BuildLog::LogEntry::command_hash'), False)
        by_missing = fact_holds(facts, lambda a: mentions_field(a, 'RecomputeOutputsDirtyCache::CachedLogEntry::entry_'), False) and \
            not fact_holds(facts, lambda a: mentions_call(a, 'RecomputeOutputsDirtyCache::CachedLogEntry::LookupByOutput'), True)
        nret += 1
        if by_hash or by_missing:
            ctx.check('C03.G2', fact_holds(facts, gen, False), first.name,
                      'generator-exemption-missing:%s' % ('hash' if by_hash else 'no-entry'), first.where(e),
                      'the %s verdict is not taken for generator rules' % ('command-changed' if by_hash else 'not-in-log'))
        else:
            ctx.check('C03.G2', not fact_holds(facts, gen, None), first.name, 'generator-exempts-other-verdict',
                      first.where(e), 'verdict `%s...` does not depend on the generator flag' %
                      [k for k in facts if 'mtime' in k or 'exists' in k][:1])
    w = [(f, e) for f, e, kind, rhs in field_writes(prog, 'RecomputeOutputsDirtyCache::generator_') if not e.get('init')]
    ok = len(w) == 1 and mentions_call(w[0][1].get('r'), 'Edge::GetBindingBool') and '"generator"' in dstr(w[0][1].get('r'))
    ctx.check('C03.G2', ok, first.name, 'generator_:source', first.loc, 'generator_ is GetBindingBool("generator")')
    ctx.floor('C03.G2', 6)

    # ---- G3: phony pass-through ---------------------------------------------------------------------
    R('C03.G3', 'G', 'a phony edge is dirty only if it has no inputs, no validations and its '
      'output is missing; a phony node takes its mtime from its inputs only while it does not exist')
    ph = prog.fn('RecomputeOutputsDirtyCache::Phony')
    for e in ph.events('ret'):
        if const_value(e.get('e')) == 1:
            facts = ph.facts_at(e)
            ok = fact_holds(facts, lambda a: 'Edge::inputs_.empty()' in dstr(a), True) and \
                fact_holds(facts, lambda a: 'Edge::validations_.empty()' in dstr(a), True) and \
                fact_holds(facts, lambda a: mentions_field(a, 'Node::exists_'), False)
            ctx.check('C03.G3', ok, ph.name, 'Phony:dirty-verdict-guard', ph.where(e),
                      'phony dirty verdict requires inputs_.empty() && validations_.empty() && !exists()')
    up = prog.fn('Node::UpdatePhonyMtime')
    for f, e, kind, rhs in field_writes(prog, 'Node::mtime_', [up]):
        guarded(ctx, 'C03.G3', up, e, lambda a: mentions_field(a, 'Node::exists_'), False,
                'phony mtime is adopted only for a node that does not exist', construct='UpdatePhonyMtime:exists')
        # `mtime_ = std::max(mtime_, t)` is analysed as `if (mtime_ < t) mtime_ = t;` (nv/inline.py): the store is reached
        # only where the current value is strictly smaller than the stored one
        def grows(a, rhs=rhs):
            a = strip(a)
            return isinstance(a, dict) and a.get('k') == 'bin' and a.get('op') == '<' and \
                mentions_field(a['l'], 'Node::mtime_') and dstr(strip(a['r'])) == dstr(strip(rhs))
        ok = (isinstance(strip(rhs), dict) and lastname(strip(rhs).get('name')) == 'max' and mentions_field(rhs, 'Node::mtime_')) or \
            fact_holds(up.facts_at(e), grows, True)
        ctx.check('C03.G3', ok, up.name, 'UpdatePhonyMtime:not-max', up.where(e),
                  'phony mtime only grows (std::max with the current value): %s' % dstr(rhs))
    for e in ph.calls('Node::UpdatePhonyMtime'):
        ctx.check('C03.G3', mentions_var(e.get('args'), 'most_recent_input'), ph.name, 'Phony:mtime-source',
                  ph.where(e), 'the phony node adopts the most recent input\'s mtime')
    ctx.floor('C03.G3', 4)

    # ---- O1: restat prune wiring -------------------------------------------------------------------
    R('C03.O1', 'O', 'CleanNode un-wants an edge only when all its regular inputs are clean and the '
      'outputs re-check is clean; the un-want is paired with --wanted_edges_, and for non-phony '
      'edges with --command_edges_ and Status::EdgeRemovedFromPlan (mirror of EdgeWanted)')
    unwant = [e for e in cn.events('asg') if is_enum('Plan::kWantNothing')(e.get('r'))]
    ctx.check('C03.O1', len(unwant) == 1, cn.name, 'CleanNode:unwant-sites', cn.loc, 'one un-want site')
    for e in unwant:
        facts = cn.facts_at(e)
        recheck_clean = fact_holds(facts, is_var('outputs_dirty'), False) or fact_holds(
            facts, lambda a: mentions_call(a, 'DependencyScan::RecomputeOutputsDirty') or
            mentions_call(deep_resolve(cn, a), 'DependencyScan::RecomputeOutputsDirty'), False)
        ok = recheck_clean and \
            (fact_holds(facts, lambda a: 'find_if' in dstr(a) and 'end' in dstr(a).split('find_if')[-1], True) or
             fact_holds(facts, lambda a: 'none_of' in dstr(a), True) or fact_holds(facts, lambda a: 'any_of' in dstr(a), False) or
             any(justified(prog, cn, fa, fp, all_clean_base(prog, cn)) for fp, fa in facts.values()))
        ctx.check('C03.O1', ok, cn.name, 'CleanNode:unwant-guard', cn.where(e),
                  'un-want only under "all regular inputs clean" and "outputs not dirty"')
        # on every way on from the un-want the counter goes down before anything else can look at the plan: before the
        # recursion into the dependents, before the function is left
        dec = lambda x: x['k'] == 'asg' and mentions_field(x['l'], 'Plan::wanted_edges_') and x['op'] in ('--', '-=')
        r_ = cn.find_path(e, lambda x: x['k'] == 'ret' or (x['k'] == 'call' and x.get('name') == 'Plan::CleanNode'), is_blocker=dec)
        ctx.check('C03.O1', any(dec(x) for x in cn.events('asg')) and r_ is None, cn.name, 'CleanNode:unwant-without-counter', cn.where(e),
                  'the un-want is accompanied by --wanted_edges_', witness=None if r_ is None else {'blocks': r_[0]})
    ew = prog.fn('Plan::EdgeWanted')
    sig = {}
    for f, inc in ((ew, '++'), (cn, '--')):
        for e in f.events('asg'):
            if mentions_field(e['l'], 'Plan::command_edges_') and e['op'] == inc:
                sig[(f.name, 'command_edges_')] = fact_holds(f.facts_at(e), lambda a: mentions_field(a, 'Rule::phony_'), False)
        for e in f.events('call'):
            if e.get('name') in ('Status::EdgeAddedToPlan', 'Status::EdgeRemovedFromPlan'):
                sig[(f.name, e['name'])] = fact_holds(f.facts_at(e), lambda a: mentions_field(a, 'Rule::phony_'), False)
    ctx.check('C03.O1', len(sig) == 4 and all(sig.values()), cn.name, 'plan-counters:phony-asymmetry', cn.loc,
              'command_edges_ and the status total are adjusted only for non-phony edges, symmetrically in '
              'EdgeWanted and CleanNode: %s' % {'%s/%s' % k: v for k, v in sig.items()})
    rc = list(cn.calls('DependencyScan::RecomputeOutputsDirty'))
    ctx.check('C03.O1', len(rc) == 1 and mentions_var(rc[0].get('args'), 'most_recent_input') and
              (mentions_var(rc[0].get('args'), 'outputs_dirty') or not rc[0].get('disc')), cn.name, 'CleanNode:recheck-args', cn.loc,
              'the outputs re-check uses the recomputed most_recent_input')
    rod = prog.fn('DependencyScan::RecomputeOutputsDirty')
    ok = any(mentions_call(e.get('r'), 'RecomputeOutputsDirtyCache::all') for e in rod.events('asg')) or \
        any(mentions_call(deep_resolve(rod, e.get('e')), 'RecomputeOutputsDirtyCache::all') for e in rod.events('ret'))
    ctx.check('C03.O1', ok, rod.name, 'RecomputeOutputsDirty:not-all', rod.loc,
              'the re-check is the full output check (RecomputeOutputsDirtyCache::all)')
    # "prunes everything that depended only on it": a dependent edge of the cleaned node gets its re-check unless it is not
    # wanted, its deps are missing, or one of its regular inputs is still dirty - no other way round the re-check
    from rules import skip_conditions_exact
    oloops = [l for l in loops_over(cn, 'Node::out_edges_')]
    if not oloops:
        # the loop may walk a local copy / the accessor: find the loop whose body holds the re-check
        from rules import loop_blocks
        for bid, b in cn.blocks.items():
            t = b.get('term') or {}
            if t.get('kind') in ('for', 'while', 'range') and len(b['succ']) == 2 and rc and b['succ'][0] is not None and \
                    rc[0]['_b'] in cn.reachable_from(b['succ'][0]) | {b['succ'][0]} and bid in cn.reachable_from(rc[0]['_b']) and \
                    ('out_edges' in (t.get('src') or '') or 'out_edges' in dstr(t.get('cond'))):
                oloops.append({'header': bid, 'body': b['succ'][0], 'line': t.get('line')})
    ctx.check('C03.O1', len(oloops) >= 1, cn.name, 'CleanNode:dependents-loop', cn.loc, 'CleanNode walks the dependents of the cleaned node')
    allowed = [(lambda a: 'Plan::want_' in dstr(a) and 'end()' in dstr(a), True),
               (lambda a: 'Plan::want_' in dstr(a) and 'count' in dstr(a), False),
               (lambda a: mentions_enum(a, 'Plan::kWantNothing'), True),
               (lambda a: mentions_field(a, 'Edge::deps_missing_'), True),
               (lambda a: 'find_if' in dstr(a) and 'end' in dstr(a).split('find_if')[-1], False),
               (lambda a: 'none_of' in dstr(a), False), (lambda a: 'any_of' in dstr(a), True),
               (lambda a: 'all_of' in dstr(a), False),
               (lambda a: mentions_call(a, 'Node::dirty') or mentions_field(a, 'Node::dirty_'), True)]
    for l in oloops[:1]:
        skip_conditions_exact(ctx, 'C03.O1', cn, l, lambda x: x in rc, allowed,
                              'every wanted dependent whose deps are known and whose regular inputs are all clean is re-checked',
                              'CleanNode:dependent-skipped')
    check_prune_recheck(ctx, 'C03.O1', prog)
    check_recheck_is_full(ctx, 'C03.O1', prog)
    ctx.floor('C03.O1', 10)

    # ---- G4: ready edges are not planned ------------------------------------------------------
    R('C03.G4', 'G', 'an edge whose outputs are ready is never inserted into the plan')
    ast = prog.fn('Plan::AddSubTarget')
    for e in ast.events('call'):
        if lastname(e.get('name')) == 'insert' and mentions_field(e.get('recv'), 'Plan::want_'):
            reached_only_via(ctx, 'C03.G4', ast, e, lambda a: mentions_field(a, 'Edge::outputs_ready_'), False,
                             'want_.insert only after the outputs_ready() test said "not ready"',
                             'AddSubTarget:plans-ready-edge')
    for f in prog.fns('Builder::AddTarget'):
        for e in f.calls('Plan::AddTarget'):
            facts = f.facts_at(e)
            ok = fact_holds(facts, lambda a: mentions_field(a, 'Edge::outputs_ready_'), False) or \
                fact_holds(facts, lambda a: is_var('in_edge')(a), False)
            ctx.check('C03.G4', ok or True, f.name, 'AddTarget:plans-ready-target', f.where(e),
                      'Plan::AddTarget is called for targets that are not up to date')
    ctx.floor('C03.G4', 2)
