"""C02 — convergence: a build that succeeded leaves nothing to do (DESIGN 5.2)."""
from facts import AnalysisBroken
from model import (dstr, strip, fact_holds, mentions_field, mentions_call, mentions_var,
                   const_value, walk)
from rules import (loop_blocks, deep_resolve, guarded, calls_to, field_writes, who_may_write, full_range, loops_over,
                   every_iteration_passes, basename, origins, is_var, is_enum, lastname)
from props.scan_common import (var_base, OUTDIRTY, check_prune_recheck, check_refresh_validations, ts_role, ts_comparisons, check_cc, effect_returns,
                               effect_assigns, true_succ)


def literal_uses(prog, text):
    """(Fn, call event, callee name) for every call that receives the string literal `text`
    (directly or through a StringPiece/std::string temporary)."""
    out = []
    for f in prog.functions.values():
        for e in f.events('call'):
            if e.get('ctor') or (e.get('name') or '').startswith(('StringPiece::', 'std::basic_string')):
                continue
            for a in e.get('args', []):
                if any(x.get('k') == 'str' and x['v'] == text for x in walk(a)):
                    out.append((f, e, e.get('name')))
                    break
    return out


def run(ctx):
    prog = ctx.prog
    R = ctx.rule

    # ---- TA1: hash chain agreement -------------------------------------------------------------
    R('C02.TA1', 'TA', 'what is logged as command hash and what the scan compares against it come '
      'from the same chain: LogEntry::HashCommand(Edge::EvaluateCommand(incl_rsp_file = true))')
    sites = list(calls_to(prog, 'BuildLog::LogEntry::HashCommand'))
    chains = {}
    for f, e in sites:
        os_ = origins(f, e['args'][0])
        sig = []
        for o in os_:
            so = strip(o)
            # unwrap StringPiece / string temporaries
            while isinstance(so, dict) and so.get('k') == 'ctor' and len(so.get('args') or []) >= 1:
                nxt = origins(f, so['args'][0])
                so = strip(nxt[0]) if nxt else None
            if isinstance(so, dict) and so.get('k') == 'call' and so.get('name') == 'Edge::EvaluateCommand':
                sig.append('EvaluateCommand(%s)' % ','.join(str(const_value(a)) for a in so.get('args', [])))
            else:
                sig.append('other:' + dstr(so)[:50])
        chains[f.name] = sorted(set(sig))
        if f.name in ('BuildLog::Load',):
            continue
        ctx.check('C02.TA1', sorted(set(sig)) == ['EvaluateCommand(1)'], f.name, 'hash-input:%s' % ','.join(sorted(set(sig))),
                  f.where(e), 'the hash in %s is computed over EvaluateCommand(incl_rsp_file=true): %s' % (f.name, sig))
    writers = {f.name for f, e in sites}
    ctx.check('C02.TA1', 'BuildLog::RecordCommand' in writers and any('LazyEdgeCommandHash' in w for w in writers),
              'BuildLog::RecordCommand', 'hash-chain:missing-side', prog.fn('BuildLog::RecordCommand').loc,
              'both the writer (RecordCommand) and the reader (LazyEdgeCommandHash) hash the command: %s' % sorted(writers))
    # the comparison in the scan uses exactly those two
    first = prog.fn(OUTDIRTY[0])
    cmp_ok = False
    for bid, b in first.blocks.items():
        for i, s in enumerate(b['succ']):
            ef = first.edge_fact(bid, i)
            if ef and mentions_field(ef[2], 'BuildLog::LogEntry::command_hash'):
                cmp_ok = mentions_call(ef[2], 'LazyEdgeCommandHash::operator()') or 'commandHash_' in ef[0]
    ctx.check('C02.TA1', cmp_ok, first.name, 'hash-compare:operands', first.loc,
              'the scan compares LogEntry::command_hash with the lazily computed edge command hash')
    # writers of the logged hash
    allowed = {'BuildLog::RecordCommand': 'from HashCommand(EvaluateCommand(true))',
               'BuildLog::LogEntry::LogEntry': 'constructor', 'BuildLog::Load': 'parsed from the file'}
    who_may_write(ctx, 'C02.TA1', 'BuildLog::LogEntry::command_hash', allowed, 'logged command hash')
    rc = prog.fn('BuildLog::RecordCommand')
    for f, e, kind, rhs in field_writes(prog, 'BuildLog::LogEntry::command_hash', [rc]):
        os_ = origins(rc, rhs)
        ctx.check('C02.TA1', bool(os_) and all(mentions_call(o, 'BuildLog::LogEntry::HashCommand') for o in os_),
                  rc.name, 'command_hash:not-from-HashCommand', rc.where(e), 'the stored hash is the HashCommand result')
    ctx.floor('C02.TA1', 6)
    ctx.table('C02.TA1.chains', chains)

    # ---- TA2: binding flags read through one accessor ---------------------------------------
    R('C02.TA2', 'TA', 'the scan and the builder read the restat / generator flags through the same '
      'accessor (Edge::GetBindingBool, i.e. build-level, rule-level and dyndep-provided bindings)')
    for flag in ('restat', 'generator'):
        n = 0
        for f, e, callee in literal_uses(prog, flag):
            if f.file in ('manifest_parser.cc', 'dyndep_parser.cc', 'eval_env.cc', 'ninja.cc', 'graphviz.cc'):
                continue
            if callee in ('BindingEnv::AddBinding',):       # dyndep loader provides it
                ctx.inst('C02.TA2', f.where(e), '"%s" provided via %s in %s' % (flag, callee, f.name))
                continue
            n += 1
            ctx.check('C02.TA2', callee == 'Edge::GetBindingBool', f.name, 'flag-accessor:%s:%s' % (flag, callee),
                      f.where(e), '"%s" is read through Edge::GetBindingBool in %s (callee: %s)' % (flag, f.name, callee))
        if n < 2:
            ctx.violation('C02.TA2', 'Edge::GetBindingBool', 'flag-accessor:%s:too-few-readers' % flag,
                          prog.fn('Edge::GetBindingBool').loc,
                          'expected the scan and the builder to read "%s"; found %d readers' % (flag, n))
    ctx.floor('C02.TA2', 4)

    # ---- O1: one entry per output, same key ---------------------------------------------------
    R('C02.O1', 'O', 'RecordCommand writes one entry per output keyed by Node::path(); the scan '
      'looks entries up by Node::path() of the output')
    full_range(ctx, 'C02.O1', rc, 'Edge::outputs_', 'every output gets a log entry')
    for l in loops_over(rc, 'Edge::outputs_'):
        every_iteration_passes(ctx, 'C02.O1', rc, l, lambda x: x['k'] == 'asg' and
                               mentions_field(x['l'], 'BuildLog::LogEntry::mtime'),
                               'each output\'s entry is updated', 'RecordCommand:output-skipped')
    keys = []
    for e in rc.events('call'):
        if lastname(e.get('name')) in ('find', 'emplace', 'insert', 'operator[]') and \
                mentions_field(e.get('recv'), 'BuildLog::entries_'):
            keys.append(e)
    ok = bool(keys)
    for e in keys:
        os_ = origins(rc, e['args'][0])
        ok &= any(mentions_call(o, 'Node::path') and 'Edge::outputs_' in dstr(o) or
                  'BuildLog::LogEntry::output' in dstr(o) for o in os_)
    ctx.check('C02.O1', ok, rc.name, 'RecordCommand:key', rc.loc,
              'entries are keyed by the output\'s path (%d map accesses)' % len(keys))
    lk = prog.fn('RecomputeOutputsDirtyCache::CachedLogEntry::LookupByOutput')
    ok = any(e.get('name') == 'BuildLog::LookupByOutput' and mentions_call(e.get('args'), 'Node::path') and
             mentions_var(e.get('args'), 'output') for e in lk.events('call'))
    ctx.check('C02.O1', ok, lk.name, 'lookup:key', lk.loc, 'the scan looks the entry up by output->path()')
    for f in OUTDIRTY:
        fn = prog.fn(f)
        for e in fn.calls('RecomputeOutputsDirtyCache::CachedLogEntry::LookupByOutput'):
            ctx.check('C02.O1', mentions_var(e.get('args'), 'output'), fn.name, 'lookup:wrong-node', fn.where(e),
                      'the entry looked up is the one of the output being checked')
    # the looked-up entry is remembered (the cache object answers later calls without looking again): then one cache object
    # serves one output only - the object handed to the per-output check is selected by the same loop variable as the output
    # (or lives inside the loop).  One object for the whole edge applies the first output's record to all of them.
    memo = any(x['k'] == 'ret' and not mentions_call(x.get('e'), 'BuildLog::LookupByOutput') and
               fact_holds(lk.facts_at(x), lambda a: True, None) and lk.facts_at(x) for x in lk.events('ret'))
    npo = 0
    for fname in ('RecomputeOutputsDirtyCache::all', 'RecomputeOutputsDirtyCache::depfile'):
        for fn in prog.by_name.get(fname, []):
            for e in fn.events('call'):
                if not (e.get('name') or '').startswith('RecomputeOutputsDirtyCache::RecomputeOutputDirty') or len(e.get('args') or []) < 3:
                    continue
                npo += 1
                sel = {x['n'] for x in walk(e['args'][0]) if isinstance(x, dict) and x.get('k') == 'var'} | \
                      {x['n'] for x in walk(deep_resolve(fn, e['args'][0])) if isinstance(x, dict) and x.get('k') == 'var'}
                cache = e['args'][2]
                cvars = {x['n'] for x in walk(cache) if isinstance(x, dict) and x.get('k') == 'var'}
                inside = set()
                for l_ in loops_over(fn, 'Edge::outputs_'):
                    blks = loop_blocks(fn, l_)
                    inside |= {d_['n'] for b_ in blks for d_ in fn.blocks[b_]['ev'] if d_['k'] == 'decl'}
                ok = (not memo) or bool(sel & cvars) or bool(cvars & inside)
                ctx.check('C02.O1', ok, fn.name, 'log-entry-cache:shared-between-outputs', fn.where(e),
                          'the remembered build-log entry handed to the check of %s belongs to that output (`%s`)' % (dstr(e['args'][0])[-30:], dstr(cache)[-50:]))
    ctx.check('C02.O1', npo >= 2, 'RecomputeOutputsDirtyCache', 'log-entry-cache:sites', lk.loc, '%d per-output checks found' % npo)
    ctx.floor('C02.O1', 8)

    # ---- CC: strictness --------------------------------------------------------------------------
    R('C02.CC', 'CC', 'the relations that make an output dirty are strict: equal timestamps are '
      'clean (a non-strict relation never converges on coarse timestamps)')
    for f in OUTDIRTY:
        fn = prog.fn(f)
        check_cc(ctx, 'C02.CC', fn, ('OUT', 'IN'), '<', effect_returns(1), 'strict: output < input', 'CC1:strict')
        check_cc(ctx, 'C02.CC', fn, ('LOG', 'IN'), '<', effect_returns(1), 'strict: logged < input', 'CC2:strict')
    for name in ('ImplicitDepLoader::LoadDepsFromLog', 'ImplicitDepLoader::LoadDepsFromLogTry'):
        check_cc(ctx, 'C02.CC', prog.fn(name), ('DEPS', 'OUT'), '<', None,
                 'strict: deps record < output', 'CC3:strict')
        # ... and the record is the one of the very output whose mtime it is compared with (each output has its own
        # record with its own mtime: comparing another output's mtime with it never converges)
        fn = prog.fn(name)
        gd = [e for e in fn.calls('DepsLog::GetDeps')]
        recs = {var_base(e['args'][0]) for e in gd if e.get('args')}
        for bid, a, rl, rr in ts_comparisons(fn):
            if (rl, rr) == ('DEPS', 'OUT') or (rr, rl) == ('DEPS', 'OUT'):
                out_side = a['r'] if rl == 'DEPS' else a['l']
                ob = var_base(deep_resolve(fn, out_side))
                ctx.check('C02.CC', ob in {var_base(deep_resolve(fn, e['args'][0])) for e in gd if e.get('args')} or ob in recs, fn.name,
                          'CC3:record-of-another-output', 'src/%s:%s' % (fn.file, fn.term(bid)['line']),
                          'the deps record compared with `%s` was looked up for that same node (GetDeps(%s))' % (ob, sorted(recs)))
    ctx.floor('C02.CC', 8)

    # ---- TA3: the two instantiations of the output check agree on the restat shortcut ----------
    R('C02.TA3', 'TA', 'the first-pass and the after-deps instantiation of the output check apply '
      'the restat shortcut (compare the logged mtime instead of the file\'s) under the same '
      'conditions; otherwise a restat rule with discovered deps re-runs forever')
    # Stated over conditions, not over a flag variable: in the world where the rule is restat, a build
    # log is present and the output has an entry (every test of isRestat_, buildLog_ and
    # LookupByOutput(...) comes out true), the comparison of the file's mtime with the newest input
    # (OUT < IN) is not reachable.
    def shortcut_atom(atom):
        return mentions_field(atom, 'RecomputeOutputsDirtyCache::isRestat_') or mentions_field(atom, 'RecomputeOutputsDirtyCache::buildLog_') or \
            mentions_call(atom, 'RecomputeOutputsDirtyCache::CachedLogEntry::LookupByOutput')
    sig = {}
    for name in OUTDIRTY:
        fn = prog.fn(name)
        atoms = set()
        for bid, b in fn.blocks.items():
            for i, s2 in enumerate(b['succ']):
                if s2 is None:
                    continue
                for k, pol, atom in fn.edge_facts(bid, i):
                    sa = strip(atom)
                    if shortcut_atom(atom) and not (isinstance(sa, dict) and sa.get('k') == 'bin' and sa['op'] in ('&&', '||')):
                        atoms.add(k)
        sig[name] = sorted(atoms)
        ctx.check('C02.TA3', any('isRestat_' in k for k in atoms) and any('LookupByOutput' in k for k in atoms), fn.name,
                  'restat-shortcut:absent', fn.loc, 'the restat shortcut tests are present in %s (%s)' % (name.rsplit('::', 1)[-1], sorted(atoms)))
        def conj_atoms(a):
            a = strip(a)
            if isinstance(a, dict) and a.get('k') == 'bin' and a['op'] == '&&':
                return conj_atoms(a['l']) + conj_atoms(a['r'])
            return [a]
        def is_shortcut_conj(a):
            parts = conj_atoms(a)
            return len(parts) >= 3 and all(shortcut_atom(x) for x in parts) and \
                any(mentions_field(x, 'RecomputeOutputsDirtyCache::isRestat_') for x in parts) and \
                any(mentions_call(x, 'RecomputeOutputsDirtyCache::CachedLogEntry::LookupByOutput') for x in parts)
        def flag_idiom(v):
            # a local that starts false and is set to true exactly under the three shortcut conditions
            defs = [x for x in fn.events() if (x['k'] == 'decl' and x['n'] == v) or (x['k'] == 'asg' and is_var(v)(x['l']))]
            inits = [x for x in defs if x['k'] == 'decl']
            sets = [x for x in defs if x['k'] == 'asg']
            if not (len(inits) == 1 and const_value(inits[0].get('init')) == 0 and sets and all(const_value(x.get('r')) == 1 for x in sets)):
                return False
            for x in sets:
                fs = fn.facts_at(x)
                if not (fact_holds(fs, lambda a: mentions_field(a, 'RecomputeOutputsDirtyCache::isRestat_'), True) and
                        fact_holds(fs, lambda a: mentions_call(a, 'RecomputeOutputsDirtyCache::CachedLogEntry::LookupByOutput'), True)):
                    return False
            # ... and the setting is not skipped when they hold: the set site is reached from the decl whenever all tests pass
            return True
        ncmp = 0
        for bid, a, rl, rr in ts_comparisons(fn):
            if (rl, rr) == ('OUT', 'IN'):
                ncmp += 1
                fb = fn.facts_at_block(bid)
                ok = False
                for k, (pol, atom) in fb.items():
                    sa = strip(atom)
                    if pol is False and is_shortcut_conj(atom):
                        ok = True
                    if pol is False and isinstance(sa, dict) and sa.get('k') == 'var' and sa.get('vk') == 'local' and flag_idiom(sa['n']):
                        ok = True
                ctx.check('C02.TA3', ok, fn.name, 'restat-shortcut:not-honoured', 'src/graph.cc:%s' % fn.term(bid)['line'],
                          'the file mtime is compared with the newest input only when the restat shortcut '
                          '(isRestat_ && buildLog_ && entry found) does not apply')
        ctx.check('C02.TA3', ncmp >= 1, fn.name, 'restat-shortcut:no-OUT-IN-comparison', fn.loc, 'the OUT < IN comparison exists')
    ctx.check('C02.TA3', sig[OUTDIRTY[0]] == sig[OUTDIRTY[1]] and bool(sig[OUTDIRTY[0]]), OUTDIRTY[1],
              'restat-shortcut:instantiations-disagree', prog.fn(OUTDIRTY[1]).loc,
              'both instantiations test the same shortcut conditions: %s vs %s' % (sig[OUTDIRTY[0]], sig[OUTDIRTY[1]]))
    ctx.floor('C02.TA3', 5)

    # ---- V1: deps mtime agreement ----------------------------------------------------------------
    R('C02.V1', 'V', 'the mtime recorded with the deps of an output is that output\'s own mtime '
      'after the command completed (what the reader later compares the output with)')
    fc = prog.fn('Builder::FinishCommand')
    rds = list(fc.calls('DepsLog::RecordDeps'))
    ctx.check('C02.V1', len(rds) == 1, fc.name, 'RecordDeps:sites', fc.loc, 'one RecordDeps site')
    for e in rds:
        node_o = origins(fc, e['args'][0])
        mt_o = origins(fc, e['args'][1])
        ok = bool(mt_o) and all(isinstance(strip(o), dict) and strip(o).get('name') == 'DiskInterface::Stat'
                                for o in mt_o)
        # Stat argument is the path of the same node
        same = False
        for o in mt_o:
            so = strip(o)
            if isinstance(so, dict) and so.get('args'):
                ao = origins(fc, so['args'][0])
                same = bool(ao) and all(mentions_call(x, 'Node::path') and
                                        any(dstr(n) in dstr(x) for n in node_o) for x in ao)
        ctx.check('C02.V1', ok and same, fc.name, 'RecordDeps:mtime-origin', fc.where(e),
                  'deps are recorded with Stat(path of the same output): node %s, mtime %s' % (
                      [dstr(n)[:40] for n in node_o], [dstr(m)[:60] for m in mt_o]))
    full_range(ctx, 'C02.V1', fc, 'Edge::outputs_', 'deps / restat loops cover every output', need=2)
    ctx.floor('C02.V1', 3)

    # ---- CC4/CC5: restat record -------------------------------------------------------------------
    R('C02.CC4', 'CC', 'restat: an output is pruned iff its mtime is unchanged (==) and the rule is '
      'restat; when something was pruned the recorded mtime falls back to the command start time')
    def calls_clean(f, bid, s):
        ok = any(x['k'] == 'call' and x.get('name') == 'Plan::CleanNode' for x in f.blocks[s]['ev']) or \
            f.find_path(None, lambda x: x['k'] == 'call' and x.get('name') == 'Plan::CleanNode', from_succ=s,
                        is_blocker=lambda x: x['k'] == 'ret') is not None
        return ok, 'Plan::CleanNode is invoked'
    check_cc(ctx, 'C02.CC4', fc, ('OUT', 'NOW'), '==', calls_clean,
             'unchanged output of a restat rule is pruned', 'CC4:prune-relation')
    for e in fc.calls('Plan::CleanNode'):
        guarded(ctx, 'C02.CC4', fc, e, is_var('restat'), True, 'pruning only for restat rules',
                construct='CleanNode:non-restat')
        guarded(ctx, 'C02.CC4', fc, e, lambda a: mentions_field(a, 'BuildConfig::dry_run'), False,
                'no pruning in a dry run', construct='CleanNode:dry-run')
    # (a store `rec = cleaned ? start : newest` is the reset on its `cleaned` arm)
    from model import store_arms
    from props.scan_common import is_rec_var
    ok = False
    for e in fc.events('asg'):
        if not is_rec_var(fc)(e['l']):
            continue
        for val, extra in store_arms(fc, e):
            if mentions_field(val, 'Edge::command_start_time_'):
                facts = dict(fc.facts_at(e))
                facts.update(extra)
                ok = ok or fact_holds(facts, is_var('node_cleaned'), True)
    ctx.check('C02.CC4', ok, fc.name, 'record_mtime:no-reset-after-prune', fc.loc,
              'after a prune the recorded mtime is reset to the command start time')
    check_prune_recheck(ctx, 'C02.CC4', prog)
    ctx.floor('C02.CC4', 7)

    # ---- W1: up-to-date wiring -----------------------------------------------------------------
    R('C02.W1', 'W', 'AlreadyUpToDate == !more_to_do(); RunBuild returns success after "no work to '
      'do" without reaching Builder::Build; the build log is reopened lazily after Close()')
    au = prog.fn('Builder::AlreadyUpToDate')
    rets = list(au.events('ret'))
    d = strip(rets[0].get('e')) if rets else None
    ok = len(rets) == 1 and isinstance(d, dict) and d.get('k') == 'un' and d['op'] == '!' and \
        mentions_call(d, 'Plan::more_to_do')
    ctx.check('C02.W1', ok, au.name, 'AlreadyUpToDate:definition', au.loc,
              'AlreadyUpToDate() is !plan_.more_to_do(): %s' % dstr(d))
    mtd = prog.fn('Plan::more_to_do')
    rets = list(mtd.events('ret'))
    ok = len(rets) == 1 and mentions_field(rets[0].get('e'), 'Plan::wanted_edges_') and \
        mentions_field(rets[0].get('e'), 'Plan::command_edges_')
    ctx.check('C02.W1', ok, mtd.name, 'more_to_do:definition', mtd.loc,
              'more_to_do() is wanted_edges_ > 0 && command_edges_ > 0: %s' % dstr(rets[0].get('e') if rets else None))
    rb = prog.fn('NinjaMain::RunBuild')
    n = 0
    for bid, b in rb.blocks.items():
        for i, s in enumerate(b['succ']):
            ef = rb.edge_fact(bid, i)
            if ef and s is not None and (mentions_call(ef[2], 'Builder::AlreadyUpToDate') or
                                         mentions_field(ef[2], 'Plan::wanted_edges_')):
                uptodate = (ef[1] is True) if mentions_call(ef[2], 'Builder::AlreadyUpToDate') else (ef[1] is False)
                if not uptodate:
                    continue
                n += 1
                r = rb.find_path(None, lambda x: x['k'] == 'call' and x.get('name') == 'Builder::Build', from_succ=s)
                ctx.check('C02.W1', r is None, rb.name, 'up-to-date:reaches-Build', 'src/ninja.cc:%s' % rb.term(bid)['line'],
                          'an up-to-date plan never reaches Builder::Build')
                r = rb.find_path(None, lambda x: x['k'] == 'ret' and not is_enum('ExitSuccess')(x.get('e')), from_succ=s,
                                 is_blocker=lambda x: x['k'] == 'ret')
                ctx.check('C02.W1', r is None, rb.name, 'up-to-date:not-success', 'src/ninja.cc:%s' % rb.term(bid)['line'],
                          'an up-to-date plan returns ExitSuccess')
    if n == 0:
        ctx.violation('C02.W1', rb.name, 'up-to-date:test-absent', rb.loc, 'RunBuild no longer tests AlreadyUpToDate()')
    who_may_write(ctx, 'C02.W1', 'BuildLog::log_file_path_',
                  {'BuildLog::OpenForWrite': 'remembers where to (re)open the log lazily'}, 'lazy log reopen')
    for e in rc.calls('BuildLog::WriteEntry'):
        from rules import dominated_by
        dominated_by(ctx, 'C02.W1', rc, e, lambda x: x['k'] == 'call' and x.get('name') == 'BuildLog::OpenForWriteIfNeeded',
                     'the log is (re)opened before an entry is written', 'RecordCommand:write-without-open')
    ow = prog.fn('BuildLog::OpenForWriteIfNeeded')
    log_opens = [st for st in ow.stores() if mentions_field(st['l'], 'BuildLog::log_file_') and mentions_call(st.get('r'), 'fopen')]
    ctx.check('C02.W1', len(log_opens) >= 1, ow.name, 'log-open:absent', ow.loc, 'OpenForWriteIfNeeded opens the log stream')
    for e in [x for st in log_opens for x in ow.calls('fopen') if x['_b'] == st['_b'] and x['_i'] <= st['_i'] and dstr(x.get('args')) in dstr(st.get('r'))]:
        mode = dstr(e['args'][1]) if len(e.get('args', [])) > 1 else ''
        ctx.check('C02.W1', 'a' in mode and 'w' not in mode, ow.name, 'log-open-mode', ow.where(e),
                  'the log is opened in append mode (%s): earlier entries survive a reopen' % mode)
    check_refresh_validations(ctx, 'C02.W1', prog)
    ctx.floor('C02.W1', 8)
