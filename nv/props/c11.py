"""C11 — dyndep information behaves as if written in the manifest (DESIGN 5.11)."""
from facts import AnalysisBroken
from model import (dstr, strip, fact_holds, mentions_field, mentions_call, mentions_var,
                   mentions_enum, const_value, walk)
from props.scan_common import check_recheck_is_full, check_refresh_validations, check_outputs_statted, check_midbuild_targets_scheduled
from rules import (lastname, deep_resolve, absent_from, guarded, calls_to, field_writes, who_may_call, must_pass, dominated_by,
                   full_range, loops_over, every_iteration_passes, basename, error_discipline,
                   origins, reject_if, canon_before_intern, skip_conditions_exact, is_var,
                   is_field, is_enum)


def var_named(prefix):
    return lambda a: isinstance(strip(a), dict) and strip(a).get('k') == 'var' and \
        strip(a)['n'].split('#')[0] == prefix


def call_on_exact_var(method, var):
    return call_on_var(method, var, False)


def call_on_var(method, var=None, prefix=False):
    """atom is `<var>.method()`; var is the exact (disambiguated) local name, or with
    prefix=True any local whose source name is var."""
    def p(a):
        a = strip(a)
        if not (isinstance(a, dict) and a.get('k') == 'call'):
            return False
        if not (a.get('name') == method or basename(a.get('name') or '').split('<')[0] == method):
            return False
        if var is None:
            return True
        r = strip(a.get('recv'))
        if not (isinstance(r, dict) and r.get('k') == 'var'):
            return False
        return (r['n'].split('#')[0] == var) if prefix else (r['n'] == var)
    return p


def is_file_load(prog, x):
    """The call that reads and parses the dyndep file: it reaches Parser::Load (DyndepLoader::LoadDyndepFile today; a
    helper that replaces it, or the parser used directly, are the same thing)."""
    if not (isinstance(x, dict) and x.get('k') == 'call') or lastname(x.get('name') or '') == 'LoadDyndeps':
        return False
    pl = prog.fn('Parser::Load').id
    cache = prog.__dict__.setdefault('_reach_load', {})
    for t in prog.call_targets(x):
        if t not in prog.functions:
            continue
        if t not in cache:
            cache[t] = pl in prog.reachable_fns([t])
        if cache[t]:
            return True
    return False


def evalstring_empty(var):
    """atom is EvalString::empty() (inlined) on the local with exactly this name."""
    def p(a):
        sa = strip(a)
        if isinstance(sa, dict) and sa.get('k') == 'call' and sa.get('name') == 'EvalString::empty' and \
                isinstance(strip(sa.get('recv')), dict) and strip(sa['recv']).get('k') == 'var' and strip(sa['recv'])['n'] == var:
            return True         # as written
        return any(x.get('k') == 'mem' and x['n'] == 'EvalString::parsed_' and
                   isinstance(strip(x.get('b')), dict) and strip(x['b']).get('k') == 'var' and
                   strip(x['b'])['n'] == var for x in walk(a))
    return p


def str_cmp(varprefix, literal, op='=='):
    """operator==(var, "literal") - inequalities are normalised to a negated equality by norm_cond."""
    def p(a):
        a = strip(a)
        if not (isinstance(a, dict) and a.get('k') == 'call'):
            return False
        nm = basename(a.get('name') or '')
        if not nm.startswith('operator' + op):
            return False
        s = dstr(a)
        return ('"%s"' % literal) in s and any(
            x.get('k') == 'var' and x['n'].split('#')[0] == varprefix for x in walk(a))
    return p


def run(ctx):
    prog = ctx.prog
    R = ctx.rule

    dp = [f for f in prog.functions.values() if f.file in ('dyndep_parser.cc', 'dyndep.cc')]
    if len(dp) < 8:
        raise AnalysisBroken('only %d functions found in dyndep_parser.cc / dyndep.cc' % len(dp))

    # ---- E1 ---------------------------------------------------------------------------------------
    R('C11.E1', 'E1', 'error discipline in the dyndep parser and loader: results of fallible calls '
      'are used, and no failure edge reaches a success return (e.g. `return err;`)')
    error_discipline(ctx, 'C11.E1', dp + [f for f in prog.functions.values() if f.file == 'parser.cc'])
    # returns whose value is a pointer converted to bool are success values in disguise
    for f in dp:
        for e in f.events('ret'):
            d = e.get('e')
            if isinstance(d, dict) and d.get('k') == 'tobool' and d.get('from') == 'ptr' and f.retk == 'bool':
                inner = strip(d['e'])
                ctx.violation('C11.E1', f.name, 'return-pointer-as-bool:%s' % dstr(inner), f.where(e),
                              '`%s` in %s returns a pointer converted to bool (always true)' % (
                                  e.get('src'), f.name))
    ctx.floor('C11.E1', 20)

    # ---- X: rejections of the parser --------------------------------------------------------------
    R('C11.X', 'X', 'every documented rejection of a dyndep file has a guard whose rejecting side '
      'cannot reach a success return')
    parse = prog.fn('DyndepParser::Parse')
    pe = prog.fn('DyndepParser::ParseEdge')
    pv = prog.fn('DyndepParser::ParseDyndepVersion')
    # X1: version must come first / be present
    # (stated over what happens, not over the flag that remembers it: no way from the entry to an accepting event - a build
    # statement being parsed, or the successful return - that has not passed ParseDyndepVersion; its failure is E1's business)
    r_ = parse.find_path(None, lambda x: (x['k'] == 'ret' and const_value(x.get('e')) == 1) or
                         (x['k'] == 'call' and x.get('name') == 'DyndepParser::ParseEdge'), from_succ=parse.entry,
                         is_blocker=lambda x: x['k'] == 'call' and x.get('name') == 'DyndepParser::ParseDyndepVersion')
    ctx.check('C11.X', r_ is None and any(True for _ in parse.calls('DyndepParser::ParseDyndepVersion')), parse.name, 'X1:missing-version', parse.loc,
              'X1 missing ninja_dyndep_version (before a build statement / at EOF): nothing is accepted before ParseDyndepVersion ran',
              witness=None if r_ is None else {'blocks': r_[0], 'reaches': r_[1].get('src')})
    for e_ in parse.calls('DyndepParser::ParseDyndepVersion'):
        ctx.check('C11.X', not e_.get('disc'), parse.name, 'X1:version-result-ignored', parse.where(e_), 'the result of ParseDyndepVersion is tested')
    # X2: unsupported version
    reject_if(ctx, 'C11.X', pv, lambda a: isinstance(strip(a), dict) and strip(a).get('k') == 'bin'
              and strip(a)['op'] == '==' and var_named('major')(strip(a)['l']) and
              const_value(strip(a)['r']) == 1, False, 'X2 unsupported version (major != 1)',
              'X2:version-major')
    reject_if(ctx, 'C11.X', pv, lambda a: isinstance(strip(a), dict) and strip(a).get('k') == 'bin'
              and strip(a)['op'] == '==' and var_named('minor')(strip(a)['l']) and
              const_value(strip(a)['r']) == 0, False, 'X2 unsupported version (minor != 0)',
              'X2:version-minor')
    reject_if(ctx, 'C11.X', pv, str_cmp('name', 'ninja_dyndep_version'), False,
              'X2 first binding must be ninja_dyndep_version', 'X2:version-name')
    # X3: no build statement for the output
    reject_if(ctx, 'C11.X', pe, var_named('node'), False, 'X3 output unknown to the manifest',
              'X3:unknown-output')
    reject_if(ctx, 'C11.X', pe, lambda a: mentions_field(a, 'Node::in_edge_') and
              not mentions_field(a, 'Edge::outputs_ready_'), False,
              'X3 output without a build statement', 'X3:no-build-statement')
    # X4: duplicate statement
    reject_if(ctx, 'C11.X', pe, lambda a: isinstance(strip(a), dict) and strip(a).get('k') == 'mem'
              and strip(a)['n'].endswith('::second') and var_named('res')(strip(a).get('b')), False,
              'X4 output named by two statements of the file', 'X4:duplicate-statement')
    # X5: explicit outputs / inputs
    reject_if(ctx, 'C11.X', pe, evalstring_empty('out'), False,
              'X5 explicit outputs not supported', 'X5:explicit-outputs')
    reject_if(ctx, 'C11.X', pe, evalstring_empty('in'), False,
              'X5 explicit inputs not supported', 'X5:explicit-inputs')
    reject_if(ctx, 'C11.X', pe, evalstring_empty('out0'), True,
              'X5 missing output path', 'X5:missing-output')
    # X6: rule name
    reject_if(ctx, 'C11.X', pe, str_cmp('rule_name', 'dyndep'), False, 'X6 rule name must be dyndep',
              'X6:rule-name')
    reject_if(ctx, 'C11.X', pe, lambda a: mentions_call(a, 'Lexer::ReadIdent') and
              strip(a).get('k') == 'call', False, 'X6 rule name present', 'X6:rule-ident')
    # X7: order-only inputs
    reject_if(ctx, 'C11.X', pe, lambda a: strip(a).get('k') == 'call' and
              strip(a).get('name') == 'Lexer::PeekToken' and
              mentions_enum(a, 'Lexer::PIPE2'), True, 'X7 order-only inputs not supported',
              'X7:order-only')
    # X8: binding other than restat
    reject_if(ctx, 'C11.X', pe, str_cmp('key', 'restat'), False, 'X8 only the restat binding is allowed',
              'X8:binding-name')
    # empty evaluated paths: every string that ParseEdge canonicalises (the output and each implicit input / output,
    # whatever the variables are called and wherever the loop body lives) was tested for emptiness first
    canon_vars = set()
    n_empty = 0
    for e in pe.calls('CanonicalizePath'):
        vs = [x['n'] for x in walk((e.get('args') or [None])[0]) if x.get('k') == 'var']
        if not vs:
            continue
        canon_vars.add(vs[0])
        if fact_holds(pe.facts_at(e), call_on_exact_var('empty', vs[0]), False):
            n_empty += 1
    ctx.check('C11.X', n_empty >= 3 and n_empty == len(list(pe.calls('CanonicalizePath'))), pe.name, 'X:empty-path-guards', pe.loc,
              'evaluated paths (output, implicit inputs, implicit outputs) are tested for emptiness '
              '(%d guards)' % n_empty)
    reject_if(ctx, 'C11.X', pe, lambda a: any(call_on_exact_var('empty', v)(a) for v in canon_vars), True, 'empty path', 'X:empty-path',
              min_edges=3)

    # ---- X: rejections of the loader ---------------------------------------------------------------
    ld = [f for f in prog.fns('DyndepLoader::LoadDyndeps') if len(f.params) == 3][0]
    ue = prog.fn('DyndepLoader::UpdateEdge')
    reject_if(ctx, 'C11.X', ld, lambda a: strip(a).get('k') == 'call' and
              basename(strip(a).get('name') or '').startswith('operator==') and
              any(basename(x.get('name') or '') == 'end' for x in walk(a) if x.get('k') == 'call') and
              any(basename(x.get('name') or '').split('<')[0] == 'find' for x in walk(deep_resolve(ld, a)) if x.get('k') == 'call'),
              True, 'X9 edge not mentioned in its dyndep file (`find(edge) == end()`)', 'X9:edge-not-mentioned')
    # (the test of an entry that was looked up for an edge - `find(edge)` - is X12 below; X10 is about the entries of the sweep)
    reject_if(ctx, 'C11.X', ld, lambda a: mentions_field(a, 'Dyndeps::used_') and
              not any(x.get('k') == 'call' and basename(x.get('name') or '').split('<')[0] == 'find' for x in walk(deep_resolve(ld, a))), False,
              'X10 dyndep file mentions a statement without a binding for it', 'X10:extra-entry')
    reject_if(ctx, 'C11.X', ld, lambda a: any(is_file_load(prog, x) for x in walk(a)), False,
              'dyndep file missing / unreadable / malformed', 'X:load-failed')
    reject_if(ctx, 'C11.X', ld, lambda a: mentions_call(a, 'DyndepLoader::UpdateEdge'), False,
              'edge update failed', 'X:update-failed')
    reject_if(ctx, 'C11.X', ue, lambda a: mentions_field(a, 'Node::in_edge_'), True,
              'X11 implicit output already produced by a statement (any statement, also this one)',
              'X11:output-has-producer')
    # `used_` is set exactly for the entries that were looked up
    for f, e, kind, rhs in field_writes(prog, 'Dyndeps::used_'):
        if e.get('init'):
            ctx.check('C11.X', const_value(rhs) == 0, f.name, 'used_:init', f.where(e),
                      'Dyndeps::used_ starts false')
        else:
            ctx.check('C11.X', f.name == ld.name and const_value(rhs) == 1, f.name, 'used_:writer',
                      f.where(e), 'Dyndeps::used_ set true only by the loader for a found entry')
    # one-to-one also in the other direction: an entry is applied to its edge once per load, although an edge that lists the
    # dyndep file several times among its inputs is several times among the node's out-edges
    marks = [e for f, e, kind, rhs in field_writes(prog, 'Dyndeps::used_', [ld]) if not e.get('init') and const_value(rhs) == 1]
    for e in marks:
        guarded(ctx, 'C11.X', ld, e, lambda a: mentions_field(a, 'Dyndeps::used_'), False,
                'an entry is marked used (and applied) only if it was not used before in this load', construct='X12:entry-applied-twice')
    for e in ld.calls('DyndepLoader::UpdateEdge'):
        ctx.check('C11.X', any(ld.dominates_ev(m, e) for m in marks), ld.name, 'X12:update-before-mark', ld.where(e),
                  'UpdateEdge runs behind the store that marks the entry used')
    ctx.floor('C11.X', 26)

    # ---- P1/P2: splice consistency ---------------------------------------------------------------
    R('C11.P', 'P', 'UpdateEdge splices inputs into the implicit range with the counter, outputs '
      'with implicit_outs_, and registers in-edge / out-edge for every spliced node')
    ins = [(e, kind) for f, e, kind, rhs in field_writes(prog, 'Edge::inputs_', [ue])]
    outs = [(e, kind) for f, e, kind, rhs in field_writes(prog, 'Edge::outputs_', [ue])]
    ctx.check('C11.P', len(ins) == 1 and basename(ins[0][0].get('name')).startswith('insert'), ue.name,
              'UpdateEdge:inputs-insert-count', ue.loc, 'exactly one insertion into inputs_')
    for e, kind in ins:
        pos = deep_resolve(ue, e['args'][0]) if e.get('args') else None
        ok = 'Edge::order_only_deps_' in dstr(pos) and 'end()' in dstr(pos) and \
            any(x.get('op') == '-' or (x.get('k') == 'bin' and x['op'] == '-') for x in walk(pos))
        ctx.check('C11.P', ok, ue.name, 'UpdateEdge:inputs-insert-position', ue.where(e),
                  'discovered inputs are inserted at inputs_.end() - order_only_deps_ (position: %s)' % dstr(pos))
        src = dstr(deep_resolve(ue, e['args'][1:])) if e.get('args') else ''
        ctx.check('C11.P', 'Dyndeps::implicit_inputs_' in src, ue.name, 'UpdateEdge:inputs-source',
                  ue.where(e), 'what is inserted is the whole implicit_inputs_ range')
    cnt = [e for f, e, kind, rhs in field_writes(prog, 'Edge::implicit_deps_', [ue])]
    ctx.check('C11.P', len(cnt) == 1 and cnt[0]['op'] == '+=' and
              'Dyndeps::implicit_inputs_.size()' in dstr(deep_resolve(ue, cnt[0].get('r'))), ue.name,
              'UpdateEdge:implicit_deps_-update', ue.loc,
              'implicit_deps_ += implicit_inputs_.size() accompanies the insertion')
    for e, kind in outs:
        pos = deep_resolve(ue, e['args'][0]) if e.get('args') else None
        ctx.check('C11.P', dstr(strip(pos)).endswith('Edge::outputs_.end()') or 'Edge::outputs_.end()' in dstr(pos),
                  ue.name, 'UpdateEdge:outputs-insert-position', ue.where(e),
                  'discovered outputs are appended at outputs_.end() (position: %s)' % dstr(pos))
    cnt = [e for f, e, kind, rhs in field_writes(prog, 'Edge::implicit_outs_', [ue])]
    ctx.check('C11.P', len(outs) == 1 and len(cnt) == 1 and cnt[0]['op'] == '+=' and
              'Dyndeps::implicit_outputs_.size()' in dstr(cnt[0].get('r')), ue.name,
              'UpdateEdge:implicit_outs_-update', ue.loc,
              'implicit_outs_ += implicit_outputs_.size() accompanies the append')
    full_range(ctx, 'C11.P', ue, 'Dyndeps::implicit_inputs_', 'out-edge registered for every discovered input')
    full_range(ctx, 'C11.P', ue, 'Dyndeps::implicit_outputs_', 'in-edge set for every discovered output')
    for l in loops_over(ue, 'Dyndeps::implicit_inputs_'):
        every_iteration_passes(ctx, 'C11.P', ue, l, lambda x: x['k'] == 'call' and x.get('name') == 'Node::AddOutEdge',
                               'AddOutEdge(edge) for each discovered input', 'UpdateEdge:AddOutEdge-skipped')
    for l in loops_over(ue, 'Dyndeps::implicit_outputs_'):
        every_iteration_passes(ctx, 'C11.P', ue, l, lambda x: x['k'] == 'call' and x.get('name') == 'Node::set_in_edge',
                               'set_in_edge(edge) for each discovered output', 'UpdateEdge:set_in_edge-skipped')
    # restat
    rs = [e for e in ue.calls('BindingEnv::AddBinding') if 'restat' in dstr(e.get('args'))]
    ctx.check('C11.P', len(rs) == 1 and fact_holds(ue.facts_at(rs[0]), lambda a: mentions_field(a, 'Dyndeps::restat_'), True),
              ue.name, 'UpdateEdge:restat', ue.loc, 'restat binding added exactly when the dyndep file says so')
    # ... in a scope that belongs to this edge alone: an edge without bindings of its own shares the scope of its file
    # (the dyndep binding may come from the rule), and a binding added there would apply to every such edge
    for f2, e2 in calls_to(prog, 'BindingEnv::AddBinding'):
        if not mentions_field(e2.get('recv'), 'Edge::env_'):
            continue
        r = f2.find_path(None, lambda x: x is e2, from_succ=f2.entry,
                         is_blocker=lambda x: x.get('k') == 'asg' and mentions_field(x.get('l'), 'Edge::env_') and
                         any(y.get('k') == 'new' for y in walk(x.get('r'))),
                         edge_ok=lambda b, i, s2, f2=f2: not any(pol is True and mentions_field(atom, 'Edge::has_own_env_')
                                                                   for k, pol, atom in f2.edge_facts(b, i)))
        ctx.check('C11.P', r is None, f2.name, 'edge-binding:into-shared-scope', f2.where(e2),
                  'a binding is added to edge->env_ only when that scope is the edge\'s own (has_own_env_) or was just created for it',
                  witness=None if r is None else {'blocks': r[0]})
    # parser fills exactly these three fields
    for fld, var in (('Dyndeps::implicit_inputs_', 'ins'), ('Dyndeps::implicit_outputs_', 'outs')):
        ws = [(f, e) for f, e, kind, rhs in field_writes(prog, fld) if kind in ('push_back', 'emplace_back')]
        ctx.check('C11.P', len(ws) == 1 and ws[0][0].name == 'DyndepParser::ParseEdge', 'DyndepParser::ParseEdge',
                  'parser:%s-writers' % fld, pe.loc, '%s is filled only by DyndepParser::ParseEdge' % fld)
        for f, e in ws:
            os_ = origins(f, e['args'][0])
            ok = any(mentions_call(o, 'State::GetNode') for o in os_)
            ctx.check('C11.P', ok, f.name, 'parser:%s-source' % fld, f.where(e),
                      '%s receives State::GetNode(path) of each parsed path' % fld)
    ctx.floor('C11.P', 15)

    # ---- W1: pending flag lifecycle ---------------------------------------------------------------
    R('C11.W1', 'W', 'dyndep_pending is set only by the manifest parser and cleared only at the '
      'entry of DyndepLoader::LoadDyndeps; the dyndep binding must be one of the edge\'s inputs')
    n = 0
    for f, e in calls_to(prog, 'Node::set_dyndep_pending'):
        n += 1
        v = const_value(e['args'][0])
        if v == 1:
            ctx.check('C11.W1', f.name == 'ManifestParser::ParseEdge', f.name, 'pending=true:site',
                      f.where(e), 'set_dyndep_pending(true) in %s' % f.name)
        elif v == 0:
            ok = f.name == 'DyndepLoader::LoadDyndeps'
            ctx.check('C11.W1', ok, f.name, 'pending=false:site', f.where(e),
                      'set_dyndep_pending(false) in %s' % f.name)
            if ok:
                lf = [x for x in f.events('call') if is_file_load(prog, x)]
                ctx.check('C11.W1', bool(lf) and all(f.dominates_ev(e, x) for x in lf), f.name,
                          'pending=false:not-at-entry', f.where(e),
                          'the flag is cleared before the file is loaded (a failed load is not retried)')
        else:
            ctx.violation('C11.W1', f.name, 'pending:non-constant', f.where(e),
                          'set_dyndep_pending with a non-constant argument')
    vals = [const_value(e['args'][0]) for f, e in calls_to(prog, 'Node::set_dyndep_pending')]
    ctx.check('C11.W1', 0 in vals and 1 in vals, 'Node::set_dyndep_pending', 'pending:lifecycle-incomplete', 'src/dyndep.cc',
              'the pending flag is both set (parser) and cleared (loader): %s' % sorted(set(vals), key=str))
    # the field itself has no writer besides the setter (and its initialiser): in particular no per-scan reset touches
    # it - State::Reset() between the manifest regeneration and the real build must leave "still to be loaded" alone
    for f, e, kind, rhs in field_writes(prog, 'Node::dyndep_pending_'):
        ctx.check('C11.W1', e.get('init') or f.name in ('Node::set_dyndep_pending', 'Node::Node'), f.name, 'pending:direct-writer', f.where(e),
                  'Node::dyndep_pending_ is written only through set_dyndep_pending (writer: %s)' % f.name)
    mp = prog.fn('ManifestParser::ParseEdge')
    def not_among_inputs(a):
        d = deep_resolve(mp, a)
        sd = strip(d)
        k = dstr(d)
        return isinstance(sd, dict) and sd.get('k') == 'call' and basename(sd.get('name') or '').startswith('operator==') and \
            any(x.get('k') == 'call' and lastname(x.get('name') or '').split('<')[0] == 'find' for x in walk(d)) and \
            'Edge::dyndep_' in k and 'Edge::inputs_' in k and 'end()' in k
    reject_if(ctx, 'C11.W1', mp, not_among_inputs,
              True, 'X9 the dyndep binding must name one of the statement\'s inputs', 'X9:dyndep-not-input')
    ctx.floor('C11.W1', 4)

    # ---- O1: load points ------------------------------------------------------------------------------
    R('C11.O1', 'O', 'scan: a pending dyndep node is scanned, and loaded only when it has no '
      'producer or its producer\'s outputs are ready; build: Builder::LoadDyndeps loads every '
      'pending output and then hands the result to Plan::DyndepsLoaded; DyndepsLoaded queues every '
      'edge that is in the plan and not ready')
    scan = prog.fn('DependencyScan::RecomputeNodeDirty')
    lds = [e for e in scan.calls('DependencyScan::LoadDyndeps')]
    ctx.check('C11.O1', len(lds) == 1, scan.name, 'scan:LoadDyndeps-sites', scan.loc,
              'one scan-time dyndep load site')
    for e in lds:
        from rules import reached_only_via
        reached_only_via(ctx, 'C11.O1', scan, e, lambda a: mentions_call(a, 'Node::dyndep_pending') or
                         mentions_field(a, 'Node::dyndep_pending_'), True,
                         'scan-time load only behind the dyndep_pending() test', 'scan:load-non-pending')
        dominated_by(ctx, 'C11.O1', scan, e, lambda x: x['k'] == 'call' and
                     x.get('name') == 'DependencyScan::RecomputeNodeDirty' and
                     mentions_field(deep_resolve(scan, x['args'][0]), 'Edge::dyndep_'),
                     'the dyndep node itself is scanned first', 'scan:dyndep-node-not-scanned')
        # not reachable when the producer exists and is not ready
        bad = None
        for bid, b in scan.blocks.items():
            for i, s in enumerate(b['succ']):
                ef = scan.edge_fact(bid, i)
                if ef and ef[1] is False and mentions_field(ef[2], 'Edge::outputs_ready_') and \
                        mentions_field(ef[2], 'Edge::dyndep_'):
                    r = scan.find_path(None, lambda x: x is e, from_succ=s, init_facts=[(ef[0], ef[1])])
                    if r is not None:
                        bad = r
                    else:
                        ctx.inst('C11.O1', scan.where(e), 'producer-not-ready side cannot reach the load')
        ctx.check('C11.O1', bad is None, scan.name, 'scan:load-while-producer-not-ready', scan.where(e),
                  'the scan does not load a dyndep file whose producer still has to run')
    bl = prog.fn('Builder::LoadDyndeps')
    full_range(ctx, 'C11.O1', bl, 'Edge::outputs_', 'every output of the finished edge is examined')
    for l in loops_over(bl, 'Edge::outputs_'):
        skip_conditions_exact(ctx, 'C11.O1', bl, l,
                              lambda x: x['k'] == 'call' and x.get('name') == 'DependencyScan::LoadDyndeps',
                              [(lambda a: mentions_field(a, 'Node::dyndep_pending_') or mentions_call(a, 'Node::dyndep_pending'), False)],
                              'an output is skipped only if it is not a pending dyndep file',
                              'Builder::LoadDyndeps:extra-skip')
    must_pass(ctx, 'C11.O1', bl, lambda x: x['k'] == 'call' and x.get('name') == 'Plan::DyndepsLoaded',
              lambda x: x['k'] == 'ret' and const_value(x.get('e')) != 0 and
              not mentions_call(x.get('e'), 'Plan::DyndepsLoaded'),
              'a successful Builder::LoadDyndeps went through Plan::DyndepsLoaded', 'LoadDyndeps:no-DyndepsLoaded')
    dl = prog.fn('Plan::DyndepsLoaded')
    # the root selection loop: which map it iterates is a parameter, find loop by its push_back
    pb = [e for e in dl.events('call') if basename(e.get('name') or '') == 'push_back' and
          'dyndep_roots' in dstr(e.get('recv'))]
    ctx.check('C11.O1', len(pb) == 1, dl.name, 'DyndepsLoaded:roots-push', dl.loc,
              'DyndepsLoaded queues plan edges for the discovered-input walk')
    for e in pb:
        # find the loop whose body contains the push
        for bid, b in dl.blocks.items():
            t = b.get('term')
            if t and t['kind'] in ('for', 'range', 'while') and len(b['succ']) == 2 and \
                    e['_b'] in dl.reachable_from(b['succ'][0]) and bid in dl.reachable_from(e['_b']) and \
                    'dyndep_edges' in dstr(t.get('cond')):
                loop = {'header': bid, 'body': b['succ'][0], 'line': t['line'], 'bound': 'dyndep_edges'}
                skip_conditions_exact(
                    ctx, 'C11.O1', dl, loop, lambda x: x is e,
                    [(lambda a: mentions_field(a, 'Edge::outputs_ready_'), True)] + absent_from('Plan::want_'),
                    'an edge with new dyndep info is left out of the walk only if its outputs are ready '
                    'or it is not in the plan', 'DyndepsLoaded:extra-skip')
    check_refresh_validations(ctx, 'C11.O1', prog)
    check_outputs_statted(ctx, 'C11.O1', prog)
    check_midbuild_targets_scheduled(ctx, 'C11.O1', prog)
    check_recheck_is_full(ctx, 'C11.O1', prog)
    # an edge that becomes wanted because of freshly loaded dyndep information is counted like any wanted edge:
    # the flip kWantNothing -> kWantToStart in RefreshDyndepDependents is always followed by EdgeWanted (wanted_edges_
    # is decremented for every finished edge, phony or not; an uncounted one ends the build early)
    rdd = prog.fn('Plan::RefreshDyndepDependents')
    flips = [e for e in rdd.stores() if mentions_enum(e.get('r'), 'Plan::kWantToStart')]
    ctx.check('C11.O1', len(flips) >= 1, rdd.name, 'refresh:want-flip-absent', rdd.loc, 'RefreshDyndepDependents wants newly dirty dependents')
    for e in flips:
        r = rdd.find_path(e, lambda x: x['k'] in ('ret', 'exit') or (x['k'] == 'call' and x.get('name') == 'Plan::RefreshDyndepDependents') or
                          (x in flips and x is not e) or (x is e),
                          is_blocker=lambda x: x['k'] == 'call' and x.get('name') == 'Plan::EdgeWanted')
        ctx.check('C11.O1', r is None, rdd.name, 'refresh:wanted-edge-not-counted', rdd.where(e),
                  'every edge flipped to kWantToStart is passed to EdgeWanted', witness=None if r is None else {'blocks': r[0]})
    ctx.floor('C11.O1', 16)

    # ---- CN ---------------------------------------------------------------------------------------------
    R('C11.CN', 'CN', 'every path parsed from a dyndep file is canonicalised before it becomes a node identity')
    n = canon_before_intern(ctx, 'C11.CN', pe)
    ctx.floor('C11.CN', 3)
