"""C15 — depfiles written by compilers are read back as the same file names (DESIGN 11.9).

Decided here (structural clauses; the round trip of every escaped name through the generated scanner is NOT decided):
  X1  "depfiles without a ':' are rejected": once a name was collected, Parse cannot report success unless a target colon
      was seen; the colon flag is raised only by a name that ends in ':'.
  X2  "a dependency reappearing as a target that has its own dependencies is rejected": a name already among the
      prerequisites that turns up in target position poisons the rule; a new prerequisite of a poisoned rule is an error;
      the poison is lifted only at the end of the rule.
  O1  "each dependency once": a name is appended to ins_ (outs_) only if an equal name is not there yet.
  S1  "targets and dependencies kept apart": names go to ins_ exactly in dependency position and to outs_ exactly in target
      position; the position flips to "dependencies" only at a name ending in ':' and back only at a rule-ending newline;
      the position of a name is read before its own colon is processed; nothing else writes the two lists.
  U1  consumers use everything that was parsed: both loaders take the whole ins_ list, a parse error is reported as a
      failure, the depfile must name the edge's output.
  Z1  zone abstract interpretation of Parse: every de-escaping write (`*out++`, memset, memmove) ends at or below the
      read cursor `in`, and the length of each collected name is measured between `filename` and `out`.
"""
from facts import AnalysisBroken
from model import dstr, strip, walk, mentions_var, mentions_field, mentions_call, const_value, fact_holds
from rules import guarded, lastname, loops_over, field_writes, calls_to, is_success_return, every_iteration_passes
from zone import Analysis, Zone, ZERO, INF


def _key(e):
    return (e.get('_b'), e.get('_i'))


def _stores_of(f, var, value=None):
    """stores of local `var` (declarations with an initialiser included), optionally only those of a constant value."""
    out = []
    for e in f.stores():
        l = strip(e['l'])
        if isinstance(l, dict) and l.get('k') == 'var' and l['n'].split('#')[0] == var and e['op'] == '=' and \
                (value is None or const_value(e.get('r')) == value):
            out.append(e)
    return out


def _among(evs):
    ks = {_key(e) for e in evs}
    return lambda x: _key(x) in ks


def _block_guarded(f, e, pred, pol):
    """the block of e is entered only under a fact satisfying pred with the polarity (writes later in the block do not
    matter: the condition was established when the block was entered)."""
    return fact_holds(f.facts_at_block(e['_b']), pred, pol) or fact_holds(f.facts_at(e), pred, pol)


def flag_reach(f, flags, init, is_target, start_block=None):
    """Reachability in the product of the CFG with the values of a few boolean locals (a predicate abstraction
    with exactly those predicates): constant stores set a flag, any other store makes it unknown, a branch whose
    condition is a flag (or its negation) is followed only on the side its value allows.  Returns the list of
    (block, valuation) pairs at which an event satisfying is_target(event, valuation) is reached."""
    hits = []
    start = (start_block if start_block is not None else f.entry, tuple(init.get(n) for n in flags))
    seen = {start}
    work = [start]
    while work:
        bid, val = work.pop()
        v = dict(zip(flags, val))
        stop = False
        for e in f.blocks[bid]['ev']:
            if is_target(e, v):
                hits.append((bid, dict(v)))
            nm = None
            if e['k'] == 'decl':
                nm, rhs = e['n'].split('#')[0], e.get('init')
            elif e['k'] == 'asg' and isinstance(strip(e['l']), dict) and strip(e['l']).get('k') == 'var':
                nm, rhs = strip(e['l'])['n'].split('#')[0], (e.get('r') if e['op'] == '=' else None)
            if nm in v:
                c = const_value(rhs) if rhs is not None else None
                v[nm] = None if c is None else (1 if c else 0)
            if e['k'] == 'ret':
                stop = True
                break
        if stop:
            continue
        succ = f.blocks[bid]['succ']
        c = f.eff_cond(bid) if len(succ) == 2 else None
        for i, s2 in enumerate(succ):
            if s2 is None:
                continue
            v2 = dict(v)
            if c is not None:
                d, pol = strip(c), (i == 0)
                while isinstance(d, dict) and d.get('k') == 'un' and d['op'] == '!':
                    d, pol = strip(d['e']), not pol
                if isinstance(d, dict) and d.get('k') == 'var' and d['n'].split('#')[0] in v2:
                    nm = d['n'].split('#')[0]
                    if v2[nm] is not None and bool(v2[nm]) != pol:
                        continue
                    v2[nm] = 1 if pol else 0
            st = (s2, tuple(v2.get(n) for n in flags))
            if st not in seen:
                seen.add(st)
                work.append(st)
    return hits


def _neg(f):
    return ({v: -c for v, c in f[0].items()}, -f[1])


def _plus(a, b, k=0):
    t = dict(a[0])
    for v, c in b[0].items():
        t[v] = t.get(v, 0) + c
    return ({v: c for v, c in t.items() if c}, a[1] + b[1] + k)


def zone_deescape(ctx, rid, dp):
    """De-escaping writes of DepfileParser::Parse stay at or below the read cursor."""
    # the read cursor is the char* local the scanner advances; the write cursor is the one written through
    wr_ptrs, rd = set(), set()
    for e in dp.events('asg'):
        l = strip(e['l'])
        if isinstance(l, dict) and l.get('k') == 'un' and l.get('op') == '*':
            for x in walk(l['e']):
                if x.get('k') == 'var' and x.get('tk') == 'ptr':
                    wr_ptrs.add(x['n'])
    if not wr_ptrs:
        raise AnalysisBroken('DepfileParser::Parse: no pointer is written through')
    # the write cursor(s): `out`, and copies of it made by helpers that were inlined; the read cursor is the variable the
    # write cursor is initialised from at the start of every file name
    cur = None
    for e in dp.events('decl'):
        if e['n'] in wr_ptrs and e.get('init') is not None:
            i = strip(e['init'])
            if isinstance(i, dict) and i.get('k') == 'var' and i['n'] not in wr_ptrs:
                cur = i['n'] if cur in (None, i['n']) else cur
    if cur is None:
        raise AnalysisBroken('DepfileParser::Parse: the write cursor is not initialised from the read cursor')
    out = sorted(wr_ptrs)[0]
    an = Analysis(dp, extra_vars=['__t'])
    if cur not in an.names or not all(w in an.names for w in wr_ptrs):
        raise AnalysisBroken('DepfileParser::Parse: cursors not tracked')
    z = Zone(an.names)
    an.run(z)
    n = {'writes': 0, 'moves': 0}

    def below_cursor(zs, addr, k, e, what, construct):
        f = _plus(addr, ({cur: -1}, 0), k)          # addr + k - in <= 0
        ok = zs.entails(f, 0)
        ctx.check(rid, ok, dp.name, construct, dp.where(e), what,
                  msg=None if ok else '%s is not entailed by the zone fixpoint (state: %s)' % (what, zs.describe(set(wr_ptrs) | {cur, 'start', 'len', 'n', ZERO, 'filename'})[:300]))

    def on_event(bid, e, zs):
        if e['k'] == 'asg':
            l = strip(e['l'])
            if isinstance(l, dict) and l.get('k') == 'un' and l.get('op') == '*':
                a = an.lin(l['e'], zs)
                if a is None or not any(v in wr_ptrs for v in a[0]):
                    return
                n['writes'] += 1
                below_cursor(zs, a, 1, e, 'the byte written through `%s` lies below the read cursor `%s`' % (dstr(l['e'])[:20], cur),
                             'deescape:write-ahead-of-read:%s' % (e.get('src') or '')[:30])
        elif e['k'] == 'call' and (e.get('name') or '') in ('memset', 'memmove', 'memcpy'):
            args = e.get('args') or []
            a = an.lin(args[0], zs)
            ln = an.lin_or_temp(args[2], zs)
            if a is None or ln is None:
                ctx.check(rid, False, dp.name, 'deescape:%s:not-linear' % e['name'], dp.where(e),
                          'destination and length of %s are linear in the tracked cursors' % e['name'])
                return
            n['moves'] += 1
            below_cursor(zs, _plus(a, ln), 0, e, '%s(%s, .., %s) ends at or below the read cursor `%s`' % (
                e['name'], dstr(args[0])[:20], dstr(args[2])[:20], cur), 'deescape:%s-ahead-of-read' % e['name'])
            ok = zs.entails(_neg(ln), 0)
            ctx.check(rid, ok, dp.name, 'deescape:%s:negative-length' % e['name'], dp.where(e),
                      'the length `%s` of %s is not negative' % (dstr(args[2])[:30], e['name']))
            if e['name'] in ('memmove', 'memcpy'):
                s = an.lin(args[1], zs)
                if s is not None:
                    below_cursor(zs, _plus(s, ln), 0, e, '%s reads `%s` + `%s` at or below the read cursor' % (
                        e['name'], dstr(args[1])[:20], dstr(args[2])[:20]), 'deescape:%s-reads-ahead' % e['name'])
    an.visit(on_event)
    ctx.table('C15.Z1 zone analysis', {'function': dp.id, 'write cursors': sorted(wr_ptrs), 'read cursor': cur,
                                       'loop heads (widening points)': len(an.heads), 'blocks reached': len([b for b in an.inn if not an.inn[b].bot]),
                                       'byte writes checked': n['writes'], 'block fills / moves checked': n['moves']})
    return n


def zone_gapfree(ctx, rid, dp):
    """When the write cursor lags behind the text being scanned, every byte it moves over is written first.
    For each advance of the write cursor (`out += E`, `out = out + E`, `++out`): on every way into the advance - replayed
    path by path through the blocks that do not move the read cursor, starting from the zone fixpoint - either the cursor is
    known not to lag (`out >= start`, the kept text is in place already), or the advance is by nothing (E <= 0), or a fill /
    move of exactly E bytes at the old position (memset / memmove / memcpy(out, .., E)) was passed since the last advance,
    or the advance is the `*out++ = c` idiom (the byte is stored through the old position)."""
    wr_ptrs = set()
    for e in dp.events('asg'):
        l = strip(e['l'])
        if isinstance(l, dict) and l.get('k') == 'un' and l.get('op') == '*':
            for x in walk(l['e']):
                if x.get('k') == 'var' and x.get('tk') == 'ptr':
                    wr_ptrs.add(x['n'])
    for e in dp.events('call'):
        if (e.get('name') or '') in ('memset', 'memmove', 'memcpy') and e.get('args'):
            d0 = strip(e['args'][0])
            if isinstance(d0, dict) and d0.get('k') == 'var' and d0.get('tk') == 'ptr':
                wr_ptrs.add(d0['n'])
    # copies of a write cursor (parameters of inlined helpers) are write cursors
    changed = True
    while changed:
        changed = False
        for e in dp.events('decl'):
            i = strip(e.get('init')) if e.get('init') is not None else None
            if isinstance(i, dict) and i.get('k') == 'var' and i['n'] in wr_ptrs and e['n'] not in wr_ptrs:
                wr_ptrs.add(e['n'])
                changed = True
    cur = None
    for e in dp.events('decl'):
        if e['n'] in wr_ptrs and e.get('init') is not None:
            i = strip(e['init'])
            if isinstance(i, dict) and i.get('k') == 'var' and i['n'] not in wr_ptrs:
                cur = i['n']
    span = [e['n'] for e in dp.events('decl') if e.get('init') is not None and isinstance(strip(e['init']), dict) and
            strip(e['init']).get('k') == 'var' and strip(e['init'])['n'] == cur and e['n'] not in wr_ptrs and 'char' in (e.get('ty') or '')]
    if cur is None or not span:
        raise AnalysisBroken('DepfileParser::Parse: read cursor / span start not found (%s, %s)' % (cur, span))
    start = span[0]
    an = Analysis(dp, extra_vars=['__t', '__u'])
    z0 = Zone(an.names)
    an.run(z0)
    preds = {}
    for b, blk in dp.blocks.items():
        for i, s2 in enumerate(blk['succ']):
            if s2 is not None:
                preds.setdefault(s2, []).append((b, i))

    def moves_cursor(b):
        return any((e['k'] == 'asg' and isinstance(strip(e['l']), dict) and strip(e['l']).get('k') == 'var' and strip(e['l'])['n'] == cur) or
                   (e['k'] == 'decl' and e['n'] == cur) for e in dp.blocks[b]['ev'])

    def advance_of(e):
        """(write cursor, amount descriptor or int) if e advances a write cursor, or computes an advanced cursor position
        (`r = out + E`, e.g. the result of an inlined helper)."""
        if e['k'] == 'decl' and e.get('init') is not None:
            r = strip(e['init'])
            if isinstance(r, dict) and r.get('k') == 'bin' and r['op'] == '+' and isinstance(strip(r['l']), dict) and \
                    strip(r['l']).get('k') == 'var' and strip(r['l'])['n'] in wr_ptrs:
                return strip(r['l'])['n'], r['r']
            return None
        if e['k'] != 'asg':
            return None
        l = strip(e['l'])
        if e['op'] == '=' and isinstance(l, dict) and l.get('k') == 'var':
            r = strip(e.get('r'))
            if isinstance(r, dict) and r.get('k') == 'bin' and r['op'] == '+' and isinstance(strip(r['l']), dict) and \
                    strip(r['l']).get('k') == 'var' and strip(r['l'])['n'] in wr_ptrs:
                return strip(r['l'])['n'], r['r']
        if not (isinstance(l, dict) and l.get('k') == 'var' and l['n'] in wr_ptrs):
            return None
        if e['op'] == '++':
            return l['n'], 1
        if e['op'] == '+=':
            return l['n'], e.get('r')
        if e['op'] == '=':
            r = strip(e.get('r'))
            if isinstance(r, dict) and r.get('k') == 'bin' and r['op'] == '+' and isinstance(strip(r['l']), dict) and \
                    strip(r['l']).get('k') == 'var' and strip(r['l'])['n'] in wr_ptrs:
                return l['n'], r['r']
            if isinstance(r, dict) and r.get('k') == 'var' and (r['n'] in wr_ptrs or r['n'].startswith('ret@')):
                return None         # a copy of a cursor (inlined helper result): the advance was checked where it was computed
        return None

    n_adv, n_paths = 0, 0
    for bid in sorted(dp.blocks, reverse=True):
        if bid not in an.inn or an.inn[bid].bot:
            continue
        evs = dp.blocks[bid]['ev']
        for idx, e in enumerate(evs):
            adv = advance_of(e)
            if adv is None:
                continue
            wv, amount = adv
            # `*out++ = c`: the store through the old position follows in the same block
            if amount == 1 and any(x['k'] == 'asg' and isinstance(strip(x['l']), dict) and strip(x['l']).get('k') == 'un' and
                                   'post++' in dstr(strip(x['l'])['e']) and wv in dstr(strip(x['l'])['e']) for x in evs[idx + 1:idx + 4]):
                n_adv += 1
                ctx.inst(rid, dp.where(e), 'advance `%s`: the byte is stored through the old position (`*%s++ = c`)' % ((e.get('src') or '')[:30], wv))
                continue
            n_adv += 1
            # backward paths through blocks that leave the read cursor alone
            paths, work = [], [[bid]]
            while work:
                pth = work.pop()
                b0 = pth[0]
                ps = [pb for pb, pi in preds.get(b0, []) if pb in an.inn and not an.inn[pb].bot]
                if not ps:
                    paths.append(pth)
                for pb in ps:
                    if pb in pth or len(pth) >= 12:
                        paths.append(pth)       # a loop or a long way: replay from the fixpoint state of b0 (no refinement lost that matters)
                    elif moves_cursor(pb):
                        paths.append([pb] + pth)    # the last block of the scanner: replay it too (its branch decides the way in), go no further
                    else:
                        work.append([pb] + pth)
                if len(paths) + len(work) > 400:
                    raise AnalysisBroken('gap-free check: too many ways into the advance at %s' % dp.where(e))
            bad = None
            for pth in paths:
                n_paths += 1
                zs = an.inn[pth[0]].copy()
                filled = None        # descriptor / form of the last fill at the cursor on this path
                ok_path = False
                feasible = True
                for k, b in enumerate(pth):
                    last = (k == len(pth) - 1)
                    for j, x in enumerate(dp.blocks[b]['ev']):
                        if last and j == idx:
                            break
                        a2 = advance_of(x)
                        if a2 is not None and a2[0] == wv:
                            filled = None
                        if x['k'] == 'call' and (x.get('name') or '') in ('memset', 'memmove', 'memcpy') and len(x.get('args') or []) == 3:
                            d0 = strip(x['args'][0])
                            if isinstance(d0, dict) and d0.get('k') == 'var' and d0['n'] == wv:
                                filled = x['args'][2]
                        an.transfer_event(zs, x)
                    if zs.bot:
                        feasible = False
                        break
                    if not last:
                        nb = pth[k + 1]
                        blk = dp.blocks[b]
                        t = blk.get('term')
                        took = [i for i, s2 in enumerate(blk['succ']) if s2 == nb]
                        if t and 'cond' in t and len(blk['succ']) == 2 and len(took) == 1:
                            zs = an.refine(zs, dp.eff_cond(b), took[0] == 0)
                            if zs.bot:
                                feasible = False
                                break
                if not feasible:
                    continue
                # (a) not lagging
                if zs.entails(({start: 1, wv: -1}, 0), 0):
                    continue
                # (b) advance by nothing
                amt = ({}, amount) if isinstance(amount, int) else an.lin_or_temp(amount, zs, '__t')
                if amt is not None and zs.entails(amt, 0):
                    continue
                # (c) a fill of exactly that many bytes at the old position
                if filled is not None:
                    if not isinstance(amount, int) and dstr(strip(filled)) == dstr(strip(amount)):
                        continue
                    fl = an.lin_or_temp(filled, zs, '__u')
                    if amt is not None and fl is not None:
                        diff = ({v: c for v, c in {**{a_: c_ for a_, c_ in amt[0].items()}, **{}}.items()}, amt[1])
                        t2 = dict(amt[0])
                        for v, c in fl[0].items():
                            t2[v] = t2.get(v, 0) - c
                        f1 = ({v: c for v, c in t2.items() if c}, amt[1] - fl[1])
                        if zs.entails(f1, 0):          # the advance is not larger than what was filled
                            continue
                bad = (pth, zs.describe({wv, start, cur, ZERO} | {v for v in an.names if v.startswith(('len', 'n', 'count'))})[:260])
                break
            ctx.check(rid, bad is None, dp.name, 'deescape:gap:%s' % (e.get('src') or '')[:30], dp.where(e),
                      'the write cursor advances over bytes only if it does not lag, or they were filled / moved first (`%s`)' % (e.get('src') or '')[:40],
                      msg=None if bad is None else 'on a way into `%s` the write cursor may lag behind `%s` and moves over bytes that were not written '
                      '(blocks %s; state: %s)' % ((e.get('src') or '')[:40], start, bad[0][-6:], bad[1]),
                      witness=None if bad is None else {'blocks': bad[0]})
    ctx.table(rid + ' gap-free fill', {'write cursors': sorted(wr_ptrs), 'read cursor': cur, 'span start': start,
                                       'advances examined': n_adv, 'ways replayed': n_paths})
    return n_adv


def run(ctx):
    prog = ctx.prog
    R = ctx.rule
    dp = prog.fn('DepfileParser::Parse')

    def pushes(field):
        return [e for e in dp.events('call') if lastname(e.get('name') or '').split('<')[0] in ('push_back', 'emplace_back', 'insert') and
                mentions_field(e.get('recv'), field)]
    ins_push, outs_push = pushes('DepfileParser::ins_'), pushes('DepfileParser::outs_')
    if not ins_push or not outs_push:
        raise AnalysisBroken('DepfileParser::Parse does not append to ins_ / outs_')

    def succ_ret(x):
        return is_success_return(prog, dp, x)

    # ---- X1 ---------------------------------------------------------------------------------------------
    R('C15.X1', 'X', 'a depfile that names files but has no target colon is rejected')
    ht_true = _stores_of(dp, 'have_target', 1)
    ht_all = _stores_of(dp, 'have_target')
    ne_false = _stores_of(dp, 'is_empty', 0)
    ctx.check('C15.X1', len(ht_true) >= 1 and len(ne_false) >= 1, dp.name, 'no-colon:flags-absent', dp.loc,
              'Parse tracks "a target colon was seen" and "a name was collected"')
    colon = lambda a: '== 58' in dstr(a)
    for e in ht_true:
        ctx.check('C15.X1', _block_guarded(dp, e, colon, True), dp.name, 'no-colon:flag-raised-without-colon', dp.where(e),
                  'the colon flag is raised only by a name whose last byte is \':\'')
    for e in ht_all:
        if not _among(ht_true)(e):
            ctx.check('C15.X1', bool(e.get('from_decl')) and const_value(e.get('r')) == 0, dp.name, 'no-colon:flag-other-store', dp.where(e),
                      'the colon flag starts false and is otherwise only raised')
    for e in ins_push + outs_push:
        r = dp.find_path(None, lambda x: x is e, from_succ=dp.entry, is_blocker=_among(ne_false), sensitive=False)
        ctx.check('C15.X1', r is None, dp.name, 'no-colon:name-collected-but-empty', dp.where(e),
                  'a name is collected only after "the file is not empty" was noted', witness=None if r is None else {'blocks': r[0]})
    # product of the CFG with the two flags: no successful return is reachable with "a name was noted" and "no colon seen"
    hits = flag_reach(dp, ['have_target', 'is_empty'], {}, lambda e, v: succ_ret(e) and v.get('is_empty') == 0 and v.get('have_target') != 1)
    ctx.check('C15.X1', not hits, dp.name, 'no-colon:accepted', dp.loc,
              'once a name was collected Parse succeeds only if a target colon was seen (flag product over %d blocks)' % len(dp.blocks),
              witness=None if not hits else {'states': hits[:3]})
    ctx.floor('C15.X1', 5)

    # ---- X2 ---------------------------------------------------------------------------------------------
    R('C15.X2', 'X', 'a prerequisite that reappears as a target with prerequisites of its own is rejected')
    po_true = _stores_of(dp, 'poisoned_input', 1)
    po_false = [e for e in _stores_of(dp, 'poisoned_input', 0) if not e.get('from_decl')]
    ctx.check('C15.X2', len(po_true) >= 1, dp.name, 'poison:never-set', dp.loc, 'Parse notes a prerequisite seen in target position')

    def is_found_in_ins(a):
        return 'DepfileParser::ins_' in dstr(a) and ('end()' in dstr(a))

    def flagvar(name):
        return lambda a: isinstance(strip(a), dict) and strip(a).get('k') == 'var' and strip(a)['n'].split('#')[0] == name

    def dep_pol_facts(facts, want_dep):
        for k, (p, a) in facts.items():
            s_ = strip(a)
            if isinstance(s_, dict) and s_.get('k') == 'var':
                nm = s_['n'].split('#')[0]
                if nm == 'is_dependency' and p == want_dep:
                    return True
                if nm == 'parsing_targets' and p == (not want_dep):
                    return True
        return False

    def dep_pol(f, e, want_dep):
        """the guard facts at e say the name is in dependency position (want_dep) / target position."""
        return dep_pol_facts(f.facts_at(e), want_dep) or dep_pol_facts(f.facts_at_block(e['_b']), want_dep)
    for e in po_true:
        ok = _block_guarded(dp, e, is_found_in_ins, False) and dep_pol(dp, e, False)
        ctx.check('C15.X2', ok, dp.name, 'poison:set-elsewhere', dp.where(e),
                  'the rule is poisoned exactly for a name that is already a prerequisite and stands in target position')
    # exactness: found among ins_ and in target position => the poison store is passed
    nxt = [x for x in dp.events('decl') if x['n'].split('#')[0] == 'have_newline']
    n_found = 0
    for bid, b in dp.blocks.items():
        for i, s2 in enumerate(b['succ']):
            if s2 is None:
                continue
            efs = dp.edge_facts(bid, i)
            if any(p_ is False and is_found_in_ins(a) for k, p_, a in efs):
                n_found += 1
                if dep_pol_facts(dp.facts_at_block(bid), True) or dep_pol_facts({k: (p_, a) for k, p_, a in efs}, True):
                    continue        # this test is made in dependency position: nothing to poison

                def edge_ok(b2, i2, s3):
                    for k2, p2, a2 in dp.edge_facts(b2, i2):
                        s_ = strip(a2)
                        if isinstance(s_, dict) and s_.get('k') == 'var':
                            nm = s_['n'].split('#')[0]
                            if (nm == 'is_dependency' and p2 is True) or (nm == 'parsing_targets' and p2 is False):
                                return False
                    return True
                r = dp.find_path(None, lambda x: x in nxt or x['k'] == 'ret', from_succ=s2, is_blocker=_among(po_true),
                                 edge_ok=edge_ok, sensitive=False)
                ctx.check('C15.X2', r is None, dp.name, 'poison:not-set', 'src/depfile_parser.cc:%s' % (b.get('term') or {}).get('line', '?'),
                          'a known prerequisite in target position always poisons the rule', witness=None if r is None else {'blocks': r[0]})
    ctx.check('C15.X2', n_found >= 1, dp.name, 'poison:no-lookup', dp.loc, 'Parse branches on "the name is already a prerequisite"')
    for e in ins_push:
        ctx.check('C15.X2', _block_guarded(dp, e, flagvar('poisoned_input'), False), dp.name, 'poison:input-accepted', dp.where(e),
                  'a new prerequisite is accepted only while the rule is not poisoned')
    # the poisoned way: no new prerequisite is filed and Parse does not succeed before the poison is lifted
    n_p = 0
    for bid, b in dp.blocks.items():
        for i, s2 in enumerate(b['succ']):
            if s2 is None:
                continue
            if any(p_ is True and flagvar('poisoned_input')(a) for k, p_, a in dp.edge_facts(bid, i)):
                n_p += 1
                r = dp.find_path(None, lambda x: succ_ret(x) or x in ins_push, from_succ=s2,
                                 is_blocker=lambda x: _among(po_false)(x) or x in nxt)
                ctx.check('C15.X2', r is None, dp.name, 'poison:not-rejected', 'src/depfile_parser.cc:%s' % (b.get('term') or {}).get('line', '?'),
                          'a new prerequisite in a poisoned rule makes Parse fail', witness=None if r is None else {'blocks': r[0]})
    ctx.check('C15.X2', n_p >= 1, dp.name, 'poison:never-tested', dp.loc, 'Parse branches on the poison flag')
    for e in po_false:
        ctx.check('C15.X2', _block_guarded(dp, e, flagvar('have_newline'), True), dp.name, 'poison:lifted-early', dp.where(e),
                  'the poison is lifted only at the end of a rule')
    # ... and it IS lifted there: from the edge that established "the rule ended" the next name is not reached with the
    # poison still standing
    n_nl = 0
    for bid, b in dp.blocks.items():
        for i, s2 in enumerate(b['succ']):
            if s2 is None:
                continue
            if any(p_ is True and flagvar('have_newline')(a) for k, p_, a in dp.edge_facts(bid, i)):
                n_nl += 1
                r = dp.find_path(None, lambda x: x in nxt or x['k'] == 'ret', from_succ=s2, is_blocker=_among(po_false), sensitive=False)
                ctx.check('C15.X2', r is None, dp.name, 'poison:kept-across-rules', 'src/depfile_parser.cc:%s' % (b.get('term') or {}).get('line', '?'),
                          'the end of a rule lifts the poison before the next name is read', witness=None if r is None else {'blocks': r[0]})
    ctx.check('C15.X2', n_nl >= 1, dp.name, 'poison:no-rule-end', dp.loc, 'Parse branches on "the rule ended"')
    ctx.floor('C15.X2', 5)

    # ---- O1 ---------------------------------------------------------------------------------------------
    R('C15.O1', 'G', 'each name is collected once: appended only when no equal name is in the list yet')
    from rules import deep_resolve

    def absent_fact(f, e, fld):
        """a guard fact at e that says "a search of the whole list `fld` found nothing"; returns the searched value."""
        for facts in (f.facts_at(e), f.facts_at_block(e['_b'])):
            for k, (p_, a) in facts.items():
                r = dstr(deep_resolve(f, a))
                whole = fld + '.begin()' in r and fld + '.end()' in r
                if p_ and whole and 'find' in r and '==' in (dstr(a) + r) and r.count(fld + '.end()') >= 2:
                    return r
                if p_ and 'none_of' in r and whole:
                    return r
                if p_ is False and whole and ('any_of' in r or ('count' in r and 'find' not in r)):
                    return r
        return None
    for e, fld in [(x, 'DepfileParser::ins_') for x in ins_push] + [(x, 'DepfileParser::outs_') for x in outs_push]:
        r = absent_fact(dp, e, fld)
        ctx.check('C15.O1', r is not None, dp.name, 'dedup:%s' % fld.split('::')[1], dp.where(e),
                  'appended to %s only when a search over the whole list found no equal name' % fld.split('::')[1])
        # what is searched for is what is appended
        arg = dstr(deep_resolve(dp, strip((e.get('args') or [None])[0])))
        arg0 = dstr(strip((e.get('args') or [None])[0]))
        ctx.check('C15.O1', r is not None and (arg in r or arg0 in r), dp.name, 'dedup:other-name-searched:%s' % fld.split('::')[1], dp.where(e),
                  'the name searched for is the name appended (`%s`)' % arg0[:30])
    ctx.floor('C15.O1', 4)

    # ---- S1 ---------------------------------------------------------------------------------------------
    R('C15.S1', 'G', 'targets and prerequisites are kept apart')
    for e in ins_push:
        ctx.check('C15.S1', dep_pol(dp, e, True), dp.name, 'separation:target-into-ins', dp.where(e), 'ins_ receives names in dependency position only')
    for e in outs_push:
        ctx.check('C15.S1', dep_pol(dp, e, False), dp.name, 'separation:dependency-into-outs', dp.where(e), 'outs_ receives names in target position only')
    pt_false = [e for e in _stores_of(dp, 'parsing_targets', 0)]
    pt_true = [e for e in _stores_of(dp, 'parsing_targets', 1) if not e.get('from_decl')]
    pt_all = _stores_of(dp, 'parsing_targets')
    ctx.check('C15.S1', len(pt_false) >= 1 and len(pt_true) >= 1, dp.name, 'separation:position-never-flips', dp.loc,
              'the position flips to dependencies and back')
    for e in pt_false:
        ctx.check('C15.S1', _block_guarded(dp, e, colon, True), dp.name, 'separation:flip-without-colon', dp.where(e),
                  'the position becomes "dependencies" only at a name ending in \':\'')
    for e in pt_true:
        ctx.check('C15.S1', _block_guarded(dp, e, flagvar('have_newline'), True), dp.name, 'separation:reset-without-newline', dp.where(e),
                  'the position returns to "targets" only at the end of a rule')
    for e in pt_all:
        if not _among(pt_false)(e) and not _among(pt_true)(e):
            ctx.check('C15.S1', bool(e.get('from_decl')) and const_value(e.get('r')) == 1, dp.name, 'separation:position-other-store', dp.where(e),
                      'parsing starts in target position')
    # the position used for a name is the one before its own colon was processed
    isdep = [e for e in dp.events('decl') if e['n'].split('#')[0] == 'is_dependency']
    if isdep:
        for d in isdep:
            for e in pt_false:
                ctx.check('C15.S1', dp.dominates_ev(d, [x for x in dp.blocks[e['_b']]['ev'] if _key(x) == _key(e)][0]), dp.name, 'separation:position-read-after-colon', dp.where(d),
                          'the position of a name is read before its own trailing colon switches the position')
    else:
        for e in ins_push + outs_push:
            # no snapshot: then the colon of the same name must not be processed before the name is filed
            r = dp.find_path(None, lambda x: x is e, from_succ=dp.entry, is_blocker=None)
            bad = any(dp.ev_reaches(s, e) and not any(dp.ev_reaches(e, s) for _ in [0]) for s in pt_false)
            ctx.check('C15.S1', not bad, dp.name, 'separation:position-read-after-colon', dp.where(e),
                      'the position of a name is read before its own trailing colon switches the position')
    for fld in ('DepfileParser::ins_', 'DepfileParser::outs_'):
        for f, e, kind, rhs in field_writes(prog, fld):
            ok = f.name in ('DepfileParser::Parse', 'DepfileParser::DepfileParser') or \
                (kind == 'byref' and e.get('name') == 'ImplicitDepLoader::ProcessDepfileDeps')
            ctx.check('C15.S1', ok, f.name, 'separation:list-edited:%s:%s' % (fld.split('::')[1], kind), f.where(e),
                      '%s is filled by the parser only (%s in %s)' % (fld.split('::')[1], kind, f.name))
    ctx.floor('C15.S1', 8)

    # ---- U1 ---------------------------------------------------------------------------------------------
    R('C15.U1', 'O', 'the loaders use the whole parsed list, treat a parse error as a failure and require the depfile to name the output')
    ldf = prog.fn('ImplicitDepLoader::LoadDepFile')
    ed = prog.fn('Builder::ExtractDeps')
    for f in (ldf, ed):
        cs = list(f.calls('DepfileParser::Parse'))
        ctx.check('C15.U1', len(cs) >= 1, f.name, 'consumer:no-parse', f.loc, '%s parses the depfile' % f.name)
        for c in cs:
            ctx.check('C15.U1', not c.get('disc'), f.name, 'consumer:parse-result-dropped', f.where(c), 'the result of Parse is looked at')
            # failing Parse => no success return
            for bid, b in f.blocks.items():
                for i, s in enumerate(b['succ']):
                    if s is None:
                        continue
                    if any(p is False and mentions_call(a, 'DepfileParser::Parse') for k, p, a in f.edge_facts(bid, i)):
                        r = f.find_path(None, lambda x: is_success_return(prog, f, x), from_succ=s)
                        ctx.check('C15.U1', r is None, f.name, 'consumer:parse-error-accepted', f.where(c),
                                  'a depfile that does not parse makes %s fail' % f.name, witness=None if r is None else {'blocks': r[0]})
    for e in ldf.calls('ImplicitDepLoader::ProcessDepfileDeps'):
        ctx.check('C15.U1', 'DepfileParser::ins_' in dstr(e['args'][1]), ldf.name, 'consumer:list-not-passed', ldf.where(e),
                  'LoadDepFile hands the parser\'s whole ins_ list on')
    ls = loops_over(ed, 'DepfileParser::ins_')
    ctx.check('C15.U1', len(ls) == 1 and ls[0]['full'], ed.name, 'consumer:partial-loop', ed.loc, 'ExtractDeps walks the whole ins_ list')
    outs_reads = [x for x in walk([e for b in ldf.blocks.values() for e in b['ev']]) if x.get('k') == 'mem' and x.get('n') == 'DepfileParser::outs_']
    ctx.check('C15.U1', bool(outs_reads), ldf.name, 'consumer:outs-ignored', ldf.loc, 'LoadDepFile looks at the targets the depfile names')
    ctx.floor('C15.U1', 8)

    # ---- Z1 ---------------------------------------------------------------------------------------------
    R('C15.Z1', 'AI', 'zone abstract interpretation of DepfileParser::Parse: every de-escaping write, fill and move ends at or below the '
      'read cursor (the text not yet scanned is never overwritten), with non-negative lengths')
    zone_deescape(ctx, 'C15.Z1', dp)
    ctx.floor('C15.Z1', 8)
    R('C15.Z2', 'AI', 'gap-free de-escaping: where the write cursor lags behind the scanned text, every byte it moves over was written first '
      '(path-by-path replay of the zone analysis through each de-escaping action)')
    zone_gapfree(ctx, 'C15.Z2', dp)
    ctx.floor('C15.Z2', 6)
    ctx.note('NOT decided: that every escaped spelling (runs of backslashes before space, #, :, $$, continuations, CRLF) is read back '
             'as the name that was written - that is the behaviour of the generated scanner on strings, not a shape of the code. '
             'Its memory safety at the sentinel is decided under C13 (VS1).')
