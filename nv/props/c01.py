"""C01 — a successful incremental build equals a clean build (DESIGN 5.1)."""
from facts import AnalysisBroken
from model import (norm_cond, facts_str, path_value, dstr, strip, fact_holds, mentions_field, mentions_call, mentions_var,
                   mentions_enum, const_value, walk)
from rules import (stores_to, absent_from, guarded, calls_to, field_writes, who_may_call, must_pass, dominated_by,
                   full_range, loops_over, every_iteration_passes, basename, error_discipline,
                   origins, reject_if, skip_conditions_exact, is_enum, is_field, is_var,
                   reached_only_via, canon_before_intern, loop_blocks)
from props.scan_common import (rec_vars, is_rec_var, mri_vars, mentions_mri, OUTDIRTY, ts_role, ts_comparisons, check_cc, effect_returns,
                               effect_assigns, true_succ)


def clean_verdict(f):
    return lambda x: x['k'] == 'ret' and const_value(x.get('e')) == 0


def _reachable_avoiding(f, bid, bad_edge):
    """Block bid can be reached from the entry without taking an edge one of whose facts satisfies bad_edge (structural:
    later writes do not matter).  False means: every way into it passes such an edge."""
    seen, st = set(), [f.entry]
    while st:
        b = st.pop()
        if b in seen:
            continue
        seen.add(b)
        if b == bid:
            return True
        for i, s2 in enumerate(f.blocks[b]['succ']):
            if s2 is None or any(bad_edge(k2, p2, a2) for k2, p2, a2 in f.edge_facts(b, i)):
                continue
            st.append(s2)
    return False


def run(ctx):
    prog = ctx.prog
    R = ctx.rule
    first = prog.fn(OUTDIRTY[0])
    second = prog.fn(OUTDIRTY[1])

    # ---- X1: dirty reasons present ------------------------------------------------------------------
    R('C01.X1', 'X', 'the output dirty check has a dirty verdict for: missing output, output older '
      'than an input, command hash differs from the log, logged mtime older than an input, no log '
      'entry; the re-check after loading deps keeps the two timestamp verdicts')
    reject_if(ctx, 'C01.X1', first, lambda a: mentions_field(a, 'Node::exists_'), False,
              'missing output => dirty', 'X1:missing-output', success=clean_verdict(first))
    reject_if(ctx, 'C01.X1', first, lambda a: mentions_field(a, 'BuildLog::LogEntry::command_hash'),
              False, 'command changed => dirty', 'X1:command-hash', success=clean_verdict(first))
    # no log entry (and not a generator) => dirty
    n = 0
    for bid, b in first.blocks.items():
        for i, s in enumerate(b['succ']):
            ef = first.edge_fact(bid, i)
            if ef and ef[1] is False and mentions_field(ef[2], 'RecomputeOutputsDirtyCache::generator_') \
                    and s is not None:
                fb = first.facts_at_block(bid)
                if fact_holds(fb, lambda a: mentions_field(a, 'RecomputeOutputsDirtyCache::CachedLogEntry::entry_') or
                              mentions_call(a, 'RecomputeOutputsDirtyCache::CachedLogEntry::is_valid'), False):
                    n += 1
                    r = first.find_path(None, clean_verdict(first), from_succ=s, init_facts=[(ef[0], ef[1])],
                                        is_blocker=lambda x: x['k'] == 'ret' and const_value(x.get('e')) == 1)
                    ctx.check('C01.X1', r is None, first.name, 'X1:no-log-entry', 'src/graph.cc:%s' % first.term(bid)['line'],
                              'no build-log entry (and not a generator) => dirty')
    if n == 0:
        ctx.violation('C01.X1', first.name, 'X1:no-log-entry:guard-absent', first.loc,
                      'the "command line not found in log" verdict is gone')
    # ... and nothing but "generator rule" keeps the command from being compared: with a log entry, a clean verdict of
    # the first check is reached only through the evaluation of the command hash
    hashed = [e for e in first.events('call') if (e.get('name') or '').startswith('LazyEdgeCommandHash::operator()')]
    nh = 0
    for bid, b in first.blocks.items():
        for i, s2 in enumerate(b['succ']):
            if s2 is None:
                continue
            if any(p_ is True and mentions_call(a, 'RecomputeOutputsDirtyCache::CachedLogEntry::LookupByOutput') for k_, p_, a in first.edge_facts(bid, i)) and \
                    not fact_holds(first.facts_at_block(bid), lambda a: mentions_field(a, 'RecomputeOutputsDirtyCache::isRestat_'), True) and \
                    not any(p_ is True and mentions_field(a, 'RecomputeOutputsDirtyCache::isRestat_') for k_, p_, a in first.edge_facts(bid, i)) and \
                    _reachable_avoiding(first, bid, lambda k2, p2, a2: p2 is True and mentions_field(a2, 'RecomputeOutputsDirtyCache::isRestat_')):
                nh += 1
                r = first.find_path(None, clean_verdict(first), from_succ=s2, sensitive=False,
                                    is_blocker=lambda x: x in hashed or (x['k'] == 'ret' and const_value(x.get('e')) == 1),
                                    edge_ok=lambda b2, i2, s3: not any(p2 is True and mentions_field(a2, 'RecomputeOutputsDirtyCache::generator_')
                                                                       for k2, p2, a2 in first.edge_facts(b2, i2)))
                ctx.check('C01.X1', r is None and bool(hashed), first.name, 'X1:command-hash:comparison-skipped', 'src/graph.cc:%s' % first.term(bid)['line'],
                          'with a log entry, only a generator rule is declared clean without comparing the command hash',
                          witness=None if r is None else {'blocks': r[0]})
    ctx.check('C01.X1', nh >= 1, first.name, 'X1:command-hash:no-entry-test', first.loc, 'the first check branches on "a log entry exists"')
    for f in (first, second):
        check_cc(ctx, 'C01.X1', f, ('OUT', 'IN'), '<', effect_returns(1),
                 'output older than the most recent input => dirty', 'CC1:out-vs-in')
        check_cc(ctx, 'C01.X1', f, ('LOG', 'IN'), '<', effect_returns(1),
                 'logged mtime older than the most recent input => dirty', 'CC2:log-vs-in')
    ctx.floor('C01.X1', 12)

    # ---- CC: remaining comparison contract ------------------------------------------------------
    R('C01.CC', 'CC', 'timestamp comparisons that control a verdict have the documented relation: '
      'deps invalid iff output newer than the deps record; most-recent-input is a max-update')
    for name in ('ImplicitDepLoader::LoadDepsFromLog', 'ImplicitDepLoader::LoadDepsFromLogTry'):
        f = prog.fn(name)

        def invalid(f, bid, s, name=name):
            known = frozenset((k, p) for i2, s2 in enumerate(f.blocks[bid]['succ']) if s2 == s for k, p, a in f.edge_facts(bid, i2, all=True))
            r = f.find_path(None, lambda x: x['k'] == 'ret' and not (
                const_value(x.get('e')) == 0 or 'nullopt' in dstr(x.get('e')) or
                (strip(x.get('e')) or {}).get('k') == 'ctor' and not (strip(x.get('e')) or {}).get('args')),
                from_succ=s, is_blocker=lambda x: x['k'] == 'ret', init_facts=known,
                hit_ok=lambda x, facts: path_value(f, x.get('e'), facts) != 0)      # `return ok;` with ok known false on this path
            return r is None, 'the recorded deps are treated as unusable'
        check_cc(ctx, 'C01.CC', f, ('DEPS', 'OUT'), '<', invalid,
                 'deps record older than the output => deps invalid', 'CC3:deps-vs-out')
    for name in ('DependencyScan::RecomputeEdgesInputsDirty', 'Plan::CleanNode'):
        f = prog.fn(name)
        check_cc(ctx, 'C01.CC', f, ('IN', 'IN'), '<',
                 effect_assigns('most_recent_input', lambda r: True, also=mri_vars),
                 'most_recent_input is replaced only by a strictly newer input (max-update)',
                 'CC4:max-update')
        # and the comparison is (current < candidate): the left operand is the running maximum
        for bid, a, rl, rr in ts_comparisons(f):
            if (rl, rr) == ('IN', 'IN'):
                ctx.check('C01.CC', mentions_mri(f, a['l']) and
                          not mentions_mri(f, a['r']), f.name, 'CC4:max-update:direction',
                          'src/%s:%s' % (f.file, f.term(bid)['line']),
                          'the running maximum is on the smaller side: `%s`' % dstr(a))
    # every timestamp comparison in the scan / plan / builder is one that has a rule
    known = {('OUT', 'IN'), ('LOG', 'IN'), ('DEPS', 'OUT'), ('IN', 'IN'), ('REC', 'NOW'), ('OUT', 'NOW'),
             ('NOW', 'OUT'), ('NOW', 'REC')}
    listed = []
    for f in prog.functions.values():
        if f.file not in ('graph.cc', 'build.cc'):
            continue
        for bid, a, rl, rr in ts_comparisons(f):
            listed.append('%s: %s (%s,%s)' % (f.name, dstr(a), rl, rr))
            if f.name == 'Node::UpdatePhonyMtime' and (rl, rr) == ('NODE', 'TS') and a.get('op') == '<' and \
                    mentions_field(a['l'], 'Node::mtime_'):
                continue        # the max-update of a phony node's mtime (`mtime_ = max(mtime_, t)`): C03.G3 checks its direction
            ctx.check('C01.CC', (rl, rr) in known, f.name, 'CC:unlisted-comparison:%s-%s' % (rl, rr),
                      'src/%s:%s' % (f.file, f.term(bid)['line']),
                      'timestamp comparison `%s` (%s vs %s) in %s is covered by a contract' % (dstr(a), rl, rr, f.name))
    ctx.table('C01.CC.comparisons', listed)
    ctx.floor('C01.CC', 10)

    # ---- O1: inputs scanned completely ----------------------------------------------------------
    R('C01.O1', 'O', 'the scan visits every input of the range it is given, the initial range is '
      'the whole inputs_ vector, discovered deps returned by LoadDeps are scanned too and followed '
      'by the outputs re-check')
    rei = prog.fn('DependencyScan::RecomputeEdgesInputsDirty')
    isrange = lambda d: isinstance(d, dict) and d.get('k') == 'var' and d['n'].split('#')[0] == 'input_range'
    ls = loops_over(rei, isrange)
    ctx.check('C01.O1', len(ls) >= 2 and all(l['full'] for l in ls), rei.name, 'inputs-scan:loops', rei.loc,
              'full loops over the given input range (visit, then evaluate): %s' % [(l['style'], l['full']) for l in ls])
    is_visit = lambda x: x['k'] == 'call' and x.get('name') == 'DependencyScan::RecomputeNodeDirty'
    is_eval = lambda x: x['k'] == 'asg' and (stores_to('dirty')(x['l']) or mentions_var(x['l'], 'most_recent_input'))
    nvisit = neval = 0
    for l in ls:
        inside = loop_blocks(rei, l)
        evs = [x for b_ in inside for x in rei.blocks[b_]['ev']]
        if any(is_visit(x) for x in evs):
            nvisit += 1
            every_iteration_passes(ctx, 'C01.O1', rei, l, is_visit, 'every input is scanned recursively', 'inputs-scan:input-skipped')
        if any(is_eval(x) for x in evs):
            neval += 1
            # max-update / dirty propagation: an iteration may only skip it for an order-only input
            skip_conditions_exact(
                ctx, 'C01.O1', rei, l, is_eval,
                [(lambda a: mentions_field(a, 'Edge::order_only_deps_'), False),
                 (lambda a: mentions_var(a, 'most_recent_input') and ('Node::mtime_' in dstr(a)), False)],
                'an input takes part in the dirty / most-recent-input computation unless it is '
                'order-only or not newer than the current maximum', 'inputs-scan:extra-skip')
    ctx.check('C01.O1', nvisit >= 1 and neval >= 1, rei.name, 'inputs-scan:visit-or-evaluate-missing', rei.loc,
              'one loop visits every input, one evaluates every input (%d / %d)' % (nvisit, neval))
    scan = prog.fn('DependencyScan::RecomputeNodeDirty')
    calls = list(scan.calls('DependencyScan::RecomputeEdgesInputsDirty'))
    ctx.check('C01.O1', len(calls) == 2, scan.name, 'scan:inputs-scan-calls', scan.loc,
              'the scan evaluates the manifest inputs and, separately, the discovered deps')
    eir = [f for f in prog.fns('EdgeInputsRange::EdgeInputsRange') if len(f.params) == 1]
    if len(eir) != 1:
        raise AnalysisBroken('EdgeInputsRange(Edge*) constructor not found')
    inits = {dstr(e['l']).split('::')[-1]: dstr(e['r']) for e in eir[0].events('asg') if e.get('init')}
    ctx.check('C01.O1', 'Edge::inputs_.begin()' in inits.get('beg_', '') and
              'Edge::inputs_.end()' in inits.get('end_', '') and '+' not in inits.get('beg_', '') and
              '-' not in inits.get('end_', '').replace('->', ''), eir[0].name, 'EdgeInputsRange:not-whole',
              eir[0].loc, 'EdgeInputsRange(edge) spans inputs_.begin() .. inputs_.end() (%s)' % inits)
    for c in calls:
        rng = strip(c['args'][1])
        s = dstr(rng)
        if 'EdgeInputsRange{' in s:
            ctx.check('C01.O1', isinstance(rng, dict) and len((rng.get('args') or [])) == 1 or
                      s.count(',') == 0, scan.name, 'scan:initial-range-partial', scan.where(c),
                      'the first inputs scan covers the whole inputs_ vector (%s)' % s[:80])
        else:
            os_ = origins(scan, c['args'][1])
            ok = any(mentions_call(o, 'ImplicitDepLoader::LoadDeps') for o in os_)
            ctx.check('C01.O1', ok, scan.name, 'scan:discovered-range-not-from-LoadDeps', scan.where(c),
                      'the second inputs scan covers exactly what LoadDeps returned (%s)' % [dstr(o)[:50] for o in os_])
            # outputs re-check follows, guarded by nothing narrower than {!dirty, mri changed}
            dep = [x for x in scan.calls('RecomputeOutputsDirtyCache::depfile') if scan.ev_reaches(c, x)]
            ctx.check('C01.O1', len(dep) == 1, scan.name, 'scan:no-recheck-after-deps', scan.where(c),
                      'an outputs re-check follows the scan of discovered deps')
            for x in dep:
                facts = scan.facts_at(x)
                cfacts = scan.facts_at(c)
                extra = [k for k in facts if k not in cfacts and not (
                    k == 'dirty' or 'most_recent_input' in k or 'RecomputeEdgesInputsDirty' in k)]
                ctx.check('C01.O1', not extra, scan.name, 'scan:recheck-guard-narrowed', scan.where(x),
                          'the re-check is skipped only if already dirty or most_recent_input unchanged '
                          '(extra guards: %s)' % extra)
                ctx.check('C01.O1', any(mentions_var(a, 'most_recent_input') for a in x.get('args', [])),
                          scan.name, 'scan:recheck-wrong-input', scan.where(x),
                          'the re-check uses the updated most_recent_input')
    cn0 = prog.fn('Plan::CleanNode')
    isb = lambda d: isinstance(d, dict) and d.get('k') == 'var' and d['n'].split('#')[0] in ('begin', 'end')
    mri_stores = [x for x in cn0.events('asg') if mentions_mri(cn0, x['l'])]
    nmri = 0
    for l0 in loops_over(cn0, 'Edge::inputs_'):
        # the loop that computes most_recent_input (found by what it does, not by the name of its cursor)
        inside = loop_blocks(cn0, l0)
        if not any(x['_b'] in inside for x in mri_stores):
            continue
        nmri += 1
        if True:
            loop = l0
            skip_conditions_exact(
                ctx, 'C01.O1', cn0, loop,
                lambda x: x['k'] == 'asg' and mentions_mri(cn0, x['l']),
                [(lambda a: mentions_mri(cn0, a) and ('Node::mtime_' in dstr(a)), False)],
                'restat pruning: every non-order-only input takes part in the most-recent-input '
                'computation unless it is not newer than the current maximum', 'CleanNode:mri-extra-skip')
    ctx.check('C01.O1', nmri >= 1, cn0.name, 'CleanNode:mri-loop', cn0.loc, 'CleanNode recomputes most_recent_input in a loop over the regular inputs')
    all_ = prog.fn('RecomputeOutputsDirtyCache::all')
    dpf = prog.fn('RecomputeOutputsDirtyCache::depfile')
    full_range(ctx, 'C01.O1', all_, 'Edge::outputs_', 'every output is checked')
    full_range(ctx, 'C01.O1', dpf, 'Edge::outputs_', 'every output is re-checked')
    # ... and no verdict is returned before the loop has been entered (phony edges with several outputs,
    # edges with implicit outputs: each output is examined, not only the first)
    for fn_ in (all_, dpf):
        heads = {l['header'] for l in loops_over(fn_, 'Edge::outputs_')}
        r = fn_.find_path(None, lambda x: x['k'] == 'ret', from_succ=fn_.entry, is_blocker=lambda x: x.get('_b') in heads, sensitive=False)
        ctx.check('C01.O1', bool(heads) and r is None, fn_.name, 'outputs-check:verdict-before-loop', fn_.loc,
                  'every return of %s lies behind the loop over all outputs' % fn_.name,
                  witness=None if r is None else {'blocks': r[0]})
        for l in loops_over(fn_, 'Edge::outputs_'):
            every_iteration_passes(ctx, 'C01.O1', fn_, l, lambda x: x['k'] == 'call' and x.get('name') in (
                'RecomputeOutputsDirtyCache::Phony', 'RecomputeOutputsDirtyCache::RecomputeOutputDirty<true>',
                'RecomputeOutputsDirtyCache::RecomputeOutputDirty<false>'), 'each output is examined', 'outputs-check:output-skipped')
    ctx.floor('C01.O1', 16)

    # ---- T1: deps knowledge before a revocable verdict -------------------------------------------
    R('C01.T1', 'T', 'discovered deps may be left unloaded (LoadDepsTry) only when the outputs '
      'themselves demand a rebuild — a verdict Plan::CleanNode cannot revoke; never merely because '
      'an input is dirty')
    tries = list(scan.calls('ImplicitDepLoader::LoadDepsTry'))
    loads = list(scan.calls('ImplicitDepLoader::LoadDeps'))
    ctx.check('C01.T1', len(loads) == 1, scan.name, 'scan:LoadDeps-sites', scan.loc, 'one LoadDeps site in the scan')
    for t in tries:
        # the guard variable under which deps loading is skipped
        facts = scan.facts_at(t)
        lfacts = scan.facts_at(loads[0]) if loads else {}
        guard = [(k, p, a) for k, (p, a) in facts.items() if k in lfacts and lfacts[k][0] != p]
        if not guard and loads:
            # the two calls need not sit in the two arms of one `if`: a condition separates them when the try is reachable only
            # through an edge that establishes it and the load only through an edge that establishes the opposite
            cands = {}
            for b_, blk_ in scan.blocks.items():
                for i_, s_ in enumerate(blk_['succ']):
                    for k_, p_, a_ in scan.edge_facts(b_, i_):
                        if isinstance(strip(a_), dict) and strip(a_).get('k') == 'var':
                            cands[k_] = a_
            for k_, a_ in sorted(cands.items()):
                for p_ in (True, False):
                    def avoid(pol, k_=k_):
                        return lambda b2, i2, s2: not any(k3 == k_ and p3 == pol for k3, p3, a3 in scan.edge_facts(b2, i2))
                    if scan.find_path(None, lambda x: x is t, from_succ=scan.entry, edge_ok=avoid(p_)) is None and \
                            scan.find_path(None, lambda x: x is loads[0], from_succ=scan.entry, edge_ok=avoid(not p_)) is None:
                        guard.append((k_, p_, a_))
            # a weaker condition that every such path also happens to establish (`dirty`, implied by `outputs_dirty`) says
            # nothing once a sufficient one is among them: keep the variables whose definitions are the outputs check alone
            def only_outputs_check(a_):
                v_ = strip(a_)['n']
                ds_ = [e.get('init') for e in scan.events('decl') if e['n'] == v_ and e.get('init') is not None] + \
                      [e.get('r') for e in scan.events('asg') if isinstance(strip(e['l']), dict) and strip(e['l']).get('k') == 'var' and strip(e['l'])['n'] == v_]
                for e in scan.events('asg'):     # `dirty = outputs_dirty = all()` defines outputs_dirty inside another assignment
                    for x in walk(e.get('r')):
                        if isinstance(x, dict) and x.get('k') == 'asg' and isinstance(strip(x.get('l')), dict) and strip(x['l']).get('n') == v_:
                            ds_.append(x.get('r'))
                return bool(ds_) and all(dstr(d_) in ('false', '0') or 'RecomputeOutputsDirtyCache::all' in dstr(d_) for d_ in ds_)
            strong = [g for g in guard if only_outputs_check(g[2])]
            if strong:
                guard = strong
        if not guard:
            ctx.violation('C01.T1', scan.name, 'skip-LoadDeps:no-distinguishing-guard', scan.where(t),
                          'cannot find the condition that separates LoadDeps from LoadDepsTry')
            continue
        for k, p, a in guard:
            sa = strip(a)
            if not (isinstance(sa, dict) and sa.get('k') == 'var'):
                ctx.violation('C01.T1', scan.name, 'skip-LoadDeps:guard-not-a-variable:%s' % k, scan.where(t),
                              'deps loading is skipped under `%s`' % k)
                continue
            v = sa['n']
            defs = []
            for e in scan.events():
                if e['k'] == 'decl' and e['n'] == v:
                    defs.append(('decl', e.get('init')))
                elif e['k'] == 'asg' and is_var(v)(e['l']):
                    defs.append(('asg', e.get('r')))
                elif e['k'] == 'call':
                    from model import _written_names
                    if ('var', v) in _written_names(scan, e):
                        defs.append(('byref', {'k': 'call', 'name': e.get('name')}))
            ok = all((const_value(d) == 0) or (isinstance(strip(d), dict) and (
                strip(d).get('name') == 'RecomputeOutputsDirtyCache::all' or
                mentions_call(d, 'RecomputeOutputsDirtyCache::all')) and kind != 'byref')
                for kind, d in defs)
            ctx.check('C01.T1', ok and p is True, scan.name, 'skip-LoadDeps:guarded-by:%s' % v, scan.where(t),
                      'deps loading is skipped only under `%s`, whose only definitions are the '
                      'outputs-dirty result (%s)' % (v, [dstr(d)[:50] for kind, d in defs]))
    cn = prog.fn('Plan::CleanNode')
    # CleanNode must not clean through an edge whose deps failed to load
    nrd = list(cn.calls('DependencyScan::RecomputeOutputsDirty'))
    for e in nrd:
        guarded(ctx, 'C01.T1', cn, e, lambda a: mentions_field(a, 'Edge::deps_missing_'), False,
                'CleanNode never re-evaluates an edge whose deps are missing', construct='CleanNode:deps_missing-unchecked')
    # deps are loaded on the first visit only: what that visit found out (deps missing => rebuild) must survive a later
    # visit of the same edge (re-scan after a dyndep load).  (i) the flag is cleared only on a visit that recomputes it;
    # (ii) a later visit that still sees the flag ends with the edge dirty.
    def first_visit(a):
        return mentions_field(a, 'Edge::deps_loaded_') or is_var('edge_deps_loaded')(a)
    clears = [e for f_, e, kind, rhs in field_writes(prog, 'Edge::deps_missing_') if f_.name == scan.name and not e.get('init') and const_value(rhs) == 0]
    for e in clears:
        ok = fact_holds(scan.facts_at(e), first_visit, False) or fact_holds(scan.facts_at_block(e['_b']), first_visit, False)
        ctx.check('C01.T1', ok, scan.name, 'deps_missing_:cleared-on-revisit', scan.where(e),
                  'deps_missing_ is cleared only on the visit that loads the deps (the first one)')
    n_rev = sum(1 for bid, b in scan.blocks.items() for i, s2 in enumerate(b['succ']) if s2 is not None and
                any(p_ is True and first_visit(a) for k_, p_, a in scan.edge_facts(bid, i)))
    reads = []
    for bid, b in scan.blocks.items():
        later = fact_holds(scan.facts_at_block(bid), first_visit, True)
        for x in b['ev']:
            if x['k'] in ('asg', 'decl') and mentions_field(x.get('r') if x['k'] == 'asg' else x.get('init'), 'Edge::deps_missing_'):
                src_ = x.get('r') if x['k'] == 'asg' else x.get('init')
                # `v = later_visit && edge->deps_missing_`: the right operand is read only when the left one holds
                conj = any(isinstance(y, dict) and y.get('k') == 'bin' and y.get('op') == '&&' and mentions_field(y.get('r'), 'Edge::deps_missing_') and
                           first_visit(norm_cond(prog, y.get('l'))[0]) and norm_cond(prog, y.get('l'))[1] is True for y in walk(src_))
                reads.append((x, later or conj or fact_holds(scan.facts_at(x), first_visit, True)))
        t = b.get('term') or {}
        if mentions_field(t.get('cond'), 'Edge::deps_missing_'):
            reads.append(({'_b': bid, 'line': t.get('line')}, later))
    ctx.check('C01.T1', any(l for x, l in reads), scan.name, 'deps_missing_:ignored-on-revisit', scan.loc,
              'a later visit of an edge (deps already loaded) consults what the first visit found out about its deps: '
              'deps_missing_ is read under "not the first visit" (%d reads, %d there)' % (len(reads), sum(1 for x, l in reads if l)))
    ctx.check('C01.T1', n_rev >= 1 and bool(clears), scan.name, 'deps_missing_:no-first-visit-test', scan.loc,
              'the scan tells the first visit of an edge from later ones, and clears deps_missing_ somewhere')
    ctx.floor('C01.T1', 3)

    # ---- V1 / O2: start-time mtime ------------------------------------------------------------------
    R('C01.V1', 'V', 'the mtime recorded in the build log is the command start time (or 0 in a dry '
      'run); an output mtime is recorded only for restat/generator rules or when the start time is '
      'unknown; the start time is taken (lock file written, then stat) before the command starts')
    fc = prog.fn('Builder::FinishCommand')
    is_rec = is_rec_var(fc)
    rcs = [e for e in fc.calls('BuildLog::RecordCommand')]
    ctx.check('C01.V1', len(rcs) == 1, fc.name, 'RecordCommand:sites', fc.loc, 'one RecordCommand site')
    for e in rcs:
        os_ = origins(fc, e['args'][3])
        kinds = set()
        for o in os_:
            so = strip(o)
            if const_value(so) == 0:
                kinds.add('zero')
            elif mentions_field(so, 'Edge::command_start_time_'):
                kinds.add('START')
            elif isinstance(so, dict) and so.get('k') == 'call' and so.get('name') == 'DiskInterface::Stat':
                kinds.add('NOW')
            else:
                kinds.add('other:' + dstr(so)[:50])
        ctx.check('C01.V1', kinds <= {'zero', 'START', 'NOW'} and 'START' in kinds, fc.name,
                  'RecordCommand:mtime-origins', fc.where(e),
                  'recorded mtime originates from {0, command_start_time_, Stat(output)}: %s' % sorted(kinds))
    for e in fc.events('asg'):
        if is_rec(e['l']) and ts_role(fc, e.get('r')) == 'NOW':
            def edge_ok(b, i, s):
                ef = fc.edge_fact(b, i)
                if not ef:
                    return True
                k, p, a = ef
                if p is True and (is_var('restat')(a) or is_var('generator')(a) or
                                  ((any(mentions_var(a, v_) for v_ in rec_vars(fc)) or mentions_field(a, 'Edge::command_start_time_')) and '== 0' in k)):
                    return False
                return True
            r = fc.find_path(None, lambda x: x is e, from_succ=fc.entry, edge_ok=edge_ok, sensitive=False)
            ctx.check('C01.V1', r is None, fc.name, 'record_mtime:NOW-for-ordinary-rule', fc.where(e),
                      'an output\'s own mtime is recorded only under record_mtime == 0 || restat || generator',
                      witness=None if r is None else {'blocks': r[0]})
    # the start time is the floor of what is recorded: once it is 0 again (`record_mtime = 0`), an output older than an
    # input is logged with its own mtime and the next scan re-runs the command.  A zero store reaches RecordCommand
    # only in a dry run or through the store of command_start_time_
    nz = 0
    for e in fc.stores():
        if is_rec(e['l']) and e['op'] == '=' and const_value(e.get('r')) == 0:
            nz += 1
            r = fc.find_path(e, lambda x: x['k'] == 'call' and x.get('name') == 'BuildLog::RecordCommand',
                             is_blocker=lambda x: x['k'] == 'asg' and is_rec(x['l']) and x['op'] == '=' and
                             mentions_field(x.get('r'), 'Edge::command_start_time_'),
                             edge_ok=lambda b, i, s: not any(pol is True and mentions_field(a, 'BuildConfig::dry_run') for k, pol, a in fc.edge_facts(b, i)))
            ctx.check('C01.V1', r is None, fc.name, 'record_mtime:floor-reset', fc.where(e),
                      'record_mtime = 0 is recorded only in a dry run (otherwise the command start time is stored first)',
                      witness=None if r is None else {'blocks': r[0]})
    ctx.check('C01.V1', nz >= 1, fc.name, 'record_mtime:init', fc.loc, 'record_mtime starts at 0 (%d zero stores)' % nz)
    check_cc(ctx, 'C01.V1', fc, ('REC', 'NOW'), '<', effect_assigns('record_mtime', lambda r: True, also=rec_vars),
             'the recorded mtime is the newest output mtime (max-update)', 'CC5:record-max')
    se = prog.fn('Builder::StartEdge')
    w = [e for f, e, kind, rhs in field_writes(prog, 'Edge::command_start_time_') if not e.get('init')]
    ctx.check('C01.V1', len(w) == 1 and w[0]['_fn'].name == 'Builder::StartEdge', 'Builder::StartEdge',
              'command_start_time_:writers', se.loc, 'command_start_time_ is written only by StartEdge')
    for e in w:
        sc = list(se.calls('CommandRunner::StartCommand'))
        ctx.check('C01.V1', bool(sc) and all(se.dominates_ev(e, x) for x in sc), se.name,
                  'command_start_time_:after-spawn', se.where(e), 'the start time is stored before the command is started')
        os_ = origins(se, e.get('r'))
        kinds = set()
        for o in os_:
            so = strip(o)
            if const_value(so) in (0, -1):
                kinds.add(str(const_value(so)))
            elif isinstance(so, dict) and so.get('k') == 'call' and so.get('name') == 'DiskInterface::Stat' and \
                    mentions_field(so.get('args'), 'Builder::lock_file_path_'):
                kinds.add('Stat(lock)')
            elif isinstance(so, dict) and so.get('k') == 'cond':
                kinds.add('cond')
            else:
                kinds.add('other:' + dstr(so)[:40])
        ctx.check('C01.V1', 'Stat(lock)' in kinds and not any(k.startswith('other') for k in kinds), se.name,
                  'command_start_time_:origins', se.where(e),
                  'the start time is Stat(lock file) (or 0 / -1 placeholders): %s' % sorted(kinds))
    for e in se.calls('DiskInterface::Stat'):
        if mentions_field(e.get('args'), 'Builder::lock_file_path_'):
            dominated_by(ctx, 'C01.V1', se, e, lambda x: x['k'] == 'call' and x.get('name') == 'DiskInterface::WriteFile'
                         and mentions_field(x.get('args'), 'Builder::lock_file_path_'),
                         'the lock file is (re)written before it is stat\'ed', 'StartEdge:stat-before-touch')
    # every timestamp ninja compares is that of the file a path leads to: Stat follows symlinks
    st = prog.fn('RealDiskInterface::Stat')
    sc = [e for e in st.events('call') if e.get('name') in ('stat', 'stat64', 'lstat', 'lstat64', 'fstatat', 'fstatat64', '__xstat', '__lxstat')]
    ctx.check('C01.V1', bool(sc) and all(e['name'] in ('stat', 'stat64', '__xstat') for e in sc), st.name, 'Stat:not-following-symlinks', st.loc,
              'RealDiskInterface::Stat asks stat()/stat64() (the symlink target\'s mtime): %s' % sorted({e['name'] for e in sc}))
    for f2, e2 in list(calls_to(prog, 'lstat')) + list(calls_to(prog, 'lstat64')):
        ctx.violation('C01.V1', f2.name, 'lstat-user', f2.where(e2), 'lstat() is used in %s: mtimes of symlinks instead of their targets' % f2.name)
    # the contract of the value: 0 = "does not exist" only for ENOENT / ENOTDIR, -1 (with a message) for every other failure,
    # otherwise a positive time that keeps the sub-second part (a coarser clock hides an edit made within the same second
    # as the previous build)
    for e in st.events('ret'):
        v = const_value(e.get('e'))
        facts = st.facts_at(e)
        failed = fact_holds(facts, lambda a: isinstance(strip(a), dict) and strip(a).get('k') == 'bin' and strip(a)['op'] == '<' and
                            const_value(strip(a)['r']) == 0 and any(mentions_call(a, n) for n in ('stat', 'stat64', '__xstat')), True)
        okstat = fact_holds(facts, lambda a: isinstance(strip(a), dict) and strip(a).get('k') == 'bin' and strip(a)['op'] == '<' and
                            const_value(strip(a)['r']) == 0 and any(mentions_call(a, n) for n in ('stat', 'stat64', '__xstat')), False)
        if v == 0:
            ctx.check('C01.V1', failed, st.name, 'Stat:zero-without-failed-stat', st.where(e),
                      '"does not exist" (0) is answered only where stat() failed; facts: %s' % facts_str(facts)[:6])
            # ... and only for the two errno values that mean so: no path from the failed stat to this return avoids both tests
            def other_errno(b, i, s2):
                # (a named boolean `file_missing = errno == ENOENT || errno == ENOTDIR` tested as a whole counts as well)
                for key, pol, atom in st.edge_facts(b, i, all=True):
                    a0 = strip(atom)
                    if pol and isinstance(a0, dict) and a0.get('k') == 'bin' and a0.get('op') == '||':
                        parts, stk = [], [a0]
                        while stk:
                            y = strip(stk.pop())
                            if isinstance(y, dict) and y.get('k') == 'bin' and y.get('op') == '||':
                                stk += [y['l'], y['r']]
                            else:
                                parts.append(y)
                        if parts and all(isinstance(y, dict) and y.get('k') == 'bin' and y.get('op') == '==' and mentions_call(y['l'], '__errno_location') and
                                         const_value(y['r']) in (2, 20) for y in parts):
                            return False
                for key, pol, atom in st.edge_facts(b, i, all=True):
                    a = strip(atom)
                    if pol and isinstance(a, dict) and a.get('k') == 'bin' and a['op'] == '==' and mentions_call(a['l'], '__errno_location') \
                            and const_value(a['r']) in (2, 20):
                        return False
                return True
            r = st.find_path(None, lambda x: x is e, from_succ=st.entry, edge_ok=other_errno)
            ctx.check('C01.V1', r is None, st.name, 'Stat:zero-for-other-errors', st.where(e),
                      '0 is reached only through errno == ENOENT or errno == ENOTDIR (a permission or I/O error is not "missing")',
                      witness=None if r is None else {'blocks': r[0]})
        elif v == -1:
            ctx.check('C01.V1', failed, st.name, 'Stat:error-without-failed-stat', st.where(e), '-1 is answered only where stat() failed')
            r = st.find_path(None, lambda x: x is e, from_succ=st.entry,
                             is_blocker=lambda x: (x['k'] == 'call' and x.get('name', '').endswith('operator=') and 'err' in (x.get('src') or '')) or
                             (x['k'] in ('asg', 'deref') and 'err' in (x.get('src') or dstr(x.get('l') or x.get('e')) or '')))
            ctx.check('C01.V1', r is None, st.name, 'Stat:error-without-message', st.where(e), 'an error return sets *err')
        elif v is not None:
            ctx.check('C01.V1', okstat and v > 0, st.name, 'Stat:constant-time', st.where(e), 'a constant time (%s) is positive and behind a successful stat()' % v)
        else:
            txt = dstr(e.get('e'))
            ctx.check('C01.V1', okstat and 'tv_sec' in txt and 'tv_nsec' in txt and '1000000000' in txt, st.name, 'Stat:time-loses-precision', st.where(e),
                      'the time returned is seconds * 10^9 + nanoseconds of st_mtim: %s' % txt[:120])
    ctx.floor('C01.V1', 12)

    # ---- O3: the plan covers what the scan found -------------------------------------------------
    R('C01.O3', 'O', 'Plan::AddSubTarget recurses into every input, wants an edge iff its node is '
      'dirty; Builder::AddTarget adds every validation node; NodeFinished visits every out-edge')
    ast = prog.fn('Plan::AddSubTarget')
    full_range(ctx, 'C01.O3', ast, 'Edge::inputs_', 'the plan covers all inputs')
    for l in loops_over(ast, 'Edge::inputs_'):
        every_iteration_passes(ctx, 'C01.O3', ast, l, lambda x: x['k'] == 'call' and x.get('name') == 'Plan::AddSubTarget',
                               'every input is added to the plan', 'AddSubTarget:input-skipped')
    for e in ast.events('asg'):
        if is_enum('Plan::kWantToStart')(e.get('r')):
            guarded(ctx, 'C01.O3', ast, e, lambda a: mentions_field(a, 'Node::dirty_'), True,
                    'an edge is wanted only if its node is dirty', construct='AddSubTarget:want-clean')
    # ... and a dirty node's edge IS wanted: from the `dirty && want == kWantNothing` true edge
    reject_if(ctx, 'C01.O3', ast, lambda a: mentions_field(a, 'Node::dirty_') and
              not mentions_field(a, 'Node::generated_by_dep_loader_') and not mentions_field(a, 'Node::in_edge_'),
              True, 'a dirty node with kWantNothing becomes wanted', 'AddSubTarget:dirty-not-wanted',
              success=lambda x: x['k'] == 'ret' and False, min_edges=1) if False else None
    for f in prog.fns('Builder::AddTarget'):
        if len(f.params) == 2 and 'Node' in f.params[0]['ty']:
            isv = lambda d: isinstance(d, dict) and d.get('k') == 'var' and d['n'].split('#')[0] == 'validation_nodes'
            ls = loops_over(f, isv)
            ctx.check('C01.O3', len(ls) == 1 and ls[0]['full'], f.name, 'AddTarget:validation-loop', f.loc,
                      'Builder::AddTarget iterates all validation nodes returned by the scan')
            for l in ls:
                skip_conditions_exact(
                    ctx, 'C01.O3', f, l, lambda x: x['k'] == 'call' and x.get('name') == 'Plan::AddTarget',
                    [(lambda a: mentions_field(a, 'Node::in_edge_') or is_var('validation_in_edge')(a), False),
                     (lambda a: mentions_field(a, 'Edge::outputs_ready_'), True)],
                    'a validation node is left out only if it has no producer or is up to date',
                    'AddTarget:validation-skipped')
            for e in f.calls('Plan::AddTarget'):
                pass
    nf = prog.fn('Plan::NodeFinished')
    iso = lambda d: isinstance(d, dict) and d.get('k') == 'call' and d.get('name') == 'Node::out_edges'
    ls = loops_over(nf, iso)
    ctx.check('C01.O3', len(ls) == 1 and ls[0]['full'], nf.name, 'NodeFinished:out-edges-loop', nf.loc,
              'NodeFinished visits every out-edge of the finished node')
    for l in ls:
        skip_conditions_exact(
            ctx, 'C01.O3', nf, l, lambda x: x['k'] == 'call' and x.get('name') == 'Plan::EdgeMaybeReady',
            absent_from('Plan::want_'),
            'an out-edge is skipped only if it is not in the plan', 'NodeFinished:extra-skip')
    ctx.floor('C01.O3', 6)

    # ---- O4: manifest reload ---------------------------------------------------------------------
    R('C01.O4', 'O', 'after the manifest was rebuilt, the build does not go on with the stale '
      'graph: no path from RebuildManifest() == true to RunBuild in the same loop iteration')
    rm = prog.fn('real_main')
    n = 0
    for bid, b in rm.blocks.items():
        for i, s in enumerate(b['succ']):
            ef = rm.edge_fact(bid, i)
            if ef and ef[1] is True and mentions_call(ef[2], 'NinjaMain::RebuildManifest') and s is not None:
                n += 1
                r = rm.find_path(None, lambda x: x['k'] == 'call' and x.get('name') == 'NinjaMain::RunBuild',
                                 from_succ=s, is_blocker=lambda x: x['k'] == 'asg' and x['op'] in ('++', '+=') and
                                 mentions_var(x['l'], 'cycle'))
                ctx.check('C01.O4', r is None, rm.name, 'rebuilt-manifest:builds-stale-graph', 'src/ninja.cc:%s' % rm.term(bid)['line'],
                          'a rebuilt manifest is re-read before anything is built', witness=None if r is None else {'blocks': r[0]})
    if n == 0:
        ctx.violation('C01.O4', rm.name, 'rebuilt-manifest:test-absent', rm.loc, 'real_main no longer tests RebuildManifest()')
    rbm = prog.fn('NinjaMain::RebuildManifest')
    ctx.check('C01.O4', any(True for _ in rbm.calls('Builder::Build')) and any(True for _ in rbm.calls('Builder::AddTarget')),
              rbm.name, 'RebuildManifest:no-build', rbm.loc, 'RebuildManifest scans and builds the manifest as a target')
    ctx.floor('C01.O4', 2)

    # ---- CN: discovered paths are canonicalised before they become nodes ---------------------
    R('C01.CN', 'CN', 'paths discovered by deps extraction are canonicalised before State::GetNode '
      '(otherwise the discovered node is not the manifest node and edits are missed)')
    for name in ('Builder::ExtractDeps', 'ImplicitDepLoader::ProcessDepfileDeps'):
        canon_before_intern(ctx, 'C01.CN', prog.fn(name), exempt={
            ('Builder::ExtractDeps', 'State::GetNode', 'elem-of:CLParser::includes_'):
                'deps=msvc: CLParser::Parse normalises include paths itself (IncludesNormalize / as written)'})
    ctx.floor('C01.CN', 2)

    # ---- E1 ---------------------------------------------------------------------------------------------
    R('C01.E1', 'E1', 'a scan / plan error never turns into "clean" or "success"')
    fns = [f for f in prog.functions.values() if f.file in ('graph.cc',)] + \
        [prog.fn('Plan::AddSubTarget'), prog.fn('Plan::CleanNode'), prog.fn('Plan::NodeFinished'),
         prog.fn('Plan::EdgeMaybeReady')]
    error_discipline(ctx, 'C01.E1', fns)
    ctx.floor('C01.E1', 20)
