import re
"""C10 — discovered dependencies count exactly like declared implicit inputs (DESIGN 5.10)."""
from facts import AnalysisBroken
from model import (ret_value_class, dstr, strip, fact_holds, mentions_field, mentions_call, mentions_var,
                   const_value, walk)
from rules import (guarded, calls_to, field_writes, who_may_write, who_may_call, full_range,
                   loops_over, every_iteration_passes, basename, origins, is_var, is_enum,
                   lastname, canon_before_intern, skip_conditions_exact, dominated_by, justified, deep_resolve)

SPLICE_EXEMPT = {
    'State::AddIn': 'manifest parser appends inputs one by one; the kind counters are assigned by '
                    'ManifestParser::ParseEdge after all AddIn calls (checked by C12.P1)',
    'ManifestParser::ParseEdge': 'phony self-reference filter; counter kept in sync there (C12.P1)',
    'DyndepLoader::UpdateEdge': 'dyndep splice, checked by C11.P',
}


def run(ctx):
    prog = ctx.prog
    R = ctx.rule

    # ---- P1: partition -----------------------------------------------------------------------------
    R('C10.P1', 'P', 'every size-changing write to Edge::inputs_ made by a dependency loader inserts '
      'at inputs_.end() - order_only_deps_ (the implicit range) and is accompanied, in the same '
      'function, by implicit_deps_ += <the inserted count>')
    n = 0
    for f, e, kind, rhs in field_writes(prog, 'Edge::inputs_'):
        if kind not in ('insert', 'push_back', 'emplace_back', 'erase', 'resize', 'pop_back', 'clear', 'emplace'):
            continue
        if f.name in SPLICE_EXEMPT:
            ctx.inst('C10.P1', f.where(e), 'inputs_.%s in %s — %s' % (kind, f.name, SPLICE_EXEMPT[f.name]))
            continue
        if f.file not in ('graph.cc', 'dyndep.cc', 'state.cc', 'manifest_parser.cc', 'build.cc', 'deps_log.cc'):
            ctx.inst('C10.P1', f.where(e), 'inputs_.%s in tool code %s' % (kind, f.name))
            continue
        n += 1
        if kind != 'insert':
            ctx.violation('C10.P1', f.name, 'inputs_:%s' % kind, f.where(e),
                          '%s changes the size of inputs_ with %s' % (f.name, kind))
            continue
        pos = dstr(_res(f, e['args'][0]))
        ctx.check('C10.P1', 'Edge::inputs_.end()' in pos and 'Edge::order_only_deps_' in pos and 'operator-' in pos,
                  f.name, 'splice-position', f.where(e),
                  'insertion position in %s is inputs_.end() - order_only_deps_ (%s)' % (f.name, pos[:90]))
        cnt = [x for ff, x, k2, r2 in field_writes(prog, 'Edge::implicit_deps_', [f]) if x['op'] == '+=']
        ctx.check('C10.P1', len(cnt) == 1, f.name, 'splice-without-counter', f.where(e),
                  'the insertion is accompanied by exactly one implicit_deps_ += ...')
        if len(cnt) == 1:
            inc = dstr(_res(f, cnt[0].get('r')))
            count_args = [dstr(_res(f, a)) for a in e['args'][1:]]
            ok = any(inc in c or c in inc for c in count_args) or \
                any(v in ' '.join(count_args) for v in [x['n'] for x in walk(cnt[0].get('r')) if x.get('k') == 'var'])
            ctx.check('C10.P1', ok, f.name, 'splice-counter-mismatch', f.where(cnt[0]),
                      'the counter grows by what is inserted: += %s vs insert(%s)' % (inc[:50], [c[:50] for c in count_args]))
        # no order_only_deps_ change in a dep loader
        oo = [x for ff, x, k2, r2 in field_writes(prog, 'Edge::order_only_deps_', [f])]
        ctx.check('C10.P1', not oo, f.name, 'splice-touches-order-only-count', f.loc,
                  'a dependency loader never changes order_only_deps_')
    # the range a loader reports back (it is what the scan looks at next: stat, dirty state, ordering) starts where the
    # discovered nodes were put: its begin is what inputs_.insert() / PreallocateSpace() returned, or is computed from
    # order_only_deps_ - never from end() alone
    nr = 0
    for f in prog.functions.values():
        if f.cls != 'ImplicitDepLoader' and not f.name.startswith('ImplicitDepLoader::'):
            continue
        for e in f.events():
            cands = []
            if e['k'] == 'ret':
                cands = [x for x in walk(e.get('e')) if x.get('k') in ('ctor', 'call') and 'EdgeInputsRange' in (x.get('name') or x.get('ty') or dstr(x)) and len(x.get('args') or []) == 3]
            for c in cands:
                nr += 1
                b = dstr(deep_resolve(f, c['args'][1])) + ' <- ' + ' | '.join(dstr(o) for v_ in walk(c['args'][1]) if v_.get('k') == 'var' for o in origins(f, v_))
                ok = ('Edge::inputs_' in b and '.insert(' in b.replace('::insert', '.insert')) or 'insert' in b or 'PreallocateSpace' in b or 'Edge::order_only_deps_' in b
                ctx.check('C10.P1', ok, f.name, 'reported-range:not-where-inserted', f.where(e),
                          'the range %s reports for the follow-up scan begins at the insertion point (`%s`)' % (f.name, b[:90]))
    # (the helper may have been merged into its only caller: then the generic insert-site obligations above cover that caller)
    pa_l = prog.by_name.get('ImplicitDepLoader::PreallocateSpace') or []
    pa = pa_l[0] if pa_l else None
    for e in (pa.events('ret') if pa else []):
        d = dstr(e.get('e')) + ' <- ' + dstr(deep_resolve(pa, e.get('e')))
        ctx.check('C10.P1', 'Edge::order_only_deps_' in d and 'count' in d, pa.name, 'PreallocateSpace:returned-position', pa.where(e),
                  'PreallocateSpace returns the first of the slots it made, in front of the order-only inputs: `%s`' % d[:90])
    ctx.check('C10.P1', nr >= 2, 'ImplicitDepLoader', 'reported-range:sites', 'src/graph.cc', '%d reported ranges examined' % nr)
    ctx.floor('C10.P1', 5)
    ctx.table('C10.P1.exempt', SPLICE_EXEMPT)

    # ---- P3: everything that was recorded is spliced -----------------------------------------
    R('C10.P3', 'P', 'every recorded dependency becomes an input: the deps-log loader inserts the '
      'whole Deps::nodes array, the depfile loader stores a node for every parsed entry, and nobody '
      'edits the parsed list in between')
    ll = prog.fn('ImplicitDepLoader::LoadDepsFromLog')
    ins = [e for f, e, kind, rhs in field_writes(prog, 'Edge::inputs_', [ll]) if kind == 'insert']
    ctx.check('C10.P3', len(ins) == 1, ll.name, 'LoadDepsFromLog:insert-sites', ll.loc, 'one insertion')
    for e in ins:
        a1 = [dstr(o) for o in origins(ll, e['args'][1])]
        a2 = dstr(_res(ll, e['args'][2]))
        ok = a1 and all('DepsLog::Deps::nodes' in s for s in a1) and 'DepsLog::Deps::node_count' in a2 and \
            'DepsLog::Deps::nodes' in a2
        ctx.check('C10.P3', bool(ok), ll.name, 'LoadDepsFromLog:filtered-source', ll.where(e),
                  'what is inserted is [deps->nodes, deps->nodes + deps->node_count): %s .. %s' % (a1, a2[:80]))
    # AddOutEdge for each of them
    aoe = list(ll.calls('Node::AddOutEdge'))
    ctx.check('C10.P3', len(aoe) == 1, ll.name, 'LoadDepsFromLog:AddOutEdge', ll.loc, 'AddOutEdge present')
    for bid, b in ll.blocks.items():
        t = b.get('term')
        if t and t['kind'] == 'for' and len(b['succ']) == 2:
            c = dstr(_res(ll, strip(ll.eff_cond(bid)).get('r') if strip(ll.eff_cond(bid)).get('k') == 'bin' else None))
            ctx.check('C10.P3', 'DepsLog::Deps::node_count' in c, ll.name, 'LoadDepsFromLog:out-edge-loop-bound',
                      'src/graph.cc:%s' % t['line'], 'the AddOutEdge loop runs over all node_count entries (%s)' % c)
            loop = {'header': bid, 'body': b['succ'][0], 'line': t['line'], 'bound': c}
            every_iteration_passes(ctx, 'C10.P3', ll, loop, lambda x: x['k'] == 'call' and x.get('name') == 'Node::AddOutEdge',
                                   'AddOutEdge for every recorded dependency', 'LoadDepsFromLog:out-edge-skipped')
    pd = prog.fn('ImplicitDepLoader::ProcessDepfileDeps')
    isp = lambda d: isinstance(d, dict) and d.get('k') == 'var' and d['n'].split('#')[0] == 'depfile_ins'
    ls = loops_over(pd, lambda d: isp(d) or (isinstance(d, dict) and d.get('k') == 'un' and isp(strip(d.get('e')))))
    ctx.check('C10.P3', len(ls) == 1 and ls[0]['full'], pd.name, 'ProcessDepfileDeps:loop', pd.loc,
              'one full loop over the parsed dependency list: %s' % [(l['style'], l['full'], l['bound']) for l in ls])
    # the values that hold the looked-up node: variables assigned from State::GetNode
    nodevars = set()
    for e in pd.events():
        if e['k'] in ('asg', 'decl') and 'State::GetNode' in dstr(e.get('r') if e['k'] == 'asg' else e.get('init')):
            tgt = strip(e['l']) if e['k'] == 'asg' else {'k': 'var', 'n': e.get('n', '')}
            if isinstance(tgt, dict) and tgt.get('k') == 'var':
                nodevars.add(tgt['n'].split('#')[0])
    hasnode = lambda d: 'State::GetNode' in dstr(d) or any(mentions_var(d, v) for v in nodevars)
    filled = set()      # local containers that receive the node in the loop

    def stores_node(x):
        # `*slot = node`, `slots[k] = node` (a store through something that is not a plain local), or the
        # node appended to a local container that is spliced in afterwards
        if x['k'] == 'asg' and x['op'] == '=' and isinstance(strip(x['l']), dict) and \
                strip(x['l']).get('k') != 'var' and hasnode(x['r']):
            return True
        if x['k'] == 'call' and lastname(x.get('name')) in ('push_back', 'emplace_back') and \
                any(hasnode(a) for a in x['args']):
            o = strip(x.get('recv'))
            if isinstance(o, dict) and o.get('k') == 'var':
                filled.add(o['n'].split('#')[0])
            return True
        return False
    for l in ls:
        every_iteration_passes(ctx, 'C10.P3', pd, l, stores_node, 'a node is stored for every parsed dependency',
                               'ProcessDepfileDeps:dep-skipped')
        every_iteration_passes(ctx, 'C10.P3', pd, l, lambda x: x['k'] == 'call' and x.get('name') == 'Node::AddOutEdge',
                               'AddOutEdge for every parsed dependency', 'ProcessDepfileDeps:out-edge-skipped')
    npre = 0
    for e in pd.calls('ImplicitDepLoader::PreallocateSpace'):
        npre += 1
        ctx.check('C10.P3', 'depfile_ins' in dstr(e['args'][1]) and 'size()' in dstr(e['args'][1]), pd.name,
                  'ProcessDepfileDeps:prealloc-count', pd.where(e), 'space is reserved for all parsed entries')
    if not npre:
        # reserved in place: the count of the insertion into inputs_ is the size of the parsed list
        for f2, e, kind, rhs in field_writes(prog, 'Edge::inputs_', [pd]):
            if kind == 'insert':
                npre += 1
                cnt_ = ' '.join(dstr(deep_resolve(pd, a)) for a in e['args'][1:])
                whole = [v for v in filled if re.search(r'\b%s\b[^,]*begin\(\)' % re.escape(v), cnt_) and
                         re.search(r'\b%s\b[^,]*end\(\)' % re.escape(v), cnt_)]
                ctx.check('C10.P3', ('depfile_ins' in cnt_ and 'size()' in cnt_) or bool(whole), pd.name, 'ProcessDepfileDeps:prealloc-count', pd.where(e),
                          'space is reserved for all parsed entries (%s)' % cnt_[:80])
    ctx.check('C10.P3', npre >= 1, pd.name, 'ProcessDepfileDeps:no-reservation', pd.loc, 'ProcessDepfileDeps reserves the slots it fills')
    # who may touch the parsed lists
    for fld in ('DepfileParser::ins_', 'DepfileParser::outs_'):
        for f, e, kind, rhs in field_writes(prog, fld):
            if f.name in ('DepfileParser::Parse', 'DepfileParser::DepfileParser'):
                ctx.inst('C10.P3', f.where(e), '%s filled by the parser (%s)' % (fld, kind))
            elif kind == 'byref' and e.get('name') == 'ImplicitDepLoader::ProcessDepfileDeps':
                ctx.inst('C10.P3', f.where(e), '%s handed to ProcessDepfileDeps (canonicalised in place, '
                         'checked above to keep every entry)' % fld)
            else:
                ctx.violation('C10.P3', f.name, 'parsed-list-edited:%s:%s' % (fld, kind), f.where(e),
                              'the parsed depfile list %s is modified (%s) in %s: %s' % (fld, kind, f.name, e.get('src')))
    ldf = prog.fn('ImplicitDepLoader::LoadDepFile')
    for e in ldf.calls('ImplicitDepLoader::ProcessDepfileDeps'):
        ctx.check('C10.P3', 'DepfileParser::ins_' in dstr(e['args'][1]), ldf.name, 'LoadDepFile:list-passed',
                  ldf.where(e), 'LoadDepFile hands the parser\'s ins_ list to ProcessDepfileDeps')
    for f, e in calls_to(prog, 'DepsLog::RecordDeps'):
        if f.cls == 'DepsLog':
            continue
        ctx.check('C10.P3', mentions_var(e['args'][2], 'deps_nodes'), f.name, 'RecordDeps:list', f.where(e),
                  'what is recorded is the extracted list')
    ed = prog.fn('Builder::ExtractDeps')
    for fld, cont in (('DepfileParser::ins_', 'deps'), ('CLParser::includes_', 'parser')):
        ls = loops_over(ed, fld)
        ctx.check('C10.P3', len(ls) == 1 and ls[0]['full'], ed.name, 'ExtractDeps:loop:%s' % fld, ed.loc,
                  'ExtractDeps turns every entry of %s into a node' % fld)
        for l in ls:
            every_iteration_passes(ctx, 'C10.P3', ed, l, lambda x: x['k'] == 'call' and lastname(x.get('name')) == 'push_back'
                                   and mentions_var(x.get('recv'), 'deps_nodes'),
                                   'each extracted path is recorded', 'ExtractDeps:dep-skipped:%s' % fld)
    ctx.floor('C10.P3', 14)

    # ---- T1: deps known before ordering decisions (strong form) -----------------------------
    R('C10.T1', 'T', 'strong form: an edge that is scanned for the first time gets its discovered '
      'dependencies as inputs (LoadDeps) or is marked deps_missing_ — otherwise a generated '
      'discovered dependency is not ordered before it')
    scan = prog.fn('DependencyScan::RecomputeNodeDirty')
    n = 0
    for bid, b in scan.blocks.items():
        for i, s in enumerate(b['succ']):
            ef = scan.edge_fact(bid, i)
            if ef and ef[1] is False and is_var('edge_deps_loaded')(ef[2]) and s is not None:
                n += 1
                r = scan.find_path(None, lambda x: x['k'] == 'ret' and const_value(x.get('e')) == 1, from_succ=s, init_facts=[(ef[0], ef[1])],
                                   is_blocker=lambda x: (x['k'] == 'call' and x.get('name') == 'ImplicitDepLoader::LoadDeps') or
                                   (x['k'] == 'asg' and mentions_field(x['l'], 'Edge::deps_missing_') and const_value(x.get('r')) == 1) or
                                   (x['k'] == 'ret' and const_value(x.get('e')) != 1))
                via = 'ImplicitDepLoader::LoadDepsTry' if r and any(
                    x['k'] == 'call' and x.get('name') == 'ImplicitDepLoader::LoadDepsTry'
                    for bb in r[0] for x in scan.blocks[bb]['ev']) else 'other'
                ctx.check('C10.T1', r is None, scan.name, 'first-scan-without-discovered-inputs:via-%s' % via,
                          'src/graph.cc:%s' % scan.term(bid)['line'],
                          'a first scan ends successfully only with discovered deps spliced in or deps_missing_ set',
                          witness=None if r is None else {'blocks': r[0]})
    if n == 0:
        ctx.violation('C10.T1', scan.name, 'first-scan:test-absent', scan.loc, 'no test of edge_deps_loaded in the scan')
    w = [e for f, e, kind, rhs in field_writes(prog, 'Edge::deps_loaded_') if not e.get('init') and const_value(rhs) == 1]
    ctx.check('C10.T1', len(w) == 1 and w[0]['_fn'].name == scan.name, scan.name, 'deps_loaded_:writers', scan.loc,
              'deps_loaded_ = true is written only by the scan')
    ctx.floor('C10.T1', 2)

    # ---- W1: a missing discovered dep means rebuild, not error ----------------------------------
    R('C10.W1', 'W', 'only State::AddIn/AddOut/AddValidation mark a node as coming from the '
      'manifest; dependency loaders obtain nodes through State::GetNode only')
    who_may_call(ctx, 'C10.W1', 'Node::set_generated_by_dep_loader',
                 {'State::AddIn': 'manifest input', 'State::AddOut': 'manifest output',
                  'State::AddValidation': 'manifest validation'}, 'manifest provenance flag')
    for name in ('ImplicitDepLoader::ProcessDepfileDeps', 'Builder::ExtractDeps', 'DepsLog::Load',
                 'DyndepParser::ParseEdge'):
        f = prog.fn(name)
        bad = [e for e in f.calls() if e.get('name') in ('State::AddIn', 'State::AddOut', 'State::AddValidation')]
        good = [e for e in f.calls('State::GetNode')]
        ctx.check('C10.W1', not bad and bool(good), name, 'loader-uses-AddIn', f.loc,
                  '%s creates nodes through State::GetNode only' % name)
    gn = prog.fn('State::GetNode')
    ctx.check('C10.W1', not any(True for _ in gn.calls('Node::set_generated_by_dep_loader')), gn.name,
              'GetNode:marks-manifest', gn.loc, 'State::GetNode leaves the provenance flag alone')
    fld = prog.field('Node::generated_by_dep_loader_')
    ast = prog.fn('Plan::AddSubTarget')
    errs = [e for e in ast.events('call') if 'missing and no known rule' in dstr(e.get('args'))]
    for e in errs:
        guarded(ctx, 'C10.W1', ast, e, lambda a: mentions_field(a, 'Node::generated_by_dep_loader_'), False,
                'the missing-file error is raised only for manifest nodes', construct='missing-error:for-discovered-dep')
    ctx.floor('C10.W1', 8)

    # ---- O1: deps recorded for every output; failed extraction fails the command ---------
    R('C10.O1', 'O', 'after a successful command deps are recorded for every output; a failed '
      'extraction turns the command into a failure (nothing recorded)')
    fc = prog.fn('Builder::FinishCommand')
    rds = list(fc.calls('DepsLog::RecordDeps'))
    for e in rds:
        for l in loops_over(fc, 'Edge::outputs_'):
            if e['_b'] in fc.reachable_from(l['body']) | {l['body']} and l['header'] in fc.reachable_from(e['_b']):
                ctx.check('C10.O1', l['full'], fc.name, 'RecordDeps:not-all-outputs', fc.where(e),
                          'deps are recorded in a full loop over outputs_')
                every_iteration_passes(ctx, 'C10.O1', fc, l, lambda x: x is e, 'deps recorded for each output',
                                       'RecordDeps:output-skipped')
    n = 0
    for bid, b in fc.blocks.items():
        for i, s in enumerate(b['succ']):
            ef = fc.edge_fact(bid, i)
            if ef and ef[1] is False and mentions_call(ef[2], 'Builder::ExtractDeps') and s is not None:
                n += 1
                # on the success() side the status becomes ExitFailure before anything is recorded
                r = fc.find_path(None, lambda x: x['k'] == 'call' and x.get('name') in ('DepsLog::RecordDeps', 'BuildLog::RecordCommand'),
                                 from_succ=s, init_facts=[(ef[0], ef[1])])
                ctx.check('C10.O1', r is None, fc.name, 'failed-extraction:records', 'src/build.cc:%s' % fc.term(bid)['line'],
                          'after a failed deps extraction nothing is recorded in either log',
                          witness=None if r is None else {'blocks': r[0]})
    ctx.check('C10.O1', n >= 1 and len(rds) == 1, fc.name, 'extraction:sites', fc.loc, 'extraction result is tested')
    # ... whatever else happened to the outputs (restat pruning included): with a deps type, outside a
    # dry run, no success return of FinishCommand avoids RecordDeps
    # (reaching the head of the per-output loop counts: every statement has an output)
    rd_heads = {l['header'] for e in rds for l in loops_over(fc, 'Edge::outputs_')
                if e['_b'] in fc.reachable_from(l['body']) | {l['body']} and l['header'] in fc.reachable_from(e['_b'])}
    def skip_ok(b, i, s2):
        for k, pol, atom in fc.edge_facts(b, i):
            kk = k.replace(' ', '')
            if pol is True and ('deps_type.empty()' in kk or 'BuildConfig::dry_run' in kk or 'std::basic_string<char>::empty' in kk and 'deps_type' in kk):
                return False
        return True
    r = fc.find_path(None, lambda x: x['k'] == 'ret' and ret_value_class(prog, fc, x) == 'success', from_succ=fc.entry,
                     is_blocker=lambda x: x in rds or x.get('_b') in rd_heads, edge_ok=skip_ok)
    ctx.check('C10.O1', r is None, fc.name, 'RecordDeps:skipped-on-success', fc.loc,
              'a successful command with deps (not a dry run) always has its deps recorded before FinishCommand succeeds',
              witness=None if r is None else {'blocks': r[0]})
    # deps = msvc: a line is only classified as the echoed input file name (and dropped) once it is
    # known not to be a /showIncludes note; every note reaches includes_ or IsSystemInclude
    clp0 = prog.fn('CLParser::Parse')
    fsi = [e for e in clp0.calls('CLParser::FilterShowIncludes')]
    fif = [e for e in clp0.calls('CLParser::FilterInputFilename')]
    ctx.check('C10.O1', len(fsi) == 1 and len(fif) == 1, clp0.name, 'CLParser:filters', clp0.loc, 'both line filters are applied')
    for e in fif:
        ok = bool(fsi) and clp0.dominates_ev(fsi[0], e) and fact_holds(
            clp0.facts_at(e), lambda a: 'empty' in dstr(a) and any(mentions_call(o, 'CLParser::FilterShowIncludes')
                                                                     for v in [x for x in walk(a) if x.get('k') == 'var']
                                                                     for o in origins(clp0, v)), True)
        ctx.check('C10.O1', ok, clp0.name, 'CLParser:include-note-dropped-as-filename', clp0.where(e),
                  'FilterInputFilename is consulted only for lines FilterShowIncludes did not recognise')
    # ... and the only notes that are not recorded are the ones the documented heuristic names: IsSystemInclude answers
    # true only where the (lower-cased) path contains one of the two Visual Studio installation markers.  The table is
    # frozen: another marker is another set of dependencies silently dropped from the deps log
    SYSTEM_MARKERS = {'program files', 'microsoft visual studio'}
    isi = prog.fn('CLParser::IsSystemInclude')
    seen_markers = set()

    def marker_found(g, a, pol):
        a = strip(a)
        if not (pol is False and isinstance(a, dict) and a.get('k') == 'bin' and a.get('op') == '==' and 'npos' in dstr(a['r'])):
            return False
        l = strip(a['l'])
        if not (isinstance(l, dict) and l.get('k') == 'call' and lastname(l.get('name')) == 'find' and l.get('args')):
            return False
        lit = strip(deep_resolve(g, l['args'][0]))
        if isinstance(lit, dict) and lit.get('k') == 'str' and lit.get('v') in SYSTEM_MARKERS:
            seen_markers.add(lit['v'])
            return True
        return False
    self_call = {'k': 'call', 'fn': isi.id, 'name': isi.name, 'tk': 'bool',
                 'args': [{'k': 'var', 'n': p_['n'], 'vk': 'param', 'ty': p_.get('ty')} for p_ in isi.params]}
    ctx.check('C10.O1', justified(prog, isi, self_call, True, marker_found), isi.name, 'IsSystemInclude:wider-than-documented', isi.loc,
              'a /showIncludes note is dropped as a system header only if its path contains one of %s' % sorted(SYSTEM_MARKERS))
    dp = prog.fn('DepfileParser::Parse')
    pushes = [e for e in dp.events('call') if lastname(e.get('name') or '').split('<')[0] in ('push_back', 'emplace_back') and
              mentions_field(e.get('recv'), 'DepfileParser::ins_')]
    ctx.check('C10.O1', len(pushes) >= 1, dp.name, 'depfile:ins-push-absent', dp.loc, 'the depfile parser collects prerequisites in ins_')
    for e in pushes:
        guarded(ctx, 'C10.O1', dp, e, lambda a: mentions_field(a, 'DepfileParser::outs_'), None,
                'every prerequisite named by the depfile becomes an input - also one that the same depfile names as a target elsewhere',
                construct='depfile:input-dropped-by-target-list', forbidden=True)
    from props.scan_common import check_readfile_status
    check_readfile_status(ctx, 'C10.O1', prog, ['Builder::ExtractDeps', 'ImplicitDepLoader::LoadDepFile'])
    ctx.floor('C10.O1', 11)

    # ---- CN ------------------------------------------------------------------------------------------
    R('C10.CN', 'CN', 'depfile, deps=gcc and deps=msvc paths are canonicalised before they become nodes')
    canon_before_intern(ctx, 'C10.CN', prog.fn('ImplicitDepLoader::ProcessDepfileDeps'))
    canon_before_intern(ctx, 'C10.CN', ed, exempt={
        ('Builder::ExtractDeps', 'State::GetNode', 'elem-of:CLParser::includes_'):
            'deps=msvc: CLParser::Parse canonicalises each include before inserting it into includes_ (checked next)'})
    clp = prog.fn('CLParser::Parse')
    for e in clp.events('call'):
        if lastname(e.get('name')) == 'insert' and mentions_field(e.get('recv'), 'CLParser::includes_'):
            v = [x['n'] for x in walk(e['args'][0]) if x.get('k') == 'var']
            dominated_by(ctx, 'C10.CN', clp, e, lambda x: x['k'] == 'call' and x.get('name') == 'CanonicalizePath'
                         and any(mentions_var(x.get('args'), n) for n in v),
                         'msvc includes are canonicalised before being collected', 'CLParser:insert-uncanonical')
    # canonicalisation rewrites the bytes in place and shortens the length through an out-parameter:
    # the length must belong to the object that is used afterwards, not to a by-value copy of it
    ncp = 0
    for f2 in prog.functions.values():
        if f2.file.startswith('third_party'):
            continue
        for e2 in f2.calls('CanonicalizePath'):
            if len(e2.get('args') or []) != 3:
                continue
            ncp += 1
            la = strip(e2['args'][1])
            base = None
            if isinstance(la, dict) and la.get('k') == 'un' and la.get('op') == '&':
                m = strip(la['e'])
                if isinstance(m, dict) and m.get('k') == 'mem':
                    b = strip(m.get('b'))
                    if isinstance(b, dict) and b.get('k') == 'var' and b.get('vk') == 'local' and not m.get('arrow'):
                        base = b['n']
            copy = False
            if base:
                for d2 in f2.events('decl'):
                    ty = d2.get('ty') or ''
                    if d2['n'] == base and d2.get('init') is not None and '&' not in ty and '*' not in ty and 'iterator' not in ty and \
                            any(x.get('k') == 'var' and str(x.get('n', '')).startswith('__begin') for x in walk(d2['init'])):
                        copy = True
            ctx.check('C10.CN', not copy, f2.name, 'canonicalize:length-of-a-copy', f2.where(e2),
                      'the canonical length is stored into the object itself (`%s`), not into a by-value loop copy' % dstr(la)[:50])
    ldf_calls = [e for e in ldf.calls('CanonicalizePath')]
    ctx.check('C10.CN', len(ldf_calls) >= 1, ldf.name, 'LoadDepFile:primary-out-canon', ldf.loc,
              'the depfile\'s primary output is canonicalised before it is compared with the edge\'s output')
    ctx.floor('C10.CN', 8)

    # ---- CC: a discovered input is compared like a declared one ------------------------------------
    R('C10.CC', 'CC', 'the follow-up output check that runs once the discovered inputs are known compares the logged mtime '
      'with the newest input exactly as the first pass does: no clean verdict with a log entry and an input but without '
      'that comparison')
    from props.scan_common import check_logged_mtime_compared
    check_logged_mtime_compared(ctx, 'C10.CC', prog)
    ctx.floor('C10.CC', 2)


def _res(f, d):
    from rules import deep_resolve
    return deep_resolve(f, d)
