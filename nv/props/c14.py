"""C14 — path canonicalisation identifies exactly the lexically equal paths (DESIGN 5.14 / 11.9).

Decided here (structural clauses only; the algebra of CanonicalizePath over all strings is NOT decided):
  Z1  abstract interpretation (zone domain) of CanonicalizePath(char*, size_t*, uint64_t*): every read is inside
      [path, path + *len), every write / memmove ends at or below path + *len, the length stored back is never larger
      than the length passed in ("never lengthens a path"), and a non-empty input never yields the empty string length
      through the final store when the cursor sits at the start (the '.' case writes one byte inside the buffer).
  CN  whole program: every call that turns a string into a node identity (State::GetNode / LookupNode / AddIn / AddOut /
      AddValidation / AddDefault) is fed a canonicalised string on every path, or hands on its own parameter (then its
      callers are checked), or reads a name ninja itself wrote canonical into a log (table with reasons, each verified).
  W   one canonicaliser: the std::string overload always delegates to the char* overload and cuts the string to the
      length it reports.
  ID  node identity is the exact byte string: State::GetNode looks up and stores under the path it was given, the
      table's equality is length + memcmp over the whole length and its hash reads the same (pointer, length) pair.
"""
from facts import AnalysisBroken
from model import dstr, strip, walk, mentions_var, mentions_field, mentions_call, const_value
from rules import INTERN, intern_site_status, origins, must_pass, lastname, loops_over, loop_blocks, calls_to
from zone import Analysis, Zone, ZERO, INF


def _neg(f):
    return ({v: -c for v, c in f[0].items()}, -f[1])


def _plus(a, b, k=0):
    t = dict(a[0])
    for v, c in b[0].items():
        t[v] = t.get(v, 0) + c
    return ({v: c for v, c in t.items() if c}, a[1] + b[1] + k)


def zone_canonicalize(ctx, rid, core):
    """Obligations of CanonicalizePath(char* path, size_t* len, ...) decided on the zone fixpoint."""
    ps = core.params or []
    if len(ps) != 3:
        raise AnalysisBroken('CanonicalizePath core overload has %d parameters' % len(ps))
    pbuf, plen = ps[0]['n'], ps[1]['n']
    cell = '*' + plen
    an = Analysis(core, deref_vars={plen: cell}, extra_vars=['LIM', '__t'])
    z = Zone(an.names)
    z.add(pbuf, ZERO, 0)
    z.add(ZERO, pbuf, 0)          # offsets are measured from the buffer start
    z.add(cell, 'LIM', 0)
    z.add('LIM', cell, 0)         # LIM = the length passed in (ghost, never assigned)
    z.add(ZERO, 'LIM', 0)         # size_t
    an.run(z)
    lim = ({'LIM': 1}, 0)
    stats = {'upper': 0, 'lower': 0, 'lower_undecided': [], 'len': 0}
    stored = []

    def upper(zs, addr, k, e, what, construct):
        # addr + k <= LIM
        f = _plus(addr, _neg(lim), k)
        ok = zs.entails(f, 0)
        stats['upper'] += 1
        ctx.check(rid, ok, core.name, construct, core.where(e), what,
                  msg=None if ok else '%s is not entailed by the zone fixpoint (state: %s)' % (what, zs.describe()[:300]))

    def lower(zs, addr, e, what):
        ok = zs.entails(_neg(addr), 0)
        if ok:
            stats['lower'] += 1
            ctx.inst(rid, core.where(e), what)
        else:
            stats['lower_undecided'].append('%s: %s' % (core.where(e), what))

    def access(zs, e, base, index, write):
        b = an.lin(base, zs)
        i = an.lin(index, zs) if index is not None else ({}, 0)
        src = (e.get('src') or dstr(base))[:40]
        if b is None or i is None:
            ctx.check(rid, False, core.name, 'access:not-linear:%s' % src, core.where(e),
                      'the address of `%s` is a linear expression of tracked cursors' % src)
            return
        if any(v in zs.maynull for v in b[0]):
            ctx.check(rid, False, core.name, 'access:maybe-null:%s' % src, core.where(e), '`%s` is not a null pointer' % src)
            return
        addr = _plus(b, i)
        upper(zs, addr, 1, e, '`%s` (%s) is below path + len' % (src, 'write' if write else 'read'),
              '%s-beyond-end:%s' % ('write' if write else 'read', src))
        lower(zs, addr, e, '`%s` is at or above path' % src)

    writes = set()
    for b in core.blocks.values():
        for e in b['ev']:
            if e['k'] == 'asg':
                l = strip(e['l'])
                if isinstance(l, dict) and l.get('k') in ('idx',) or (isinstance(l, dict) and l.get('k') == 'un' and l.get('op') == '*'):
                    writes.add(dstr(l))

    def on_event(bid, e, zs):
        k = e['k']
        if k == 'idx':
            base = strip(e['b'])
            if isinstance(base, dict) and base.get('k') == 'var' and base['n'] in zs.ix and base.get('tk') == 'ptr':
                access(zs, e, e['b'], e['i'], dstr({'k': 'idx', 'b': e['b'], 'i': e['i']}) in writes)
        elif k == 'deref':
            inner = strip(e['e'])
            names = [x['n'] for x in walk(inner) if x.get('k') == 'var']
            if names and all(n in zs.ix for n in names) and not any(n in an.deref_vars for n in names) and \
                    any(x.get('tk') == 'ptr' for x in walk(inner) if x.get('k') == 'var'):
                access(zs, e, e['e'], None, dstr({'k': 'un', 'op': '*', 'e': e['e']}) in writes)
        elif k == 'call' and (e.get('name') or '') in ('memmove', 'memcpy', 'memset', 'memchr', 'memcmp'):
            args = e.get('args') or []
            n = an.lin_or_temp(args[2], zs) if len(args) == 3 else None
            if n is None:
                ctx.check(rid, False, core.name, '%s:length-not-linear' % e['name'], core.where(e),
                          'the length of %s is a linear expression of tracked cursors' % e['name'])
                return
            okn = zs.entails(_neg(n), 0)
            ctx.check(rid, okn, core.name, '%s:negative-length' % e['name'], core.where(e),
                      'the length `%s` of %s is not negative' % (dstr(args[2])[:40], e['name']))
            ptrs = [(0, True)] if e['name'] in ('memset',) else [(0, e['name'] in ('memmove', 'memcpy'))]
            if e['name'] in ('memmove', 'memcpy', 'memcmp'):
                ptrs.append((1, False))
            for idx, wr in ptrs:
                a = an.lin(args[idx], zs)
                if a is None:
                    ctx.check(rid, False, core.name, '%s:pointer-not-linear' % e['name'], core.where(e),
                              'argument %d of %s is a tracked cursor' % (idx, e['name']))
                    continue
                upper(zs, _plus(a, n), 0, e, '%s: `%s` + `%s` ends at or below path + len' % (
                    e['name'], dstr(args[idx])[:30], dstr(args[2])[:30]),
                    '%s:%s-beyond-end:arg%d' % (e['name'], 'write' if wr else 'read', idx))
                lower(zs, a, e, '%s: `%s` is at or above path' % (e['name'], dstr(args[idx])[:30]))
        elif k == 'asg':
            l = strip(e['l'])
            if isinstance(l, dict) and l.get('k') == 'un' and l.get('op') == '*':
                inner = strip(l['e'])
                if isinstance(inner, dict) and inner.get('k') == 'var' and inner['n'] == plen:
                    f = an.lin(e.get('r'), zs) if e['op'] == '=' else None
                    stored.append(e)
                    if f is None:
                        ctx.check(rid, False, core.name, 'length:not-linear', core.where(e),
                                  'the length stored back is a linear expression of tracked cursors')
                        return
                    stats['len'] += 1
                    ok = zs.entails(_plus(f, _neg(lim)), 0)
                    ctx.check(rid, ok, core.name, 'length:may-grow', core.where(e),
                              'never lengthens: the length stored back (`%s`) is at most the length passed in' % dstr(e.get('r'))[:40],
                              msg=None if ok else 'the zone fixpoint does not entail `%s` <= incoming *%s (state: %s)' % (
                                  dstr(e.get('r'))[:40], plen, zs.describe()[:300]))
                    lower(zs, f, e, 'the length stored back is not negative')
    an.visit(on_event)
    ctx.check(rid, bool(stored), core.name, 'length:never-stored', core.loc,
              'the canonical length is reported through *%s' % plen)
    ctx.table('C14.Z1 zone analysis', {
        'function': core.id, 'variables': an.names, 'loop heads (widening points)': sorted(an.heads),
        'blocks reached': len([b for b in an.inn if not an.inn[b].bot]),
        'upper-bound obligations': stats['upper'], 'length obligations': stats['len'],
        'lower-bound obligations discharged (not claimed)': stats['lower'],
        'lower-bound obligations NOT decided (need a content invariant: "component_count > 0 implies a separator '
        'below dst"; not claimed, not a violation)': stats['lower_undecided']})
    return stats


def deep_resolve_args(f, e):
    from rules import deep_resolve
    return [deep_resolve(f, deep_resolve(f, a)) for a in e.get('args') or []]


def is_param_store(s_, name):
    l = strip(s_['l'])
    return isinstance(l, dict) and l.get('k') == 'var' and l.get('n') == name


def run(ctx):
    prog = ctx.prog
    R = ctx.rule

    wrap = [f for f in prog.fns('CanonicalizePath') if len(f.params) == 2]
    core = [f for f in prog.fns('CanonicalizePath') if len(f.params) == 3]
    if len(wrap) != 1 or len(core) != 1:
        raise AnalysisBroken('expected one string overload and one char* overload of CanonicalizePath, found %d / %d' % (len(wrap), len(core)))
    wrap, core = wrap[0], core[0]

    # ---- Z1 -----------------------------------------------------------------------------------------
    R('C14.Z1', 'AI', 'zone abstract interpretation of CanonicalizePath(char*, size_t*, ..): reads inside [path, path+len), '
      'writes and block moves end at or below path+len, the reported length never exceeds the incoming length')
    st = zone_canonicalize(ctx, 'C14.Z1', core)
    ctx.floor('C14.Z1', 20)

    # ---- W ------------------------------------------------------------------------------------------
    R('C14.W', 'O', 'the std::string overload always delegates to the char* overload, hands it the string\'s own bytes and '
      'size, and cuts the string to the reported length')

    def is_core(x):
        return x['k'] == 'call' and x.get('name') == 'CanonicalizePath' and len(x.get('args') or []) == 3
    # (the empty string may be left alone: the core returns at once for a zero length)
    def not_empty_way(b2, i2, s3):
        return not any((p_ is True and 'empty()' in dstr(a) and pname_ in dstr(a)) or
                       (p_ is True and 'size()' in dstr(a) and '== 0' in dstr(a) and pname_ in dstr(a)) or
                       (p_ is False and 'size()' in dstr(a) and ('0 <' in dstr(a) or '!= 0' in dstr(a)) and pname_ in dstr(a))
                       for k_, p_, a in wrap.edge_facts(b2, i2))
    pname_ = wrap.params[0]['n']
    must_pass(ctx, 'C14.W', wrap, is_core, lambda x: x['k'] in ('ret', 'exit'),
              'the string overload of CanonicalizePath always delegates to the char* overload (except for the empty string)', 'wrapper-bypasses-core',
              edge_ok=not_empty_way)
    pname = wrap.params[0]['n']
    for c in [e for e in wrap.events('call') if is_core(e)]:
        lens = [y['n'] for y in walk(c['args'][1]) if y.get('k') == 'var']
        lo = [dstr(o) for ln in lens for o in origins(wrap, {'k': 'var', 'n': ln, 'vk': 'local'})]
        ctx.check('C14.W', bool(lens) and any('size' in o or 'length' in o for o in lo) and all(pname in o for o in lo if 'size' in o or 'length' in o),
                  wrap.name, 'wrapper:length-not-the-strings-size', wrap.where(c),
                  'the length handed to the core is the string\'s own size(): %s' % lo[:3])
        cut = [y for y in wrap.events('call') if lastname(y.get('name')) in ('resize', 'erase') and mentions_var(y.get('recv'), pname) and
               any(mentions_var(y.get('args'), ln) for ln in lens)]
        ok = bool(cut) and all(wrap.find_path(c, lambda x: x['k'] in ('ret', 'exit'), is_blocker=lambda x: x in cut) is None for _ in [0])
        ctx.check('C14.W', ok, wrap.name, 'wrapper:string-not-cut-to-new-length', wrap.where(c),
                  'after the core returned, the string is cut to the reported length on every path')
        bo = [dstr(o) for o in origins(wrap, c['args'][0])]
        bo = [o for o in bo if o not in ('0', 'null', 'nullptr')]
        ctx.check('C14.W', bool(bo) and all(pname in o for o in bo), wrap.name, 'wrapper:foreign-buffer', wrap.where(c),
                  'the bytes handed to the core are the string\'s own: %s' % bo[:2])
    ctx.floor('C14.W', 4)

    # ---- CN: whole program ----------------------------------------------------------------------------
    R('C14.CN', 'CN', 'every string that becomes a node identity anywhere in the program is canonicalised on every path, is '
      'the caller-checked parameter of a forwarding function, or is a name read back from a log ninja wrote itself')
    LOGNAMES = {
        ('Cleaner::CleanDead', 'State::LookupNode'): ('build-log key', lambda f, e: any('BuildLog::LogEntry' in dstr(o) or 'entries' in dstr(o) for a in e.get('args') or [] for o in origins(f, a))),
        ('DepsLog::Load', 'State::GetNode'): ('path record of the deps log', lambda f, e: any('buf' in dstr(o) for a in e.get('args') or [] for o in origins(f, a))),
        ('Builder::ExtractDeps', 'State::GetNode'): ('msvc include collected by CLParser::Parse, which canonicalises before inserting (checked below)',
                                                     lambda f, e: any('CLParser::includes_' in dstr(o) for a in e.get('args') or [] for o in origins(f, a))),
    }
    n = 0
    checked_params = set()

    def check_param_callers(f, v, depth=0):
        """f forwards its parameter v to an interning call: every production caller's argument is canonical."""
        key = (f.id, v)
        if key in checked_params or depth > 3:
            return
        checked_params.add(key)
        pidx = [i for i, p in enumerate(f.params or []) if p['n'] == v]
        if not pidx:
            return
        pidx = pidx[0]
        sites = [(g, e) for g in prog.functions.values() for e in g.events('call')
                 if e.get('fn') == f.id or (e.get('name') == f.name and len(e.get('args') or []) == len(f.params or []) and f.id in [t for t in prog.call_targets(e)])]
        if not sites:
            ctx.inst('C14.CN', f.loc, '%s(%s) has no caller in the program (test-only API)' % (f.name, v))
            return
        for g, e in sites:
            if g.id == f.id:
                continue
            fake = dict(e, args=[(e.get('args') or [])[pidx]]) if pidx < len(e.get('args') or []) else None
            if fake is None:
                continue
            status, var, wit = intern_site_status(g, fake)
            judge(g, e, status, var, wit, via='%s(%s)' % (f.name, v), depth=depth + 1, fake=fake)

    def judge(f, e, status, var, wit, via=None, depth=0, fake=None):
        nonlocal n
        n += 1
        callee = e.get('name')
        what = '%s in %s%s' % (callee, f.name, (' [reaches %s]' % via) if via else '')
        if status == 'canon':
            ctx.inst('C14.CN', f.where(e), '`%s` is canonicalised on every path before %s' % (var, what))
            return
        if status == 'param' and (f.name in INTERN or via is not None or True):
            if f.name in INTERN:
                ctx.inst('C14.CN', f.where(e), '%s hands on its own parameter `%s`; its callers are the checked sites' % (f.name, var))
            else:
                ctx.inst('C14.CN', f.where(e), '%s hands on its parameter `%s`; its callers are checked' % (f.name, var))
                check_param_callers(f, var, depth)
            return
        ex = LOGNAMES.get((f.name, callee))
        if ex is not None and ex[1](f, fake or e):
            ctx.inst('C14.CN', f.where(e), '%s: %s (not canonicalised here: written canonical by ninja itself)' % (what, ex[0]))
            return
        ctx.check('C14.CN', False, f.name, 'identity-without-canonicalize:%s:%s' % (callee, var), f.where(e),
                  'the string given to %s is canonical' % what, witness=wit)

    for f in sorted(prog.functions.values(), key=lambda f: f.id):
        for e in f.events('call'):
            if e.get('name') in INTERN:
                status, var, wit = intern_site_status(f, e)
                judge(f, e, status, var, wit)
    # virtual forwarding: BuildLogUser::IsPathDead implementations look names up; their argument is a build-log key
    for f in prog.fns('BuildLog::Recompact'):
        for e in f.events('call'):
            if lastname(e.get('name')) == 'IsPathDead':
                ok = any('entries' in dstr(o) or 'LogEntry' in dstr(o) for a in e.get('args') or [] for o in origins(f, a))
                ctx.check('C14.CN', ok, f.name, 'IsPathDead:argument-not-a-log-key', f.where(e),
                          'the name given to IsPathDead is a key of the build log (written from Node::path())')
    # the names ninja writes into its logs are node paths
    for fname, what in (('BuildLog::RecordCommand', 'build log'), ('DepsLog::RecordId', 'deps log')):
        f = prog.fn(fname)
        ok = any(True for _ in f.calls('Node::path'))
        ctx.check('C14.CN', ok, f.name, 'log-name-not-node-path', f.loc, 'the names written to the %s are Node::path() values' % what)
    # CLParser: everything inserted into includes_ went through CanonicalizePath first
    clp = prog.fn('CLParser::Parse')
    ins = [e for e in clp.events('call') if lastname(e.get('name')) in ('insert', 'push_back', 'emplace') and mentions_field(e.get('recv'), 'CLParser::includes_')]
    for e in ins:
        vs = [x['n'] for x in walk(e.get('args')) if x.get('k') == 'var' and x.get('vk') == 'local']
        bad = clp.find_path(None, lambda x: x is e, from_succ=clp.entry,
                            is_blocker=lambda x: x['k'] == 'call' and x.get('name') == 'CanonicalizePath' and any(mentions_var(x.get('args'), v) for v in vs))
        ctx.check('C14.CN', bad is None and bool(vs), clp.name, 'CLParser:insert-uncanonical', clp.where(e),
                  'an include is canonicalised before CLParser collects it', witness=None if bad is None else {'blocks': bad[0]})
    ctx.check('C14.CN', bool(ins), clp.name, 'CLParser:no-insert', clp.loc, 'CLParser::Parse collects includes')
    ctx.floor('C14.CN', 24)

    # ---- CM: names compared with node identities -------------------------------------------------------
    R('C14.CM', 'CN', 'a name that is not interned but *compared* with node paths / build-log keys is canonical too: every output a '
      'depfile names is canonicalised before it is matched against the edge\'s outputs, and the outputs named on the command line of '
      '`-t restat` are canonicalised before BuildLog::Restat compares them with the log')
    ncm = 0
    for f in sorted(prog.functions.values(), key=lambda g: g.name):
        if f.file.endswith('_test.cc') or f.cls == 'DepfileParser':
            continue
        for l in loops_over(f, 'DepfileParser::outs_'):
            v = l['var']
            body = loop_blocks(f, l)

            def plumbing(e):
                nm = lastname(e.get('name') or '')
                if nm == '__normal_iterator' and any(mentions_var(a, v) for a in e.get('args') or []):
                    return False            # a copy of the cursor is handed on (by-value argument, lambda capture)
                return nm.startswith('operator') or nm in ('__normal_iterator', 'begin', 'end') or e.get('name') == 'CanonicalizePath'
            # range-for: the element is bound to a reference once per iteration; that reference stands for the cursor
            alias = None
            for b in body:
                for e in f.blocks[b]['ev']:
                    if e['k'] == 'decl' and e.get('ref') and e.get('init') is not None and mentions_var(e['init'], v) and alias is None:
                        alias = e
            if alias is not None and not any(e is not alias and any(isinstance(x, dict) and x.get('k') == 'var' and x.get('n') == alias['n']
                                                                      for x in walk({k_: v_ for k_, v_ in e.items() if not k_.startswith('_')}))
                                             for b in body for e in f.blocks[b]['ev']):
                alias = None            # the reference was folded into its uses: the cursor itself is what the body mentions
            if alias is not None:
                v = alias['n']
            def derefs(e):
                # `*o` / `o->` of the loop cursor (an event of its own, or inside another event's operands)
                if alias is not None:
                    return any(isinstance(x, dict) and x.get('k') == 'var' and x.get('n') == v
                               for x in walk({k_: v_ for k_, v_ in e.items() if not k_.startswith('_') and k_ not in ('l',)})) and \
                        not (e['k'] == 'call' and lastname(e.get('name') or '').startswith('operator') and lastname(e.get('name') or '') in ('operator!=', 'operator=='))
                for x in walk({k_: v_ for k_, v_ in e.items() if not k_.startswith('_')}):
                    if isinstance(x, dict) and x.get('k') == 'call' and x.get('op') in ('*', '->') and mentions_var(x.get('recv'), v):
                        return True
                    if isinstance(x, dict) and x.get('k') == 'call' and x.get('op') == '[]' and mentions_field(x.get('recv'), 'DepfileParser::outs_') and \
                            any(mentions_var(a, v) for a in x.get('args') or []):
                        return True             # index loop: `outs_[k]`
                    if isinstance(x, dict) and x.get('k') == 'un' and x.get('op') == '*' and mentions_var(x.get('e'), v):
                        return True
                return False

            def feeds_canon(e):
                # the operand evaluation of the canonicalisation itself
                blk = f.blocks[e['_b']]['ev']
                for y in blk[e['_i'] + 1:]:
                    if y['k'] == 'call' and y.get('name') == 'CanonicalizePath' and any(mentions_var(a, v) for a in y.get('args') or []):
                        return True
                    if y['k'] == 'call' and not plumbing(y):
                        return False
                return False
            def captures(e):
                # a lambda created in the loop body whose own body reads the element (captured by reference or by value)
                if e['k'] != 'decl' or e.get('init') is None:
                    return False
                for x in walk(e['init']):
                    if isinstance(x, dict) and x.get('k') == 'lambda' and x.get('fn') in prog.functions:
                        g = prog.functions[x['fn']]
                        if any(isinstance(y, dict) and y.get('k') == 'var' and y.get('n', '').split('#')[0] == v.split('#')[0]
                               for ev_ in g.events() for y in walk({k_: v_ for k_, v_ in ev_.items() if not k_.startswith('_')})):
                            return True
                return False
            uses = [e for b in body for e in f.blocks[b]['ev'] if captures(e)] + \
                   [e for b in body for e in f.blocks[b]['ev'] if e is not alias and e['k'] in ('call', 'decl', 'asg') and e.get('name') != 'CanonicalizePath' and
                    ((e['k'] == 'call' and not plumbing(e) and (any(mentions_var(a, v) for a in e.get('args') or []) or mentions_var(e.get('recv'), v))) or
                     (derefs(e) and not feeds_canon(e)))]
            if not uses:
                continue
            ncm += 1

            def canon_of(var):
                return lambda x: x['k'] == 'call' and x.get('name') == 'CanonicalizePath' and any(mentions_var(a, var) for a in x.get('args') or [])
            # an element that is the same object as one canonicalised before the loop needs nothing more
            done_before = {x['n'] for e in f.events('call') if canon_of(None) is not None and e.get('name') == 'CanonicalizePath' and
                           f.dominates_block(e['_b'], l['header']) for a in e.get('args') or [] for x in walk(a) if isinstance(x, dict) and x.get('k') == 'var'}

            first_done = any(e['k'] == 'call' and e.get('name') == 'CanonicalizePath' and f.dominates_block(e['_b'], l['header']) and
                             'DepfileParser::outs_' in dstr(deep_resolve_args(f, e)) and any(t in dstr(deep_resolve_args(f, e)) for t in ('front()', 'begin()', '[](0)'))
                             for e in f.events('call'))

            def same_as_done(b, i, s2):
                for key, pol, atom in f.edge_facts(b, i, all=True):
                    a = strip(atom)
                    # index loop: element 0 was canonicalised before the loop
                    if pol and first_done and isinstance(a, dict) and a.get('k') == 'bin' and a.get('op') == '==' and mentions_var(a.get('l'), v) and const_value(a.get('r')) == 0:
                        return False
                    if pol and isinstance(a, dict) and ((a.get('k') == 'call' and lastname(a.get('name') or '').startswith('operator==')) or
                                                        (a.get('k') == 'bin' and a.get('op') == '==')) and \
                            mentions_var(a, v) and any(mentions_var(a, d) for d in done_before):
                        return False
                return True
            first = uses[0]
            r = f.find_path(None, lambda x: any(x is u for u in uses), from_succ=l['body'], is_blocker=canon_of(v), edge_ok=same_as_done)
            ctx.check('C14.CM', r is None, f.name, 'depfile-output:compared-uncanonical', f.where(first),
                      'every element of DepfileParser::outs_ is canonicalised before %s uses it (`%s`)' % (f.name, (first.get('src') or '')[:50]),
                      witness=None if r is None else {'blocks': r[0]})
    ctx.check('C14.CM', ncm >= 1, 'ImplicitDepLoader::LoadDepFile', 'depfile-output:no-loop', 'src/graph.cc:1',
              'a loader walks the outputs a depfile names (%d loops)' % ncm)
    for f, e in calls_to(prog, 'BuildLog::Restat'):
        if f.file.endswith('_test.cc'):
            continue
        names = [x['n'] for x in walk(e['args'][3] if len(e.get('args') or []) > 3 else None) if isinstance(x, dict) and x.get('k') == 'var']
        cnt = [x['n'] for x in walk(e['args'][2] if len(e.get('args') or []) > 2 else None) if isinstance(x, dict) and x.get('k') == 'var']
        ok = False
        for bid, b in f.blocks.items():
            t = b.get('term')
            if not t or t['kind'] not in ('for', 'while', 'range') or len(b['succ']) != 2 or not f.dominates_block(bid, e['_b']):
                continue
            c = dstr(f.eff_cond(bid))
            if not any(n in c for n in cnt):
                continue
            loop = {'header': bid, 'body': b['succ'][0], 'line': t.get('line'), 'bound': c}
            hit = [None]

            def edge_ok(b2, i2, s2, bid=bid):
                if s2 == bid:
                    hit[0] = b2
                    return False
                return True
            f.find_path(None, lambda x: False, from_succ=loop['body'], edge_ok=edge_ok,
                        is_blocker=lambda x: x['k'] == 'ret' or (x['k'] == 'call' and x.get('name') == 'CanonicalizePath' and
                                                                any(mentions_var(a, n) for a in x.get('args') or [] for n in names)))
            if hit[0] is None:
                ok = True
        ctx.check('C14.CM', ok, f.name, 'restat:arguments-compared-uncanonical', f.where(e),
                  'the names handed to BuildLog::Restat are canonicalised in a loop over all of them first (%s, %s)' % (names, cnt))
    ctx.floor('C14.CM', 3)

    # ---- ID: identity is the byte string ----------------------------------------------------------------
    R('C14.ID', 'TA', 'a node is found and stored under exactly the string it was asked for; equality of table keys is '
      'length + memcmp over the whole length; the hash reads the same pointer and length')
    gn = prog.fn('State::GetNode')
    ln = prog.fn('State::LookupNode')
    p_gn = gn.params[0]['n']
    p_ln = ln.params[0]['n']
    finds = [e for e in ln.events('call') if lastname(e.get('name') or '').split('<')[0] == 'find' and mentions_field(e.get('recv'), 'State::paths_')]
    ctx.check('C14.ID', len(finds) == 1 and dstr(strip(finds[0]['args'][0])) == p_ln and not [s for s in ln.stores() if s['k'] == 'asg' and mentions_var(s['l'], p_ln)],
              ln.name, 'LookupNode:key-rewritten', ln.loc, 'State::LookupNode searches paths_ for its argument, unchanged')
    # (through LookupNode, or with its own search of the table)
    lk = [e for e in gn.calls('State::LookupNode')] + \
         [e for e in gn.events('call') if lastname(e.get('name') or '').split('<')[0] in ('find', 'count') and mentions_field(e.get('recv'), 'State::paths_')]
    ctx.check('C14.ID', len(lk) >= 1 and all(dstr(strip(e['args'][0])) == p_gn for e in lk) and
              not [s_ for s_ in gn.stores() if s_['k'] == 'asg' and is_param_store(s_, p_gn)], gn.name, 'GetNode:lookup-other-key', gn.loc,
              'State::GetNode looks up the path it was given, unchanged')
    news = [e for e in gn.events('new')]
    ctx.check('C14.ID', bool(news) and all(p_gn in (e.get('src') or dstr(e)) for e in news), gn.name, 'GetNode:node-other-path', gn.loc,
              'a new Node carries the path GetNode was given: %s' % [(e.get('src') or '')[:50] for e in news])
    st_ = [e for e in gn.stores() if e['k'] == 'asg' and mentions_field(e['l'], 'State::paths_')]
    ctx.check('C14.ID', bool(st_) and all(mentions_call(e['l'], 'Node::path') for e in st_), gn.name, 'GetNode:stored-under-other-key', gn.loc,
              'the new node is stored under its own path()')
    eqs = prog.fns('operator==')
    eq = [f for f in eqs if 'StringPiece' in f.id]
    if len(eq) != 1:
        raise AnalysisBroken('operator==(StringPiece, StringPiece) not found')
    eq = eq[0]
    for r in eq.events('ret'):
        d = dstr(r.get('e'))
        a, b = eq.params[0]['n'], eq.params[1]['n']
        # conjuncts of the returned expression: one equality of the two lengths, one `memcmp(..) == 0`
        conj, st2 = [], [strip(r.get('e'))]
        while st2:
            x = strip(st2.pop())
            if isinstance(x, dict) and x.get('k') == 'bin' and x['op'] == '&&':
                st2 += [x['l'], x['r']]
            else:
                conj.append(x)
        leneq = [x for x in conj if isinstance(x, dict) and x.get('k') == 'bin' and x['op'] == '==' and
                 'StringPiece::len_' in dstr(x['l']) and 'StringPiece::len_' in dstr(x['r']) and dstr(x['l']) != dstr(x['r'])]
        cmp0 = [x for x in conj if isinstance(x, dict) and x.get('k') == 'bin' and x['op'] == '==' and
                ((mentions_call(x['l'], 'memcmp') and const_value(x['r']) == 0) or (mentions_call(x['r'], 'memcmp') and const_value(x['l']) == 0))]
        ok = len(conj) == 2 and len(leneq) == 1 and len(cmp0) == 1
        # memcmp over the full length
        mc = [x for x in walk(r.get('e')) if x.get('k') == 'call' and x.get('name') == 'memcmp']
        ok = ok and len(mc) == 1 and 'StringPiece::len_' in dstr(mc[0]['args'][2]) and const_value(mc[0]['args'][2]) is None and \
            'StringPiece::str_' in dstr(mc[0]['args'][0]) and 'StringPiece::str_' in dstr(mc[0]['args'][1]) and \
            {dstr(mc[0]['args'][0]).split('.')[0], dstr(mc[0]['args'][1]).split('.')[0]} == {a, b}
        ctx.check('C14.ID', ok, eq.name, 'StringPiece-equality', eq.where(r),
                  'two pieces are equal iff their lengths are equal and memcmp over that length is 0: `%s`' % d[:120])
    hs = [f for f in prog.functions.values() if f.name.startswith('std::hash<StringPiece>::operator()')]
    for h in hs:
        for r in h.events('ret'):
            d = dstr(r.get('e'))
            ctx.check('C14.ID', 'StringPiece::str_' in d and 'StringPiece::len_' in d, h.name, 'StringPiece-hash', h.where(r),
                      'the hash of a piece reads its pointer and its length: `%s`' % d[:80])
    ctx.check('C14.ID', bool(hs), 'std::hash<StringPiece>', 'StringPiece-hash:missing', 'src/hash_map.h', 'std::hash<StringPiece> exists')
    ctx.floor('C14.ID', 6)
    ctx.note('NOT decided: that CanonicalizePath maps exactly the lexically equal spellings to one string, idempotence, '
             'kept leading "/" and "..", "." for the empty result (value-level algebra of one function); lower bounds of '
             'the write cursor (they need a content invariant relating component_count to the separators already written).')
