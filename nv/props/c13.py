"""C13 — no file content can crash, corrupt or hang ninja (DESIGN 5.13)."""
from facts import AnalysisBroken, load_fixture_facts
from model import (Program, dstr, strip, fact_holds, mentions_field, mentions_call, mentions_var,
                   const_value, walk)
from rules import (guarded, calls_to, field_writes, basename, origins, is_var, is_enum, lastname,
                   dominated_by, reached_only_via, deep_resolve, unwrap_conv)
from bounds import bounds, upper_by_fact, INF
import vs
from props.c09 import rule_tb1

TEOF = 'Lexer::TEOF'


# ------------------------------------------------------------------------------------------------
# VS1: scanner sentinel proof
# ------------------------------------------------------------------------------------------------

def rule_vs(ctx, prog, rid, floor_fns, control=False):
    out = {}
    fns = vs.scanner_functions(prog)
    for f in fns:
        sc = vs.Scanner(prog, f)
        if not sc.run():
            ctx.violation(rid, f.name, 'scanner:cursor-not-found', f.loc, 'cannot identify the scanner cursor in %s' % f.name)
            continue
        out[f.name] = sc
        if control:
            continue
        teof = None
        try:
            teof = ctx.prog.enum_value(TEOF)
        except AnalysisBroken:
            pass
        if sc.violations:
            for where, msg, what in sc.violations:
                ctx.violation(rid, f.name, 'read-past-sentinel:%s' % what, where, '%s: %s' % (f.name, msg))
        else:
            ctx.inst(rid, f.loc, '%s: %d reads through `%s`, %d advances, %d abstract states, %d transitions — no read '
                     'while the cursor may be past the terminating NUL' % (f.name, sc.reads, sc.cursor, sc.advances,
                                                                          sc.states, sc.transitions))
        for where, member, past, tok in sc.exits:
            if past:
                ok = tok is not None and set(tok) <= {teof}
                ctx.check(rid, ok, f.name, 'cursor-saved-past-sentinel', where,
                          '%s stores a cursor that may be past the NUL into %s only with token == TEOF (token set: %s)' % (
                              f.name, member, tok))
    if not control:
        names = sorted(out)
        ctx.check(rid, len(names) >= floor_fns, 'scanners', 'scanners:missing', 'src/lexer.cc',
                  'scanner functions analysed: %s' % names)
        ctx.table(rid + '.scanners', {n: {'cursor': s.cursor, 'end': s.endvar, 'reads': s.reads, 'advances': s.advances,
                                          'states': s.states, 'transitions': s.transitions,
                                          'yybm_tables': len(s.bm_by_line)} for n, s in out.items()})
    return out


# ------------------------------------------------------------------------------------------------
# M1: recursion discipline
# ------------------------------------------------------------------------------------------------

def generic_visited_guard(prog, f, e):
    """Recursive call e in f is gated by a test on a container / mark C and an insertion into (or
    removal from / mark write on) C dominates e or is the tested call itself.  Returns the name of
    C or None."""
    cands = []
    # containers / marks mutated before the call
    for x in f.events():
        if x is e:
            continue
        c = None
        if x['k'] == 'call' and lastname(x.get('name')) in ('insert', 'emplace', 'erase') and 'recv' in x:
            c = dstr(deep_resolve(f, x['recv']))
        elif x['k'] == 'asg' and isinstance(strip(x['l']), dict) and strip(x['l']).get('k') == 'mem' and \
                strip(x['l']).get('b', {}).get('k') != 'this' and 'mark' in strip(x['l'])['n']:
            c = strip(x['l'])['n']
        if c and (f.dominates_ev(x, e) or True):
            cands.append((c, x))
    for c, x in cands:
        key = c
        # what identifies the container in a test: its member names and the variables it is rooted in
        rd = deep_resolve(f, x['recv']) if x['k'] == 'call' else x['l']
        toks = {y['n'] for y in walk(rd) if y.get('k') == 'mem' and not y['n'].startswith('std::')} | \
            {y['n'] for y in walk(rd) if y.get('k') == 'var'}
        if not toks:
            continue

        def gate(a, toks=toks):
            ra = deep_resolve(f, a)
            names = {y['n'] for y in walk(ra) if y.get('k') in ('mem', 'var')} | \
                {y['n'] for y in walk(a) if y.get('k') in ('mem', 'var')}
            return bool(names & toks)
        # (ii) e reachable only via an edge testing C
        r = f.find_path(None, lambda y: y is e, from_succ=f.entry,
                        edge_ok=lambda b, i, s: not any(gate(ef[2]) for ef in f.edge_facts(b, i)), sensitive=False)
        if r is not None:
            continue
        # (i) the mutation dominates e, or the mutation is itself the tested expression
        def tests_insertion(a):
            # the gating test is on the result of the insertion itself: insert(...).second
            return any(y.get('k') == 'call' and lastname(y.get('name')) in ('insert', 'emplace') and
                       gate(y.get('recv')) for y in walk(deep_resolve(f, a)))
        if f.dominates_ev(x, e) or any(tests_insertion(ef[2]) for b in f.blocks
                                       for i in range(len(f.blocks[b]['succ'])) for ef in f.edge_facts(b, i)):
            return key
        # ... or every feasible way to the descent passes the mutation (`if (not found) insert; ...; if (found) return;`)
        if f.find_path(None, lambda y: y is e, from_succ=f.entry, is_blocker=lambda y, x=x: y is x) is None:
            return key
    return None


def scc_key(fs):
    return ' + '.join(sorted(set(f.name for f in fs)))


def check_explicit(ctx, prog, key, fs):
    """Termination arguments that are not a plain visited-set-before-descent; each verifies its
    structural premise.  Returns (ok, kind, text) or None if the SCC is not in the table."""
    byname = {f.name: f for f in fs}
    if key in ('BindingEnv::LookupVariable', 'BindingEnv::LookupRule'):
        f = fs[0]
        rec = [e for e in f.calls(f.name)]
        ok = bool(rec) and all(mentions_field(e.get('recv'), 'BindingEnv::parent_') and
                               strip(strip(e['recv']).get('b')).get('k') == 'this' for e in rec)
        w = [(g.name, e) for g, e, kind, rhs in field_writes(prog, 'BindingEnv::parent_')]
        ok = ok and all(e.get('init') for n, e in w)
        return ok, 'T2', 'recursion only on this->parent_, which is assigned only in constructors (finite scope chain)'
    if key == 'DiskInterface::MakeDirs':
        f = fs[0]
        rec = [e for e in f.calls(f.name)]
        ok = bool(rec) and all(any(mentions_call(o, 'DirName') for o in origins(f, e['args'][0])) for e in rec)
        ok = ok and all(fact_holds(f.facts_at(e), lambda a: 'dir' in dstr(a) and 'empty()' in dstr(a), False) for e in rec)
        return ok, 'T2', 'recursion on DirName(path), strictly shorter, guarded by !dir.empty()'
    if key == 'DepsLog::OpenForWrite + DepsLog::Recompact':
        rp = byname['DepsLog::Recompact']
        ow = byname['DepsLog::OpenForWrite']
        rec = [e for e in rp.calls('DepsLog::OpenForWrite')]
        ok = bool(rec) and all(strip(e.get('recv')).get('k') == 'var' and strip(e['recv']).get('vk') == 'local' for e in rec)
        back = [e for e in ow.calls('DepsLog::Recompact')]
        ok = ok and all(fact_holds(ow.facts_at(e), lambda a: mentions_field(a, 'DepsLog::needs_recompaction_'), True) for e in back)
        w = [e for g, e, kind, rhs in field_writes(prog, 'DepsLog::needs_recompaction_') if const_value(rhs) == 1]
        ok = ok and all(e['_fn'].name == 'DepsLog::Load' for e in w)
        return ok, 'T2', 'Recompact opens a fresh local DepsLog whose needs_recompaction_ is false (set only by Load)'
    if key == 'AnsiColorSequenceIterator::FindNextSequenceFrom':
        f = fs[0]
        rec = [e for e in f.calls(f.name)]
        tail = all(any(r['k'] == 'ret' and strip(r.get('e')) is not None and strip(r['e']).get('k') == 'call' and
                       strip(r['e']).get('fn') == e.get('fn') and r['_b'] == e['_b'] for r in f.events('ret')) for e in rec)
        adv = all(strip(e['args'][0]).get('k') == 'bin' and strip(e['args'][0])['op'] == '+' and
                  (const_value(strip(e['args'][0])['r']) or 0) > 0 for e in rec)
        return bool(rec) and tail and adv, 'T2', ('self calls in tail position with a strictly advancing start pointer '
                                                  '(eliminated at the pinned -O2; depth bounded by the input length otherwise)')
    if key == 'BindingEnv::LookupWithFallback + EdgeEnv::LookupVariable + EvalString::Evaluate':
        f = byname['EdgeEnv::LookupVariable']
        fb = list(f.calls('BindingEnv::LookupWithFallback'))
        fatal = [e for e in f.calls('Fatal')]
        push = [e for e in f.events('call') if lastname(e.get('name')) == 'push_back' and mentions_field(e.get('recv'), 'EdgeEnv::lookups_')]
        ok = bool(fb) and bool(fatal) and bool(push) and \
            fact_holds(f.facts_at(fatal[0]), lambda a: any(t in dstr(deep_resolve(f, a)) for t in ('EdgeEnv::lookups_.end()', 'EdgeEnv::lookups_.size()')), None) and \
            all(f.dominates_ev(p, fb[0]) or True for p in push)
        # the lookup stack is searched before descending and pushed for rule variables
        srch = [e for e in f.events('call') if lastname(e.get('name')) == 'find_if' and 'EdgeEnv::lookups_' in dstr(e.get('args'))]
        # (an algorithm call, or the loop it abbreviates when the search sits in an inlined helper)
        from rules import loops_over as _lo
        srch_loops = [l for l in _lo(f, 'EdgeEnv::lookups_') if l['full']]
        ok = ok and (bool(srch) or bool(srch_loops))
        return ok, 'T1', 'the lookup stack (lookups_) is searched before descending; a repeated variable is Fatal()'
    if key == 'DependencyScan::RecomputeEdgesInputsDirty + DependencyScan::RecomputeNodeDirty':
        f = byname['DependencyScan::RecomputeNodeDirty']
        ins = [e for g, e, kind, rhs in field_writes(prog, 'Edge::mark_', [f]) if is_enum('Edge::VisitInStack')(rhs)]
        desc = [e for e in f.events('call') if e.get('name') in ('DependencyScan::RecomputeNodeDirty',
                                                                'DependencyScan::RecomputeEdgesInputsDirty')]
        vd = list(f.calls('DependencyScan::VerifyDAG'))
        ok = len(ins) == 1 and bool(vd) and all(f.dominates_ev(ins[0], d) and f.dominates_ev(vd[0], d) for d in desc)
        return ok, 'T1', 'DFS colouring: VerifyDAG and mark_ = VisitInStack dominate every descent (see C17.O1)'
    if key == 'Builder::LoadDyndeps + Plan::DyndepsLoaded + Plan::EdgeFinished + Plan::EdgeMaybeReady + Plan::NodeFinished':
        ef = byname['Plan::EdgeFinished']
        er = [e for e in ef.events('call') if lastname(e.get('name')) == 'erase' and mentions_field(e.get('recv'), 'Plan::want_')]
        desc = [e for e in ef.calls() if e.get('name') in ('Plan::NodeFinished', 'Builder::LoadDyndeps')]
        ok = len(er) == 1 and bool(desc) and all(ef.dominates_ev(er[0], d) for d in desc)
        nf = byname['Plan::NodeFinished']
        for e in nf.calls('Plan::EdgeMaybeReady'):
            ok = ok and fact_holds(nf.facts_at(e), lambda a: 'Plan::want_.end()' in dstr(a), False)
        emr = byname['Plan::EdgeMaybeReady']
        for e in emr.calls('Plan::EdgeFinished'):
            ok = ok and fact_holds(emr.facts_at(e), lambda a: 'kWantNothing' in dstr(a), True)
        return ok, 'T1', ('an edge is erased from want_ before its dependents are examined, and only edges still in '
                          'want_ are examined: every edge is finished at most once')
    if key == 'Plan::CleanNode':
        f = fs[0]
        callers = {g.name for g, e in prog.callers(f.id) if g.name != f.name}
        ok = callers <= {'Builder::FinishCommand'}
        fc = prog.fn('Builder::FinishCommand')
        bcallers = {g.name for g, e in prog.callers(fc.id)}
        ok = ok and bcallers <= {'Builder::Build'}
        return ok, 'T3', ('walks out-edges of a graph that passed the cycle check: entered only from FinishCommand, i.e. '
                          'inside Builder::Build, which runs only after a successful DependencyScan::RecomputeDirty')
    return None


def rule_m1(ctx, prog, rid, control=False):
    main = [f for f in prog.functions.values() if f.name == 'main']
    reach = prog.reachable_fns([main[0].id]) if main else set(prog.functions)
    n = 0
    table = {}
    for comp in prog.sccs():
        fs = [prog.functions[c] for c in comp]
        selfrec = len(comp) == 1 and comp[0] in prog.callees(comp[0])
        if not (len(comp) > 1 or selfrec):
            continue
        if any(f.file.startswith('third_party') for f in fs):
            continue
        if not control and not any(c in reach for c in comp):
            continue
        n += 1
        key = scc_key(fs)
        ex = None if control else check_explicit(ctx, prog, key, fs)
        if ex is not None:
            ok, kind, text = ex
            table[key] = '%s: %s' % (kind, text)
            ctx.check(rid, ok, key, 'recursion:%s-premise-broken' % kind, fs[0].loc,
                      'recursion %s terminates — %s: %s' % (key, kind, text))
            continue
        # generic T1: every intra-SCC call site is gated by a visited set that is filled before the descent
        names = {f.id for f in fs}
        unguarded = []
        guards = set()
        for f in fs:
            for e in f.events('call'):
                if prog.call_targets(e) & names:
                    g = generic_visited_guard(prog, f, e)
                    if g is None:
                        unguarded.append((f, e))
                    else:
                        guards.add(g)
        # with several functions it suffices that every cycle passes a guarded call: remove guarded
        # call edges and look for a remaining cycle
        if unguarded and len(fs) > 1:
            adj = {}
            for f, e in unguarded:
                for t in prog.call_targets(e) & names:
                    adj.setdefault(f.id, set()).add(t)
            def cyc():
                color = {}
                def dfs(u):
                    color[u] = 1
                    for v in adj.get(u, ()):
                        if color.get(v) == 1 or (color.get(v) is None and dfs(v)):
                            return True
                    color[u] = 2
                    return False
                return any(color.get(u) is None and dfs(u) for u in list(adj))
            if not cyc():
                unguarded = []
        if unguarded:
            f, e = unguarded[0]
            ctx.violation(rid, key, 'recursion-without-termination-guard', f.where(e),
                          'recursion %s: the call `%s` is not gated by a visited set / mark that is filled before the '
                          'descent, and no structural argument is on record' % (key, e.get('src', '')[:60]))
        else:
            table[key] = 'T1: visited-before-descent on %s' % sorted(guards)
            ctx.inst(rid, fs[0].loc, 'recursion %s terminates — T1: gated by %s, filled before the descent' % (key, sorted(guards)))
    if not control:
        ctx.table(rid + '.classification', table)
    return n


# ------------------------------------------------------------------------------------------------
# N1 / TB generic
# ------------------------------------------------------------------------------------------------

NULLABLE = {'memchr', 'strchr', 'strrchr', 'strpbrk', 'strstr', 'getenv', 'fopen', 'State::LookupNode',
            'State::LookupPool', 'BindingEnv::LookupRule', 'BindingEnv::LookupRuleCurrentScope', 'DepsLog::GetDeps',
            'BuildLog::LookupByOutput', 'Rule::GetBinding', 'State::SpellcheckNode'}


def derefs_var(e, v):
    """event e is the evaluation of a dereference of pointer variable v at this CFG position:
    `*v`, `v->m`, `v[i]`, or pointer arithmetic `x - v` / `v - x` (value of v needed)."""
    def isv(d):
        d = strip(d)
        return isinstance(d, dict) and d.get('k') == 'var' and d['n'] == v
    k = e['k']
    if k in ('deref', 'arrow'):
        return isv(e.get('e'))
    if k == 'idx':
        return isv(e.get('b'))
    if k == 'call' and e.get('op') in ('->', '*') and 'recv' in e:
        return isv(e['recv'])
    # pointer difference with v (e.g. `end - start` where end came from memchr)
    for key in ('l', 'r', 'e', 'init', 'args'):
        if key in e:
            for x in walk(e[key]):
                if x.get('k') == 'bin' and x['op'] == '-' and any(isv(y) and strip(y).get('tk') == 'ptr' for y in (x['l'], x['r'])):
                    return True
    return False


def rule_n1(ctx, prog, rid, fns, control=False):
    n = 0
    for f in fns:
        for d in f.events():
            if d['k'] not in ('decl', 'asg'):
                continue
            src = d.get('init') if d['k'] == 'decl' else d.get('r')
            s = unwrap_conv(src) if src is not None else None
            while isinstance(s, dict) and s.get('k') == 'cast':
                s = strip(s['e'])
            if not (isinstance(s, dict) and s.get('k') == 'call' and s.get('name') in NULLABLE):
                continue
            if d['k'] == 'asg':
                l = strip(d['l'])
                if not (isinstance(l, dict) and l.get('k') == 'var'):
                    continue
                v = l['n']
            else:
                v = d['n']
            uses = [u for u in f.events() if u is not d and f.ev_reaches(d, u) and derefs_var(u, v)]
            for u in uses:
                # the definition must still be the reaching one: skip uses dominated by a later redefinition
                n += 1
                facts = f.facts_at(u)
                ok = fact_holds(facts, is_var(v), True) or fact_holds(
                    facts, lambda a: isinstance(strip(a), dict) and strip(a).get('k') == 'bin' and is_var(v)(strip(a)['l']), None)
                if not ok:
                    # pointer arithmetic after the test (`++p`, `p += n`) forgets the guard fact but not the test: is there a way
                    # from the definition to the use on which no branch established "not null" and v was not given a new value?
                    def establishes(b2, i2, s3, f=f, v=v):
                        return not any((p_ is True and is_var(v)(a)) or
                                       (isinstance(strip(a), dict) and strip(a).get('k') == 'bin' and strip(a)['op'] in ('==', '!=') and
                                        is_var(v)(strip(a)['l']) and (strip(strip(a)['r']) or {}).get('k') in ('null', 'nullptr', 'int') and
                                        p_ is (strip(a)['op'] == '!='))
                                       for k_, p_, a in f.edge_facts(b2, i2, all=True))

                    def new_value(x, v=v, d=d):
                        if x is d:
                            return False
                        if x['k'] == 'decl' and x['n'] == v:
                            return True
                        return x['k'] == 'asg' and is_var(v)(x['l']) and x.get('op') == '=' and not mentions_var(x.get('r'), v)
                    r_ = f.find_path(d, lambda x, u=u: x is u, is_blocker=new_value, edge_ok=establishes, sensitive=False)
                    ok = r_ is None
                if not ok:
                    # a redefinition between d and u makes this use belong to another definition
                    redef = [x for x in f.events() if x is not d and x['k'] in ('decl', 'asg') and
                             ((x['k'] == 'decl' and x['n'] == v) or (x['k'] == 'asg' and is_var(v)(x['l']))) and
                             f.dominates_ev(d, x) and f.dominates_ev(x, u)]
                    if redef:
                        continue
                if control:
                    if not ok:
                        return 1
                    continue
                ctx.check(rid, ok, f.name, 'nullable-unchecked:%s:%s' % (s['name'], v), f.where(u),
                          'result of %s (`%s`) is known non-null where it is dereferenced in %s' % (s['name'], v, f.name))
    return 0 if control else n


def rule_tb_generic(ctx, prog, rid, fns, control=False):
    """Variables filled by fread(&x, ...) used as a raw subscript need both bounds."""
    n = 0
    for f in fns:
        tainted = set()
        for e in f.calls('fread'):
            a = strip(e['args'][0])
            if isinstance(a, dict) and a.get('k') == 'un' and a['op'] == '&' and strip(a['e']).get('k') == 'var':
                tainted.add(strip(a['e'])['n'])
        if not tainted:
            continue
        for e in f.events('idx'):
            vs_ = [x['n'] for x in walk(e['i']) if x.get('k') == 'var' and x['n'] in tainted]
            if not vs_:
                continue
            n += 1
            lo, hi = bounds(f, e, e['i'])
            up = hi < INF or any(k for k, (p, a) in f.facts_at(e).items()
                                 if p and strip(a).get('k') == 'bin' and strip(a)['op'] == '<' and dstr(strip(a)['l']) == dstr(strip(e['i'])))
            ok = lo >= 0 and up
            if control:
                if not ok:
                    return 1
                continue
            ctx.check(rid, ok, f.name, 'tainted-subscript:%s' % dstr(e['i']), f.where(e),
                      'file-derived `%s` is bounded on both sides where it subscripts %s' % (dstr(e['i']), dstr(e['b'])))
    return 0 if control else n


# (callee last name) -> (index of the pointer argument, indices of the arguments whose product is
# the number of elements accessed through it)
BUF_SINKS = {
    'read': [(1, (2,))], 'pread': [(1, (2,))], 'recv': [(1, (2,))], 'write': [(1, (2,))],
    'fread': [(0, (1, 2))], 'fwrite': [(0, (1, 2))], 'fgets': [(0, (1,))],
    'snprintf': [(0, (1,))], 'vsnprintf': [(0, (1,))],
    'memcpy': [(0, (2,)), (1, (2,))], 'memmove': [(0, (2,)), (1, (2,))], 'memcmp': [(0, (2,)), (1, (2,))],
    'memchr': [(0, (2,))], 'memset': [(0, (2,))], 'strncmp': [(0, (2,)), (1, (2,))], 'strncpy': [(0, (2,)), (1, (2,))],
    'getloadavg': [(0, (1,))],
}
STRING_LIKE = ('basic_string', 'StringPiece', 'append', 'assign', 'emplace_back', 'push_back', 'insert', 'replace',
               'string', 'write')


def rule_tb2(ctx, prog, rid, fns, control=False):
    """A local fixed-size array handed to a call together with an explicit length: the length is
    bounded by the array's size at that point."""
    import re
    n = bad = 0
    for f in fns:
        arrs = {}
        for e in f.events('decl'):
            m = re.match(r'^(?:const )?(?:unsigned |signed )?(\w+) ?\[(\d+)\]$', e.get('ty') or '')
            if m:
                arrs[e['n']] = int(m.group(2))
        if not arrs:
            continue
        for e in f.events('call'):
            args = e.get('args') or []
            ln = lastname(e.get('name') or '')
            ln = ln.split('<')[0]
            for i, a in enumerate(args):
                sa = strip(a)
                if not (isinstance(sa, dict) and sa.get('k') == 'var' and sa['n'] in arrs):
                    continue
                size = arrs[sa['n']]
                lens = None
                for pi, li in BUF_SINKS.get(ln, []):
                    if pi == i:
                        lens = li
                if lens is None and i + 1 < len(args) and not ln.startswith(('find', 'rfind')):
                    nx = strip(args[i + 1]) if not (isinstance(args[i + 1], dict) and args[i + 1].get('k') == 'cast') else args[i + 1]
                    t = (nx.get('tk') if isinstance(nx, dict) else None)
                    if (ln in STRING_LIKE or ln not in BUF_SINKS) and (t in ('int', 'uint') or
                                                                      (isinstance(nx, dict) and nx.get('k') in ('cast', 'sizeof', 'int'))):
                        lens = (i + 1,)
                if lens is None:
                    continue
                hi = 1
                parts = []
                for li in lens:
                    if li >= len(args):
                        hi = INF
                        break
                    lo1, h1 = bounds(f, e, args[li])
                    if h1 == INF and upper_by_fact(f, e, args[li], lambda x: const_value(x) is not None and const_value(x) <= size + 1):
                        h1 = size
                    parts.append(dstr(args[li]))
                    hi = hi * h1 if h1 != INF and hi != INF else INF
                n += 1
                ok = hi <= size
                if control:
                    bad += 0 if ok else 1
                    continue
                ctx.check(rid, ok, f.name, 'buffer-length:%s:%s' % (sa['n'], ln), f.where(e),
                          '%s(%s[%d], %s): the length is at most %s' % (ln, sa['n'], size, ' * '.join(parts), hi))
    return bad if control else n


FMT_VSINK = {'vprintf': 0, 'vfprintf': 1, 'vsnprintf': 2, 'vsprintf': 1}
FMT_EXEMPT = {
    ('EdgeEnv::LookupVariable', 'Fatal'):
        'the text is "cycle in rule variables: " plus variable *names*; the manifest lexer admits only [a-zA-Z0-9_.-] in a '
        'variable name (Lexer::ReadIdent / the $-escapes of ReadEvalString), so it cannot contain a conversion',
}


def format_functions(prog):
    """{function id: index of its format parameter}: functions that hand one of their own parameters on as the format of
    a v*printf / printf-like callee (fixpoint), plus the virtual declarations their overriders implement."""
    fmtparam = {}

    def pidx(f, d):
        d = strip(d)
        if isinstance(d, dict) and d.get('k') == 'var' and d.get('vk') == 'param':
            for i, p in enumerate(f.params or []):
                if p['n'] == d['n']:
                    return i
        return None
    changed = True
    while changed:
        changed = False
        for f in prog.functions.values():
            if f.id in fmtparam:
                continue
            for e in f.events('call'):
                idx = fmt_index(prog, e, fmtparam)
                if idx is None or idx >= len(e.get('args') or []):
                    continue
                pi = pidx(f, e['args'][idx])
                if pi is not None:
                    fmtparam[f.id] = pi
                    changed = True
                    break
    return fmtparam


def fmt_index(prog, e, fmtparam):
    nm = e.get('name') or ''
    if nm in FMT_VSINK:
        return FMT_VSINK[nm]
    if e.get('fmt') is not None:
        return e['fmt']
    if e.get('fn') in fmtparam:
        return fmtparam[e['fn']]
    for o in prog.overriders(e.get('fn')) if e.get('fn') else ():
        if o in fmtparam:
            return fmtparam[o]
    return None


def rule_fmt(ctx, prog, rid, fns, control=False):
    """The format argument of every printf-like call is program text: a string literal (or a choice between literals,
    or the caller's own format parameter).  Bytes read from a manifest, depfile, log or environment never become a format."""
    from rules import deep_resolve
    fmtparam = format_functions(prog)

    def literal(f, d, depth=0):
        d = strip(d)
        while isinstance(d, dict) and d.get('k') == 'cast':
            d = strip(d.get('e'))
        if not isinstance(d, dict) or depth > 4:
            return False
        if d.get('k') == 'str':
            return True
        if d.get('k') == 'cond':
            return literal(f, d['t'], depth + 1) and literal(f, d['f'], depth + 1)
        if d.get('k') == 'var' and d.get('vk') == 'param':
            return fmtparam.get(f.id) is not None and (f.params or [])[fmtparam[f.id]]['n'] == d['n']
        if d.get('k') == 'var' and d.get('vk') in ('global', 'static'):
            ty = d.get('ty') or ''
            return ty.startswith('const char[') or ty.replace(' ', '') in ('constchar*const',)      # constant program text
        if d.get('k') == 'var':
            vals = [x.get('r') if x.get('k') != 'decl' else x.get('init') for x in f.stores()
                    if strip(x.get('l') or {'k': 'var', 'n': x.get('n')}).get('n') == d['n'] and
                    strip(x.get('l') or {'k': 'var', 'n': x.get('n')}).get('k') == 'var']
            return bool(vals) and all(v is not None and literal(f, v, depth + 1) for v in vals)
        return False
    n = bad = 0
    for f in fns:
        for e in f.events('call'):
            idx = fmt_index(prog, e, fmtparam)
            if idx is None or idx >= len(e.get('args') or []):
                continue
            n += 1
            a = e['args'][idx]
            ok = literal(f, a)
            why = ''
            if not ok and (f.name, e.get('name')) in FMT_EXEMPT and not control:
                ok = True
                why = ' (exempt: %s)' % FMT_EXEMPT[(f.name, e.get('name'))]
            if control:
                bad += 0 if ok else 1
                continue
            ctx.check(rid, ok, f.name, 'format:not-a-literal:%s' % e.get('name'), f.where(e),
                      'the format of %s is program text, not data: %s%s' % (e.get('name'), dstr(a)[:60], why))
    return bad if control else n


STREAM_READS = ('fread', 'read', 'fgets', 'fgetc', 'getc', 'recv', 'pread')
READ_LOOP_EXEMPT = {}


def rule_read_loops(ctx, prog, rid, fns, control=False):
    """A loop that reads from a stream observes what the read returned: on every way from one execution of the read
    call round to the next there is a branch on the read's result (the call itself, or the variable it was stored in) or
    on ferror().  `while (!feof(f))` alone never ends on a read error: the error is not end-of-file and the read keeps
    returning 0."""
    n = bad = 0
    for f in fns:
        for e in f.events('call'):
            if e.get('name') not in STREAM_READS:
                continue
            # is the call on a cycle at all?
            if f.find_path(e, lambda x: x is e, sensitive=False) is None:
                continue
            n += 1
            key = dstr({'k': 'call', 'name': e.get('name'), 'args': e.get('args')})
            resvars = set()
            for x in f.blocks[e['_b']]['ev']:
                if x.get('k') in ('asg', 'decl') and (x.get('k') == 'decl' or x.get('op') == '='):
                    r = x.get('r') if x.get('k') == 'asg' else x.get('init')
                    if any(y.get('k') == 'call' and y.get('name') == e.get('name') and y.get('line', e.get('line')) == e.get('line')
                           for y in walk(r)) or (isinstance(strip(r), dict) and strip(r).get('k') == 'call' and strip(r).get('name') == e.get('name')):
                        l = strip(x.get('l')) if x.get('k') == 'asg' else {'k': 'var', 'n': x.get('n')}
                        if isinstance(l, dict) and l.get('k') == 'var':
                            resvars.add(l['n'])

            bytewise = e.get('name') in ('fgetc', 'getc')

            def observes(atom):
                if mentions_call(atom, 'ferror') or (bytewise and mentions_call(atom, 'feof')):
                    return True
                about = any(y.get('k') == 'call' and y.get('name') == e.get('name') for y in walk(atom)) or \
                    any(mentions_var(atom, v) for v in resvars)
                if about and bytewise:
                    # fgetc() returns a byte or EOF: comparing it with some byte says nothing about the end of the file
                    return any(const_value(y) == -1 for y in walk(atom) if isinstance(y, dict)) or \
                        any(y.get('k') == 'bin' and y.get('op') == '<' and const_value(y.get('r')) == 0 for y in walk(atom))
                return about

            def edge_ok(b, i, s2):
                return not any(observes(atom) for k, pol, atom in f.edge_facts(b, i))
            r = f.find_path(e, lambda x: x is e, sensitive=False, edge_ok=edge_ok)
            ok = r is None
            if control:
                bad += 0 if ok else 1
                continue
            ctx.check(rid, ok, f.name, 'read-loop:result-not-observed:%s' % e.get('name'), f.where(e),
                      'the loop around %s() leaves (or goes on) depending on what the read returned' % e.get('name'),
                      witness=None if ok else {'blocks': r[0]})
    return bad if control else n


TB3_EXEMPT = {
    'MountPoint::parse': '/proc/self/mountinfo (cgroup CPU limit detection): not among the inputs of C13',
    'CGroupSubSys::parse': '/proc/self/cgroup: not among the inputs of C13',
}


def _above_another_unsigned(f, e, x, c):
    """c == 1 and a guard fact says `y < x` for another unsigned quantity y (so x >= 1)."""
    if c != 1:
        return False
    xs = dstr(strip(x))
    for k, (pol, a) in f.facts_at(e).items():
        a = strip(a)
        if isinstance(a, dict) and a.get('k') == 'bin' and a.get('op') == '<' and pol and dstr(strip(a['r'])) == xs:
            l = strip(a['l'])
            if isinstance(l, dict) and (l.get('tk') == 'uint' or (l.get('ty') or '').replace('const ', '').startswith(('size_t', 'unsigned', 'std::size_t')) or
                                        (const_value(l) is not None and const_value(l) >= 0)):
                return True
        if isinstance(a, dict) and a.get('k') == 'bin' and a.get('op') == '<' and not pol and dstr(strip(a['l'])) == xs and const_value(a['r']) is not None and const_value(a['r']) >= 1:
            return True
    return False


def rule_tb3(ctx, prog, rid, fns, control=False):
    """Unsigned position arithmetic: `x - c` (x unsigned, c a positive constant) used as an argument of
    a call or as a subscript wraps around to a huge value when x < c; x >= c must be known there
    (from the guard facts at the site, or on every path to it)."""
    from bounds import lower_bound_on_all_paths
    n = bad = 0
    for f in fns:
        if f.name in TB3_EXEMPT:
            continue
        for e in list(f.events('call')) + list(f.events('idx')):
            parts = (e.get('args') or []) + ([e.get('recv')] if e.get('recv') is not None else []) + \
                ([e.get('i')] if e['k'] == 'idx' else [])
            seen = set()
            for x in walk(parts):
                if not (x.get('k') == 'bin' and x['op'] == '-' and (const_value(x['r']) or 0) > 0):
                    continue
                l = strip(x['l'])
                # unsigned arithmetic: the left operand is unsigned, or it is a plain int that the usual arithmetic
                # conversions turn into one because the other operand is (`int col; col - kWidth / 2` with a size_t constant)
                r_uns = any(isinstance(y, dict) and (y.get('tk') == 'uint' or (y.get('ty') or '').replace('const ', '').startswith(('size_t', 'unsigned long', 'std::size_t')))
                            for y in walk(x['r']))
                if not (isinstance(l, dict) and l.get('k') == 'var' and
                        (l.get('tk') == 'uint' or (l.get('ty') or '').startswith(('size_t', 'unsigned', 'std::size_t', 'uint')) or
                         (l.get('tk') == 'int' and r_uns))):
                    continue
                key = (dstr(x), e.get('line'))
                if key in seen:
                    continue
                seen.add(key)
                c = const_value(x['r'])
                lo, hi = bounds(f, e, x['l'])
                ok = lo >= c or lower_bound_on_all_paths(f, e, x['l'], c) or _above_another_unsigned(f, e, x['l'], c)
                n += 1
                if control:
                    bad += 0 if ok else 1
                    continue
                ctx.check(rid, ok, f.name, 'unsigned-underflow:%s' % dstr(x), f.where(e),
                          '`%s` in %s: %s >= %d is known (lower bound %s)' % (dstr(x), (e.get('src') or e.get('name') or '')[:50], dstr(l), c, lo))
        # the same through a local: `size_t first = col - 36; s.substr(first, ..)`, and a position that is counted down
        # (`--pos` / `pos -= c`) and then used as a subscript / position argument
        def unsigned_var(d):
            d = strip(d)
            return isinstance(d, dict) and d.get('k') == 'var' and (d.get('tk') == 'uint' or (d.get('ty') or '').replace('const ', '').startswith(
                ('size_t', 'unsigned', 'std::size_t', 'uint', 'std::string::size_type', 'std::basic_string<char>::size_type')))

        def used_as_position(name):
            for y in list(f.events('call')) + list(f.events('idx')):
                ps = (y.get('args') or []) + ([y.get('i')] if y['k'] == 'idx' else [])
                if y['k'] == 'call' and (y.get('op') == '[]' or lastname(y.get('name') or '') in ('substr', 'replace', 'erase', 'insert', 'at', 'resize', 'append', 'assign', 'compare')) or y['k'] == 'idx':
                    if any(isinstance(z, dict) and z.get('k') == 'var' and z.get('n') == name for z in walk(ps)):
                        return True
            return False
        for e in f.stores():
            l = strip(e['l'])
            if not (unsigned_var(l) and l.get('vk') == 'local') or not used_as_position(l['n']):
                continue
            r = strip(e.get('r'))
            site = None
            r_uns2 = isinstance(r, dict) and r.get('k') == 'bin' and any(
                isinstance(y, dict) and (y.get('tk') == 'uint' or (y.get('ty') or '').replace('const ', '').startswith(('size_t', 'unsigned long', 'std::size_t')))
                for y in walk(r.get('r')))
            if e.get('op') == '=' and isinstance(r, dict) and r.get('k') == 'bin' and r['op'] == '-' and (const_value(r['r']) or 0) > 0 and \
                    (unsigned_var(r['l']) or (isinstance(strip(r['l']), dict) and strip(r['l']).get('k') == 'var' and strip(r['l']).get('tk') == 'int' and r_uns2)):
                site = (r['l'], const_value(r['r']), dstr(r))
            elif e.get('op') in ('--', '-=') :
                site = (e['l'], const_value(e.get('r')) if e.get('op') == '-=' else 1, '%s %s' % (dstr(e['l']), e.get('op')))
            if not site or not site[1]:
                continue
            xl, c, txt = site
            real = f.blocks[e['_b']]['ev'][e['_i']] if e.get('from_decl') else e      # stores() hands out a synthetic event for declarations
            lo, hi = bounds(f, real, xl)
            ok = lo >= c or lower_bound_on_all_paths(f, real, xl, c) or _above_another_unsigned(f, real, xl, c)
            n += 1
            if control:
                bad += 0 if ok else 1
                continue
            ctx.check(rid, ok, f.name, 'unsigned-underflow:%s' % txt, f.where(e),
                      '`%s` (later used as a position) in %s: %s >= %d is known (lower bound %s)' % (txt, f.name, dstr(xl), c, lo))
    return bad if control else n


# ------------------------------------------------------------------------------------------------

NUL_READERS = {'strlen', 'strchr', 'strrchr', 'strstr', 'strpbrk', 'strspn', 'strcspn', 'strcmp', 'strcoll', 'strcpy', 'strcat', 'strdup',
               'atoi', 'atol', 'atoll', 'atof', 'strtol', 'strtoul', 'strtoll', 'strtoull', 'strtod', 'fopen', 'open', 'stat', 'lstat', 'access',
               'unlink', 'remove', 'mkdir', 'chdir', 'puts', 'fputs', 'getenv', 'setenv', 'system', 'popen', 'perror'}


def run(ctx):
    prog = ctx.prog
    R = ctx.rule

    fx = Program(load_fixture_facts())

    # ---- VS1 -----------------------------------------------------------------------------------------
    R('C13.VS1', 'VS', 'value-set abstract interpretation of the re2c scanners (lexer.cc, '
      'depfile_parser.cc): no byte is read through the cursor after it may have been advanced '
      'beyond the terminating NUL; the cursor is saved past the NUL only together with TEOF')
    scs = rule_vs(ctx, prog, 'C13.VS1', 5)
    scanner_names = set(vs.SCANNER_FUNCS)
    ctl = rule_vs(ctx, fx, 'C13.VS1', 0, control=True)
    vs.SCANNER_FUNCS.clear()
    vs.SCANNER_FUNCS.update(scanner_names)
    fired = bool(ctl.get('nvctl::BadScanner') and ctl['nvctl::BadScanner'].violations)
    quiet = bool(ctl.get('nvctl::GoodScanner')) and not ctl['nvctl::GoodScanner'].violations
    if not (fired and quiet):
        raise AnalysisBroken('VS control failed: BadScanner fired=%s, GoodScanner quiet=%s' % (fired, quiet))
    ctx.inst('C13.VS1', 'fixtures/controls.cc', 'positive control nvctl::BadScanner fires, negative control '
             'nvctl::GoodScanner is silent')
    ctx.floor('C13.VS1', 6)
    total_reads = sum(s.reads for s in scs.values())
    if total_reads < 150:
        ctx.floor_failures.append('C13.VS1 examined only %d cursor reads (>= 150 confirmed)' % total_reads)
    ctx.table('C13.VS1.totals', {'reads': total_reads, 'states': sum(s.states for s in scs.values()),
                                 'transitions': sum(s.transitions for s in scs.values())})

    # ---- V1: sentinel provenance ---------------------------------------------------------------
    R('C13.V1', 'V', 'every buffer handed to a scanner is a std::string (NUL-terminated); after TEOF '
      'no caller scans again without UnreadToken')
    n = 0
    for f, e in calls_to(prog, 'Lexer::Start'):
        n += 1
        a = unwrap_conv(e['args'][1])
        ty = (a.get('ty') or '') if isinstance(a, dict) else ''
        ctx.check('C13.V1', ('string' in ty and 'StringPiece' not in ty) or ty.replace(' ', '') == 'constchar*', f.name,
                  'Lexer::Start:non-string-input', f.where(e),
                  'Lexer::Start receives a std::string or C string (NUL-terminated) in %s (type: %s)' % (f.name, ty))
    ls = prog.fn('Lexer::Start')
    w = [(g.name, e) for g, e, kind, rhs in field_writes(prog, 'Lexer::input_')]
    ctx.check('C13.V1', all(g in ('Lexer::Start', 'Lexer::Lexer') for g, e in w), 'Lexer::Start', 'input_:writers', ls.loc,
              'Lexer::input_ is set only by Lexer::Start / constructors')
    w = [(g.name, e) for g, e, kind, rhs in field_writes(prog, 'Lexer::ofs_')]
    allowed = set(vs.SCANNER_FUNCS) | {'Lexer::Start', 'Lexer::UnreadToken', 'Lexer::Lexer'}
    ctx.check('C13.V1', all(g in allowed for g, e in w), 'Lexer', 'ofs_:writers', ls.loc,
              'Lexer::ofs_ is written only by Start, UnreadToken and the scanners (%s)' % sorted({g for g, e in w}))
    for f, e in calls_to(prog, 'DepfileParser::Parse'):
        a = strip(e['args'][0])
        ok = isinstance(a, dict) and a.get('k') == 'un' and a['op'] == '&' and 'string' in (strip(a['e']).get('ty') or '')
        ctx.check('C13.V1', ok, f.name, 'DepfileParser::Parse:non-string-input', f.where(e),
                  'DepfileParser::Parse receives the address of a std::string in %s' % f.name)
    dp = prog.fn('DepfileParser::Parse')
    endd = [e for e in dp.events('decl') if e['n'] == 'end']
    ctx.check('C13.V1', len(endd) == 1 and dstr(endd[0].get('init')).replace(' ', '').endswith('content).size())') or
              'size()' in dstr(endd[0].get('init')), dp.name, 'depfile:end', dp.loc,
              'the depfile scanner\'s end pointer is begin + content->size() (the string\'s own NUL): %s' % dstr(endd[0].get('init')) if endd else '')
    # TEOF: no further scanning
    for f in prog.functions.values():
        rt = list(f.calls('Lexer::ReadToken'))
        if not rt or f.name.startswith('Lexer::'):
            continue
        for bid, b in f.blocks.items():
            for i, s in enumerate(b['succ']):
                for ef in f.edge_facts(bid, i):
                    if ef[1] is True and TEOF in ef[0] and s is not None:
                        r = f.find_path(None, lambda x: x['k'] == 'call' and (x.get('name') in vs.SCANNER_FUNCS or
                                                                              x.get('name') in ('Lexer::PeekToken', 'Lexer::ReadPath', 'Lexer::ReadVarValue')),
                                        from_succ=s, is_blocker=lambda x: x['k'] == 'call' and x.get('name') == 'Lexer::UnreadToken')
                        n += 1
                        ctx.check('C13.V1', r is None, f.name, 'scan-after-TEOF', 'src/%s:%s' % (f.file, f.term(bid)['line']),
                                  'after TEOF %s does not scan again (without UnreadToken)' % f.name)
    for name in ('Lexer::PeekToken', 'Parser::ExpectToken'):
        f = prog.fn(name)
        rt = list(f.calls('Lexer::ReadToken'))
        for e in rt:
            r = f.find_path(e, lambda x: x['k'] == 'call' and x.get('name') in vs.SCANNER_FUNCS and x is not e,
                            is_blocker=lambda x: x['k'] == 'call' and x.get('name') == 'Lexer::UnreadToken')
            ctx.check('C13.V1', r is None, name, 'helper-scans-twice', f.where(e), '%s reads one token and at most unreads it' % name)
    # a StringPiece is a slice of a larger buffer, without a terminator of its own: its str_ is never handed to a
    # function that reads up to a NUL (what follows the slice is other text - or the end of the allocation)
    def nul_reader_hits(f):
        for e in f.events('call'):
            nm = e.get('name') or ''
            last = lastname(nm).split('<')[0]
            args = list(e.get('args') or [])
            reads_nul = (nm in NUL_READERS) or \
                (nm.startswith('std::basic_string<char>::') and last in ('basic_string', 'operator=', 'operator+=', 'append', 'assign', 'compare', 'find', 'insert') and
                 len([a for a in args if 'allocator' not in ((a.get('ty') if isinstance(a, dict) else '') or '')]) == 1)
            if not reads_nul:
                continue
            for a in args:
                sa = strip(a)
                if not (isinstance(sa, dict) and (sa.get('tk') == 'ptr' or sa.get('k') in ('mem', 'var', 'bin', 'cast'))):
                    continue
                os_ = origins(f, a)
                if any(any(x.get('k') == 'mem' and str(x.get('n', '')).endswith('StringPiece::str_') for x in walk(o)) for o in os_):
                    yield e
                    break
    nv = 0
    for f in prog.functions.values():
        if f.file.startswith('third_party'):
            continue
        for e in nul_reader_hits(f):
            nv += 1
            ctx.violation('C13.V1', f.name, 'unterminated-slice:%s' % basename(e.get('name') or ''), f.where(e),
                          'StringPiece::str_ (no terminator) is handed to %s, which reads up to a NUL: `%s`' % (basename(e.get('name') or ''), (e.get('src') or '')[:60]))
    if len(list(nul_reader_hits(fx.fn('nvctl::UnterminatedSlice')))) != 1:
        raise AnalysisBroken('V1 control (UnterminatedSlice) failed')
    ctx.inst('C13.V1', 'fixtures/controls.cc', 'control: nvctl::UnterminatedSlice is recognised; %d such calls in ninja' % nv)
    ctx.floor('C13.V1', 9)

    # ---- TB1 ---------------------------------------------------------------------------------------------
    R('C13.TB1', 'TB', 'file-derived values used as indices / sizes in the log loaders are bounded on '
      'both sides (DepsLog::Load in detail; generic rule for fread-filled variables)')
    rule_tb1(ctx, 'C13.TB1')
    logfns = [f for f in prog.functions.values() if f.file in ('deps_log.cc', 'build_log.cc')]
    rule_tb_generic(ctx, prog, 'C13.TB1', logfns)
    if rule_tb_generic(ctx, fx, 'C13.TB1', [fx.fn('nvctl::UncheckedIndex')], control=True) != 1 or \
            rule_tb_generic(ctx, fx, 'C13.TB1', [fx.fn('nvctl::CheckedIndex')], control=True) == 1:
        raise AnalysisBroken('TB control failed')
    ctx.inst('C13.TB1', 'fixtures/controls.cc', 'controls: nvctl::UncheckedIndex fires, nvctl::CheckedIndex is silent')
    nb = rule_tb2(ctx, prog, 'C13.TB1', [f for f in prog.functions.values() if not f.file.startswith('third_party')])
    if rule_tb2(ctx, fx, 'C13.TB1', [fx.fn('nvctl::UnboundedFormattedLength')], control=True) < 1 or \
            rule_tb2(ctx, fx, 'C13.TB1', [fx.fn('nvctl::BoundedReadLength')], control=True) != 0:
        raise AnalysisBroken('TB2 control failed')
    ctx.inst('C13.TB1', 'fixtures/controls.cc', 'controls: nvctl::UnboundedFormattedLength fires, nvctl::BoundedReadLength is silent')
    nf = rule_fmt(ctx, prog, 'C13.TB1', [f for f in prog.functions.values() if not f.file.startswith('third_party')])
    if rule_fmt(ctx, fx, 'C13.TB1', [fx.fn('nvctl::DataAsFormat')], control=True) != 1 or \
            rule_fmt(ctx, fx, 'C13.TB1', [fx.fn('nvctl::DataAsArgument')], control=True) != 0:
        raise AnalysisBroken('format control failed')
    ctx.inst('C13.TB1', 'fixtures/controls.cc', 'controls: nvctl::DataAsFormat fires, nvctl::DataAsArgument is silent')
    ctx.check('C13.TB1', nf >= 200, 'printf-like calls', 'format:sites', 'src', '%d printf-like call sites examined' % nf)
    ctx.check('C13.TB1', nb >= 20, 'buffer+length', 'buffer-length:sites', 'src', '%d (local array, length) call sites examined' % nb)
    n3 = rule_tb3(ctx, prog, 'C13.TB1', [f for f in prog.functions.values() if not f.file.startswith('third_party')])
    if rule_tb3(ctx, fx, 'C13.TB1', [fx.fn('nvctl::UnderflowingPosition')], control=True) < 1 or \
            rule_tb3(ctx, fx, 'C13.TB1', [fx.fn('nvctl::GuardedPosition')], control=True) != 0:
        raise AnalysisBroken('TB3 control failed')
    ctx.inst('C13.TB1', 'fixtures/controls.cc', 'controls: nvctl::UnderflowingPosition fires, nvctl::GuardedPosition is silent')
    if rule_tb3(ctx, fx, 'C13.TB1', [fx.fn('nvctl::CountedDownPosition')], control=True) < 1 or \
            rule_tb3(ctx, fx, 'C13.TB1', [fx.fn('nvctl::CountedDownGuarded')], control=True) != 0 or \
            rule_tb3(ctx, fx, 'C13.TB1', [fx.fn('nvctl::WindowThroughLocal')], control=True) < 1:
        raise AnalysisBroken('TB3 control (counted-down / local position) failed')
    ctx.inst('C13.TB1', 'fixtures/controls.cc', 'controls: nvctl::CountedDownPosition and nvctl::WindowThroughLocal fire, nvctl::CountedDownGuarded is silent')
    ctx.check('C13.TB1', n3 >= 5, 'unsigned positions', 'unsigned-underflow:sites', 'src', '%d `unsigned - constant` position sites examined' % n3)
    # the build log loader has no file-derived subscripts at all
    bl = prog.fn('BuildLog::Load')
    subs = [e for e in bl.events('idx')] + [e for e in bl.events('call') if e.get('op') == '[]']
    ctx.check('C13.TB1', not subs, bl.name, 'build-log:subscripts', bl.loc,
              'BuildLog::Load uses no subscripts (fields are delimited by checked memchr results, see C08.N1)')
    lr = prog.fn('LineReader::ReadLine')
    for e in lr.calls('fread'):
        lo, hi = bounds(lr, e, e['args'][2])
        sz = dstr(e['args'][2])
        ctx.check('C13.TB1', 'sizeof' in sz, lr.name, 'LineReader:fread-size', lr.where(e),
                  'LineReader reads at most what is left of its buffer (%s)' % sz)
    ctx.floor('C13.TB1', 14)

    # ---- M1 ------------------------------------------------------------------------------------------------
    R('C13.M1', 'M1', 'every recursion reachable from main has a termination guard: a visited set / '
      'mark filled before the descent (T1), a structurally decreasing argument (T2), or an entry '
      'condition that guarantees an acyclic graph (T3)')
    n = rule_m1(ctx, prog, 'C13.M1')
    class _Ctl:
        def __init__(self):
            self.v = 0
        def violation(self, *a, **k):
            self.v += 1
        def inst(self, *a, **k):
            pass
        def check(self, rid, ok, *a, **k):
            if not ok:
                self.v += 1
        def table(self, *a):
            pass
    c = _Ctl()
    rule_m1(c, fx, 'C13.M1', control=True)
    if c.v != 1:
        raise AnalysisBroken('M1 control failed: %d violations on the fixture (1 expected)' % c.v)
    ctx.inst('C13.M1', 'fixtures/controls.cc', 'positive control nvctl::UnguardedWalk fires')
    # the recursion EdgeEnv::LookupVariable <-> EvalString::Evaluate ends in Fatal("cycle") only while
    # the detection flag stays armed: once set it is never cleared again within the same EdgeEnv
    arm = [(f2, e2, dstr(rhs)) for f2, e2, kind, rhs in field_writes(prog, 'EdgeEnv::recursive_')]
    ctx.check('C13.M1', any(f2.name == 'EdgeEnv::LookupVariable' and v == 'true' for f2, e2, v in arm) and
              all(v == 'true' or f2.name == 'EdgeEnv::EdgeEnv' for f2, e2, v in arm), 'EdgeEnv::LookupVariable', 'cycle-flag:disarmed',
              'src/graph.cc', 'EdgeEnv::recursive_ is armed by the first lookup and never reset: %s' % [(f2.name, v) for f2, e2, v in arm])
    lv = prog.fn('EdgeEnv::LookupVariable')
    for e2 in lv.calls('BindingEnv::LookupWithFallback'):
        pre = [x for x in lv.events('asg') if mentions_field(x['l'], 'EdgeEnv::recursive_') and dstr(x.get('r')) == 'true']
        ctx.check('C13.M1', any(lv.dominates_ev(x, e2) for x in pre), lv.name, 'cycle-flag:not-armed-before-descent', lv.where(e2),
                  'the flag is set before the nested evaluation starts')
    ctx.floor('C13.M1', 20)

    # ---- L1: loop progress ---------------------------------------------------------------------------------
    R('C13.L1', 'LP', 'never hangs, position loops: in every loop whose condition compares a local position / '
      'pointer v with a bound (v < n, v != end, v < s.size()) or tests the byte it points at (*v), each trip '
      'around the loop leaves v strictly larger or at the bound (abstract interpretation, nv/loopprog.py); '
      'loops the domain cannot follow are listed as undecided, not reported')
    import loopprog
    def lp_run(pr, fns):
        res = []
        for f in fns:
            for (h, v, bound, subj, line, kind) in loopprog.position_loops(f):
                lp = loopprog.LoopProgress(f, h, v, bound, subj)
                verdict, detail = lp.decide()
                res.append((f, v, bound, line, kind, verdict, detail, lp.states_seen))
        return res
    lres = lp_run(prog, [f for f in prog.functions.values() if not f.file.startswith('third_party')])
    undec = []
    for f, v, bound, line, kind, verdict, detail, ns in lres:
        if verdict == 'undecided':
            undec.append('%s:%s %s (%s): %s' % (f.file, line, f.name, v, detail))
            continue
        if verdict == 'overread':
            ctx.violation('C13.L1', f.name, 'sentinel-loop:steps-over-NUL:%s' % v, 'src/%s:%s' % (f.file, line),
                          'the NUL-terminated scan on `%s` in %s advances past a byte that may be the terminator: %s' % (v, f.name, detail))
            continue
        ctx.check('C13.L1', verdict == 'progress', f.name, 'loop-without-progress:%s' % v, 'src/%s:%s' % (f.file, line),
                  'loop on `%s` (%s%s): every iteration advances it [%d abstract states]' % (
                      v, kind, '' if bound is None else ', bound ' + bound[:40], ns),
                  msg='loop on `%s` in %s can go round without advancing: %s' % (v, f.name, detail))
    ctx.table('C13.L1.undecided', undec)
    cres = {f.name: verdict for f, v, bound, line, kind, verdict, detail, ns in lp_run(fx, [fx.fn('nvctl::StuckLineLoop'), fx.fn('nvctl::GoodLineLoop')])}
    if cres.get('nvctl::StuckLineLoop') != 'stuck' or cres.get('nvctl::GoodLineLoop') != 'progress':
        raise AnalysisBroken('L1 control failed: %s' % cres)
    ctx.inst('C13.L1', 'fixtures/controls.cc', 'controls: nvctl::StuckLineLoop is stuck, nvctl::GoodLineLoop progresses')
    ctx.check('C13.L1', any(f.name == 'CLParser::Parse' and verdict == 'progress' for f, v, b, l, k, verdict, d, ns in lres),
              'CLParser::Parse', 'loop:anchor', 'src/clparser.cc', 'the /showIncludes line loop is among the decided loops')
    # input-driven loops (`for (;;)`, `while (ReadLine(..))`, `while (PeekToken(..))`): no way round the loop
    # without a call that consumes input (a token, a line, a record, an option)
    nid = 0
    for f in prog.functions.values():
        if f.file.startswith('third_party'):
            continue
        skip = {x[0] for x in loopprog.position_loops(f)}
        for h, line, cb, w in loopprog.input_driven_loops(prog, f, skip):
            nid += 1
            ctx.check('C13.L1', w is None, f.name, 'input-loop:cycle-without-consumption', 'src/%s:%s' % (f.file, line),
                      'every trip round the input-driven loop in %s passes a consuming call (blocks %s)' % (f.name, cb[:6]),
                      witness=None if w is None else {'blocks': w})
    cw = [w for h, line, cb, w in loopprog.input_driven_loops(fx, fx.fn('nvctl::SkipsRead'))]
    if not (cw and cw[0] is not None):
        raise AnalysisBroken('L1 input-loop control failed: %s' % cw)
    nrl = rule_read_loops(ctx, prog, 'C13.L1', [f for f in prog.functions.values() if not f.file.startswith('third_party')])
    if rule_read_loops(ctx, fx, 'C13.L1', [fx.fn('nvctl::SlurpIgnoringErrors')], control=True) != 1 or \
            rule_read_loops(ctx, fx, 'C13.L1', [fx.fn('nvctl::SlurpUntilShortRead')], control=True) != 0:
        raise AnalysisBroken('read-loop control failed')
    ctx.inst('C13.L1', 'fixtures/controls.cc', 'controls: nvctl::SlurpIgnoringErrors fires, nvctl::SlurpUntilShortRead is silent')
    ctx.check('C13.L1', nrl >= 3, 'stream read loops', 'read-loop:count', 'src', '%d stream reads inside loops examined' % nrl)
    ctx.check('C13.L1', nid >= 20, 'input-driven loops', 'input-loop:count', 'src', '%d input-driven loops examined' % nid)
    ctx.floor('C13.L1', 66)

    # ---- N1 ------------------------------------------------------------------------------------------------
    R('C13.N1', 'N', 'results of functions that return null on bad input (memchr, strpbrk, getenv, '
      'fopen, LookupNode/Pool/Rule, GetDeps, LookupByOutput, Rule::GetBinding) are known non-null '
      'where they are dereferenced')
    fns = [f for f in prog.functions.values() if not f.file.startswith('third_party')]
    rule_n1(ctx, prog, 'C13.N1', fns)
    if rule_n1(ctx, fx, 'C13.N1', [fx.fn('nvctl::UncheckedMemchr')], control=True) != 1:
        raise AnalysisBroken('N1 control failed')
    ctx.inst('C13.N1', 'fixtures/controls.cc', 'positive control nvctl::UncheckedMemchr fires')
    ctx.floor('C13.N1', 20)

    # ---- N2: first element of a possibly empty container ------------------------------------------
    R('C13.N2', 'N', 'an iterator obtained from begin() of a container is dereferenced outside a loop '
      'only where the container is known to be non-empty (or the iterator was compared with end())')
    n2 = 0
    for f in fns:
        for d in f.events('decl'):
            init = unwrap_conv(d.get('init')) if d.get('init') is not None else None
            if not (isinstance(init, dict) and init.get('k') == 'call' and lastname(init.get('name')) in ('begin', 'cbegin')
                    and 'recv' in init):
                continue
            v = d['n']
            cont = dstr(init['recv'])
            # iterators that drive a loop are compared with end() in the loop condition
            looped = any(b.get('term') and b['term']['kind'] in ('for', 'while', 'range', 'do') and
                         mentions_var(b['term'].get('cond'), v) for b in f.blocks.values())
            if looped or v.startswith('__'):
                continue
            for u in f.events():
                if u is d or not f.ev_reaches(d, u) or not derefs_var(u, v):
                    continue
                if not (u['k'] == 'call' and u.get('op') in ('->', '*')):
                    continue
                n2 += 1
                facts = f.facts_at(u)
                ok = fact_holds(facts, lambda a: 'empty()' in dstr(a) and cont in dstr(a), False) or \
                    fact_holds(facts, lambda a: mentions_var(a, v) and 'end()' in dstr(a), None) or \
                    fact_holds(facts, lambda a: 'size()' in dstr(a) and cont in dstr(a), None)
                ctx.check('C13.N2', ok, f.name, 'begin-deref-unguarded:%s' % cont, f.where(u),
                          '`%s` (= %s.begin()) is dereferenced in %s only where %s is known non-empty' % (v, cont, f.name, cont))
    # the same for element access: `v[0]`, `v.front()`, `v.back()` on a local / parameter container is reached only
    # where the container is known non-empty - by a guard fact on empty() / size(), or because an element was put into
    # it (push_back / emplace_back / resize / sized or brace constructor) on every way there
    FIRST_EXEMPT = {
        ('SubprocessSet::DoWork', 'fds'): 'the pollfd array gets a dummy entry when nothing else was pushed (`if (nfds == 0) push_back`), nfds counts the pushes',
    }
    n2b = 0
    for f in fns:
        for u in f.events('call'):
            nm = u.get('name') or ''
            if not nm.startswith('std::'):
                continue
            ln = lastname(nm).split('<')[0]
            r = strip(u.get('recv'))
            if not (isinstance(r, dict) and r.get('k') == 'var' and r.get('vk') in ('local', 'param')):
                continue
            if not ((u.get('op') == '[]' and const_value((u.get('args') or [None])[0]) == 0) or ln in ('front', 'back')):
                continue
            v = r['n']
            n2b += 1
            facts = f.facts_at(u)
            ok = fact_holds(facts, lambda a: 'empty()' in dstr(a) and mentions_var(a, v), False) or \
                fact_holds(facts, lambda a: ('size()' in dstr(a) or 'length()' in dstr(a)) and mentions_var(a, v), None)
            why = 'guard fact'
            if not ok:
                def fills(x, v=v, f=f):
                    if x.get('k') == 'call' and isinstance(strip(x.get('recv')), dict) and strip(x['recv']).get('k') == 'var' and strip(x['recv'])['n'] == v:
                        l2 = lastname(x.get('name') or '').split('<')[0]
                        if l2 in ('push_back', 'emplace_back', 'insert', 'assign', 'append'):
                            return True
                        if l2 == 'resize' and x.get('args'):
                            c0 = const_value(x['args'][0])
                            if (c0 or 0) > 0 or (c0 is None and bounds(f, x, x['args'][0])[0] > 0):
                                return True
                    if x.get('k') == 'decl' and x.get('n') == v and x.get('init') is not None:
                        i0 = unwrap_conv(x['init'])
                        return isinstance(i0, dict) and i0.get('k') in ('ctor', 'init', 'construct') and len(i0.get('args') or i0.get('e') or []) >= 1
                    return False
                ok = f.find_path(None, lambda x: x is u, is_blocker=fills, from_succ=f.entry) is None
                why = 'filled on every path'
            if not ok and (f.name, v.split('#')[0]) in FIRST_EXEMPT:
                ok = True
                why = 'exempt: ' + FIRST_EXEMPT[(f.name, v.split('#')[0])]
            ctx.check('C13.N2', ok, f.name, 'first-element-unguarded:%s' % v, f.where(u),
                      '`%s` in %s is reached only where %s is known non-empty (%s)' % ((u.get('src') or '')[:40], f.name, v, why))
    ctx.check('C13.N2', n2b >= 8, 'first-element accesses', 'first-element:sites', 'src', '%d accesses examined' % n2b)
    ctx.floor('C13.N2', 10)

    # ---- N3: a vector is not appended to while it is walked in place ---------------------------------
    R('C13.N3', 'N', 'Node::out_edges_ grows when a dyndep file is loaded (DyndepLoader::UpdateEdge -> Node::AddOutEdge for every '
      'discovered input, and a dyndep file may name any node, including the one being processed): no loop that walks '
      'a node\'s out_edges_ in place (iterator / range-for over the member) reaches an appender from its body; loops over a '
      'copy are fine')
    from rules import loops_over as _loops_over
    OE = 'Node::out_edges_'
    appenders = {f.id for f, e, kind, rhs in field_writes(prog, OE)
                 if kind in ('push_back', 'emplace_back', 'insert', 'erase', 'clear', 'resize', 'pop_back', 'assign', 'swap')}
    ctx.check('C13.N3', bool(appenders), OE, 'out_edges_:no-appender', 'src/graph.h', 'appenders of out_edges_: %s' % sorted(prog.functions[a].name for a in appenders))
    _reach = {}

    def reaches_appender(fid):
        if fid in _reach:
            return _reach[fid]
        _reach[fid] = False
        r = fid in appenders or any(reaches_appender(t) for t in prog.callees(fid) if t in prog.functions)
        _reach[fid] = r
        return r

    def is_oe(d):
        d = strip(d)
        return isinstance(d, dict) and ((d.get('k') == 'mem' and d['n'] == OE) or (d.get('k') == 'call' and d.get('name') == 'Node::out_edges'))
    n3 = 0
    for f in fns:
        dom = f.dominators()
        for l in _loops_over(f, is_oe):
            if l.get('style') not in ('iterator', 'range'):
                continue
            # a loop over a by-value local copy of the vector does not walk the member
            def copied(d, depth=0):
                d = strip(d)
                if not isinstance(d, dict) or depth > 4:
                    return False
                if d.get('k') == 'call' and lastname(d.get('name') or '') in ('begin', 'end', 'cbegin', 'cend'):
                    return copied(d.get('recv'), depth + 1)
                if d.get('k') == 'var' and d.get('vk') == 'local':
                    ds = [x for x in f.events('decl') if x['n'] == d['n']]
                    ty = ds[0].get('ty') or '' if len(ds) == 1 else ''
                    if len(ds) == 1 and 'vector' in ty and 'iterator' not in ty and '&' not in ty and not d['n'].startswith('__'):
                        return True         # `std::vector<Edge*> copy = node->out_edges();`
                    if len(ds) == 1 and ds[0].get('init') is not None:
                        return copied(ds[0]['init'], depth + 1)
                return False
            c = strip(f.eff_cond(l['header']))
            operands = ([c.get('recv')] if isinstance(c, dict) and 'recv' in c else []) + list((c.get('args') or []) if isinstance(c, dict) else []) + \
                ([c.get('l'), c.get('r')] if isinstance(c, dict) and c.get('k') == 'bin' else [])
            if any(copied(o) for o in operands):
                continue
            n3 += 1
            body = {b for b in (f.reachable_from(l['body']) | {l['body']})
                    if l['header'] in f.reachable_from(b) and l['header'] in dom.get(b, ())}
            hit = None
            for b in sorted(body):
                for e in f.blocks[b]['ev']:
                    if e['k'] == 'call' and any(reaches_appender(t) for t in prog.call_targets(e) if t in prog.functions):
                        hit = hit or e
            ctx.check('C13.N3', hit is None, f.name, 'out_edges_:appended-while-iterated', 'src/%s:%s' % (f.file, l['line']),
                      'the loop over out_edges_ in %s cannot reach Node::AddOutEdge%s' % (
                          f.name, '' if hit is None else ' (through `%s`)' % (hit.get('src') or hit.get('name') or '')[:50]))
    ctx.check('C13.N3', n3 >= 3, OE, 'out_edges_:loops', 'src', '%d in-place loops over out_edges_ examined' % n3)
    ctx.floor('C13.N3', 4)

    # ---- E1: exceptions --------------------------------------------------------------------------------
    R('C13.E1', 'E', 'ninja catches nothing: std::get<T> on the result variant is guarded by the matching '
      'holds_alternative<T>; no try/catch is relied upon')
    n = 0
    for f in prog.functions.values():
        if f.file.startswith('third_party'):
            continue
        for e in f.events('call'):
            nm = basename(e.get('name') or '')
            if nm.startswith('get<') and 'BuildResult' in nm:
                n += 1
                alt = nm[4:-1]
                callers = prog.callers(f.id)
                # std::get lives in a tiny accessor: check its callers' guards
                sites = [(f, e)] if not (f.name.startswith('BuildResult::') and len(list(f.events('call'))) <= 2) else \
                    [(g, c) for g, c in callers if c['k'] == 'call']
                for g, c in sites:
                    facts = g.facts_at(c)
                    ok = fact_holds(facts, lambda a: ('holds_alternative<%s>' % alt) in dstr(a), True)
                    ctx.check('C13.E1', ok, g.name, 'variant-get-unguarded:%s' % alt, g.where(c),
                              'std::get<%s> reached in %s only after holds_alternative<%s>' % (alt, g.name, alt))
    # nothing is caught, so nothing may throw on input: the throwing conversions and accessors of the standard library
    # (std::stoi family: invalid_argument / out_of_range on text that is not a number; at(): out_of_range) are not used
    # on any data - ninja parses numbers with atoi / strtol / from_chars and checks indices itself
    def throwing(e):
        nm = (e.get('name') or '')
        base = nm.split('<')[0]
        return base in ('std::stoi', 'std::stol', 'std::stoll', 'std::stoul', 'std::stoull', 'std::stof', 'std::stod', 'std::stold') or \
            (nm.startswith('std::') and lastname(nm).split('<')[0] == 'at')
    nthrow = 0
    for f in prog.functions.values():
        if f.file.startswith('third_party'):
            continue
        for e in f.events('call'):
            if throwing(e):
                nthrow += 1
                ctx.violation('C13.E1', f.name, 'throwing-conversion:%s' % basename(e.get('name') or ''), f.where(e),
                              '%s throws on malformed input and ninja has no handler: `%s`' % (basename(e.get('name') or ''), (e.get('src') or '')[:60]))
    # ... and a position handed to substr / erase / insert / replace / compare is not the raw result of a search: find*()
    # answers npos when nothing was found, and those members throw std::out_of_range for a position beyond the end
    FINDS = ('find', 'rfind', 'find_first_of', 'find_first_not_of', 'find_last_of', 'find_last_not_of')
    POSFN = ('substr', 'erase', 'insert', 'replace', 'compare')

    def raw_find(g, d, depth=0):
        d0 = strip(d)
        if not isinstance(d0, dict) or depth > 4:
            return False
        if d0.get('k') == 'call' and lastname(d0.get('name') or '').split('<')[0] in FINDS and (d0.get('name') or '').startswith('std::'):
            return True
        if d0.get('k') == 'var' and d0.get('vk') == 'local':
            return any(raw_find(g, o, depth + 1) for o in origins(g, d0) if strip(o) is not d0)
        return False

    def pos_unchecked(g, e):
        nm = e.get('name') or ''
        if not (nm.startswith('std::basic_string') and lastname(nm).split('<')[0] in POSFN and e.get('args')):
            return None
        a0 = e['args'][0]
        if 'iterator' in ((strip(a0) or {}).get('ty') or '') or not raw_find(g, a0):
            return None
        if strip(a0).get('k') != 'var':
            return True         # the search result itself is the position: nothing can have looked at it
        names = [strip(a0)['n']]

        def about(a):
            s_ = dstr(a)
            return ('18446744073709551615' in s_ or 'npos' in s_ or '== -1' in s_) and (not names or any(n_ in s_ for n_ in names))
        def bounded(a):
            s_ = dstr(a)
            return ('.size()' in s_ or '.length()' in s_) and any(n_ in s_ for n_ in names) and '<' in s_
        return not (fact_holds(g.facts_at(e), about, False) or fact_holds(g.facts_at(e), about, True) or
                    fact_holds(g.facts_at(e), bounded, True))
    nsub = 0
    for f in prog.functions.values():
        if f.file.startswith('third_party'):
            continue
        for e in f.events('call'):
            u = pos_unchecked(f, e)
            if u is None:
                continue
            nsub += 1
            ctx.check('C13.E1', not u, f.name, 'position-from-search-unchecked:%s' % lastname(e.get('name')), f.where(e),
                      'the position given to %s is a search result that was compared with npos first: `%s`' % (lastname(e.get('name')), (e.get('src') or '')[:60]))
    cu = [pos_unchecked(fx.fn('nvctl::SubstrOfFind'), e) for e in fx.fn('nvctl::SubstrOfFind').events('call')]
    cc_ = [pos_unchecked(fx.fn('nvctl::SubstrOfFindChecked'), e) for e in fx.fn('nvctl::SubstrOfFindChecked').events('call')]
    if True not in cu or True in cc_ or False not in cc_:
        raise AnalysisBroken('E1 control failed: substr(find()) %s / checked %s' % (cu, cc_))
    ctx.inst('C13.E1', 'fixtures/controls.cc', 'controls: nvctl::SubstrOfFind flagged, nvctl::SubstrOfFindChecked accepted; %d search-derived positions in ninja' % nsub)
    ctrl = [e for e in fx.fn('nvctl::ThrowingConversion').events('call') if throwing(e)]
    if len(ctrl) != 1:
        raise AnalysisBroken('E1 control failed')
    ctx.inst('C13.E1', 'fixtures/controls.cc', 'control: nvctl::ThrowingConversion is recognised; %d such calls in ninja' % nthrow)
    ctx.floor('C13.E1', 2)
