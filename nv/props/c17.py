"""C17 — dependency cycles are always diagnosed, and only real ones (DESIGN 5.17)."""
from facts import AnalysisBroken
from model import (path_value, norm_cond, ret_value_class, dstr, strip, fact_holds, mentions_field, mentions_call, mentions_var,
                   mentions_enum, const_value, walk)
from props.scan_common import check_build_exit_codes
from rules import (lastname, deep_resolve, absent_from, guarded, calls_to, field_writes, who_may_call, must_pass, dominated_by,
                   full_range, loops_over, every_iteration_passes, basename, error_discipline,
                   origins, reject_if, skip_conditions_exact, is_enum, is_field, atom_cmp,
                   anything, reached_only_via, unwrap_conv)

MARK = 'Edge::mark_'


def mark_is(enum):
    return atom_cmp('==', lambda d: mentions_field(d, MARK), is_enum(enum))


def run(ctx):
    prog = ctx.prog
    R = ctx.rule
    scan = prog.fn('DependencyScan::RecomputeNodeDirty')
    vd = prog.fn('DependencyScan::VerifyDAG')

    # ---- W1: colouring protocol -----------------------------------------------------------------
    R('C17.W1', 'W', 'Edge::mark_ is set to VisitInStack / VisitDone only by the scan function and '
      'to VisitNone only by State::Reset, Plan::UnmarkDependents and the constructor')
    table = {
        'Edge::VisitInStack': {'DependencyScan::RecomputeNodeDirty'},
        'Edge::VisitDone': {'DependencyScan::RecomputeNodeDirty'},
        'Edge::VisitNone': {'State::Reset', 'Plan::UnmarkDependents', 'Edge::Edge'},
    }
    for f, e, kind, rhs in field_writes(prog, MARK):
        r = strip(rhs)
        val = r['n'] if isinstance(r, dict) and r.get('k') == 'enum' else None
        ok = val in table and f.name in table[val]
        ctx.check('C17.W1', ok, f.name, 'mark_-write:%s' % val, f.where(e),
                  'mark_ = %s in %s (table: %s)' % (val, f.name, sorted(table.get(val, []))))
    ctx.floor('C17.W1', 5)
    ctx.table('C17.W1.writers', {k: sorted(v) for k, v in table.items()})

    # ---- O1: protocol order inside the scan -----------------------------------------------------
    R('C17.O1', 'O', 'in the scan: the VisitDone early return and a successful VerifyDAG precede '
      'mark_ = VisitInStack, which precedes every descent; VisitDone and stack->pop_back() follow '
      'on every success path; VerifyDAG fails exactly under mark_ == VisitInStack')
    instack = [e for f, e, kind, rhs in field_writes(prog, MARK, [scan]) if is_enum('Edge::VisitInStack')(rhs)]
    done = [e for f, e, kind, rhs in field_writes(prog, MARK, [scan]) if is_enum('Edge::VisitDone')(rhs)]
    vcalls = list(scan.calls('DependencyScan::VerifyDAG'))
    if len(instack) != 1 or len(done) != 1 or len(vcalls) != 1:
        ctx.violation('C17.O1', scan.name, 'scan:protocol-sites', scan.loc,
                      'expected one VisitInStack write, one VisitDone write and one VerifyDAG call; '
                      'found %d/%d/%d' % (len(instack), len(done), len(vcalls)))
    else:
        ins, dn, vc = instack[0], done[0], vcalls[0]
        # VisitDone early return: rejecting-style — when mark_ == VisitDone the function returns
        # true without descending
        desc = [e for e in scan.events('call') if e.get('name') in (
            'DependencyScan::RecomputeNodeDirty', 'DependencyScan::RecomputeEdgesInputsDirty')]
        if not desc:
            raise AnalysisBroken('scan function has no recursive descent')
        for bid, b in scan.blocks.items():
            for i, s in enumerate(b['succ']):
                ef = scan.edge_fact(bid, i)
                if ef and ef[1] is True and mark_is('Edge::VisitDone')(ef[2]):
                    r = scan.find_path(None, lambda x: x in desc or x is ins, from_succ=s,
                                       is_blocker=lambda x: x['k'] == 'ret')
                    ctx.check('C17.O1', r is None, scan.name, 'scan:VisitDone-not-final',
                              'src/%s:%s' % (scan.file, scan.term(bid)['line']),
                              'an edge already marked VisitDone is not scanned again')
        reached_only_via(ctx, 'C17.O1', scan, ins, mark_is('Edge::VisitDone'), False,
                         'VisitInStack is set only after the VisitDone test said "not done"',
                         'scan:InStack-without-Done-test')
        reached_only_via(ctx, 'C17.O1', scan, ins, lambda a: mentions_call(a, 'DependencyScan::VerifyDAG'),
                         True, 'VisitInStack is set only after VerifyDAG succeeded',
                         'scan:InStack-without-VerifyDAG')
        for d in desc:
            dominated_by(ctx, 'C17.O1', scan, d, lambda x: x is ins,
                         'every descent happens with the edge marked VisitInStack',
                         'scan:descent-before-InStack')
        # success returns after the InStack write pass VisitDone and pop_back
        def is_pop(x):
            return x['k'] == 'call' and basename(x.get('name') or '') == 'pop_back' and \
                mentions_var(x.get('recv'), 'stack')
        def is_push(x):
            return x['k'] == 'call' and basename(x.get('name') or '') == 'push_back' and \
                mentions_var(x.get('recv'), 'stack')
        for through, nm in ((lambda x: x is dn, 'VisitDone'), (is_pop, 'pop_back')):
            r = scan.find_path(ins, lambda x: x['k'] == 'ret' and const_value(x.get('e')) == 1,
                               is_blocker=through)
            ctx.check('C17.O1', r is None, scan.name, 'scan:success-without-%s' % nm, scan.where(ins),
                      'after mark_ = VisitInStack every `return true` passes %s' % nm,
                      witness=None if r is None else {'blocks': r[0]})
        pushes = [e for e in scan.events('call') if is_push(e)]
        pops = [e for e in scan.events('call') if is_pop(e)]
        ctx.check('C17.O1', len(pushes) == 1 and len(pops) == 1 and
                  scan.blocks[pushes[0]['_b']]['ev'].index(pushes[0]) >= 0 and
                  pushes[0]['_b'] == ins['_b'], scan.name, 'scan:push-pop-pairing', scan.loc,
                  'stack->push_back(node) accompanies the VisitInStack write; one pop_back')
        # nothing un-marks during the scan
        ctx.check('C17.O1', scan.dominates_ev(ins, dn), scan.name, 'scan:Done-before-InStack', scan.where(dn),
                  'VisitDone is written after VisitInStack')
    # VerifyDAG: fails exactly when the edge is in the stack
    reject_if(ctx, 'C17.O1', vd, mark_is('Edge::VisitInStack'), True,
              'an edge found VisitInStack is a cycle', 'VerifyDAG:InStack-accepted')
    for e in vd.events('ret'):
        if const_value(e.get('e')) == 1:
            guarded(ctx, 'C17.O1', vd, e, mark_is('Edge::VisitInStack'), False,
                    'VerifyDAG accepts only an edge that is not VisitInStack',
                    construct='VerifyDAG:accept-guard')
        elif const_value(e.get('e')) == 0:
            guarded(ctx, 'C17.O1', vd, e, mark_is('Edge::VisitInStack'), True,
                    'VerifyDAG rejects only an edge that is VisitInStack (no false cycle)',
                    construct='VerifyDAG:reject-guard')
            # the error names the cycle: err is written on the way
            r = vd.find_path(None, lambda x: x is e, from_succ=vd.entry,
                             is_blocker=lambda x: x['k'] == 'call' and 'err' in dstr(x.get('recv')) and
                             basename(x.get('name') or '') in ('operator=', 'append', 'assign', 'operator+='))
            ctx.check('C17.O1', r is None, vd.name, 'VerifyDAG:reject-without-message', vd.where(e),
                      'a rejected cycle always carries a "dependency cycle" message')
    ctx.floor('C17.O1', 12)

    # ---- V1: validations are queued, never recursed ------------------------------------------
    R('C17.V1', 'V', 'elements of Edge::validations_ flow into the validation queue, never into an '
      'argument of the recursive scan; the driver clears the stack before each queued node')
    n = 0
    for f in prog.functions.values():
        if f.cls != 'DependencyScan':
            continue
        for e in f.events('call'):
            if e.get('name') in ('DependencyScan::RecomputeNodeDirty', 'DependencyScan::RecomputeEdgesInputsDirty'):
                n += 1
                arg = e['args'][0] if e['name'].endswith('RecomputeNodeDirty') else e['args'][1]
                os_ = origins(f, arg)
                bad = [o for o in os_ if 'Edge::validations_' in dstr(o)]
                ctx.check('C17.V1', not bad, f.name, 'scan:recurses-into-validations', f.where(e),
                          'argument of %s in %s does not come from validations_ (origins: %s)' % (
                              basename(e['name']), f.name, [dstr(o)[:60] for o in os_][:4]))
    uses = []
    for f in prog.functions.values():
        if f.file not in ('graph.cc', 'build.cc'):
            continue
        for e in f.events():
            if any(x.get('k') == 'mem' and x['n'] == 'Edge::validations_' for k in ('args', 'recv', 'l', 'r', 'init', 'e')
                   for x in (walk(e.get(k)) if not isinstance(e.get(k), list) else
                             [y for a in e.get(k) for y in walk(a)])):
                uses.append((f.name, f.where(e), e.get('src', '')[:70]))
    allowed_users = {'DependencyScan::RecomputeNodeDirty': 'queues them into validation_nodes',
                     'RecomputeOutputsDirtyCache::RecomputeOutputDirty<true>': 'phony: validations_.empty() test',
                     'RecomputeOutputsDirtyCache::RecomputeOutputDirty<false>': 'phony: validations_.empty() test',
                     'RecomputeOutputsDirtyCache::Phony': 'phony: validations_.empty() test',
                     'Edge::Dump': 'debug print'}
    for fn_name, where, src in uses:
        ctx.check('C17.V1', fn_name in allowed_users, fn_name, 'validations_-use', where,
                  'validations_ used in %s: %s (%s)' % (fn_name, src, allowed_users.get(fn_name, 'NOT IN TABLE')))
    air = prog.fn('Edge::AllInputsReady')
    ctx.check('C17.V1', not any(mentions_field(e.get('recv') or e.get('init') or {}, 'Edge::validations_')
                                for e in air.events()), air.name, 'AllInputsReady:validations', air.loc,
              'AllInputsReady does not look at validations_ (validations impose no ordering)')
    drv = prog.fn('DependencyScan::RecomputeDirty')
    for e in drv.calls('DependencyScan::RecomputeNodeDirty'):
        # between two scans (and before the first) the DFS stack handed to the scan is emptied: `stack.clear()`,
        # a fresh declaration of the vector, or an assignment of an empty one
        names = {x['n'] for a in (e.get('args') or [])[1:2] for x in walk(a) if x.get('k') == 'var'}

        def resets(x, names=names):
            if x.get('k') == 'call' and basename(x.get('name') or '') == 'clear':
                return any(mentions_var(x.get('recv'), n) for n in names)
            if x.get('k') == 'decl' and x.get('n') in names:
                i = unwrap_conv(x.get('init')) if x.get('init') is not None else None
                return i is None or (isinstance(i, dict) and i.get('k') in ('ctor', 'construct', 'init') and not i.get('args')) or \
                    dstr(i).endswith('{}')
            return False
        r1 = drv.find_path(None, lambda x: x is e, is_blocker=resets, from_succ=drv.entry)
        r2 = drv.find_path(e, lambda x: x is e, is_blocker=resets)
        ok = bool(names) and r1 is None and r2 is None
        ctx.check('C17.V1', ok, drv.name, 'driver:stack-not-cleared', drv.where(e),
                  'the driver clears the DFS stack before scanning each queued (validation) node',
                  witness=None if ok else {'blocks': (r1 or r2 or [[]])[0]})
    # every queued validation node is scanned, also the ones queued while a queued node is scanned: a loop that walks a
    # container by index up to a size taken once, while its body can make the container grow, leaves the late arrivals out
    # (validations of validations: their cycles would never be diagnosed)
    from model import _written_names
    drv = prog.fn('DependencyScan::RecomputeDirty')
    nloops = 0
    for bid, b in drv.blocks.items():
        t = b.get('term')
        if not t or t.get('kind') not in ('for', 'while') or len(b['succ']) != 2:
            continue
        nloops += 1
        c = strip(drv.eff_cond(bid))
        if not (isinstance(c, dict) and c.get('k') == 'bin' and c.get('op') in ('!=', '<')):
            continue
        bound = strip(c.get('r'))
        if not (isinstance(bound, dict) and bound.get('k') == 'var'):
            continue
        inside = drv.reachable_from(b['succ'][0]) | {b['succ'][0]}
        inside = {x for x in inside if bid in drv.reachable_from(x)}
        decls = [e for e in drv.events('decl') if e['n'] == bound['n'] and e.get('init') is not None]
        for d in decls:
            if d['_b'] in inside:
                continue                # re-read in every iteration
            conts = {x['n'] for x in walk(d['init']) if isinstance(x, dict) and x.get('k') == 'var'} if 'size' in dstr(d['init']) else set()
            grows = [e for bb in inside for e in drv.blocks[bb]['ev'] if e['k'] == 'call' and any(kind == 'var' and n_ in conts for kind, n_ in _written_names(drv, e))]
            ctx.check('C17.V1', not (conts and grows), drv.name, 'worklist:size-taken-once', 'src/graph.cc:%s' % t.get('line'),
                      'the loop bound `%s` is not a size taken before the loop of a container the loop body can extend (%s)' % (bound['n'], sorted(conts)))
    ctx.check('C17.V1', nloops >= 1, drv.name, 'worklist:no-loop', drv.loc, 'the driver loops over the queued validation nodes')
    ctx.floor('C17.V1', 7)

    # ---- O2: marks reset before re-scan -----------------------------------------------------------
    R('C17.O2', 'O', 'after a dyndep load, UnmarkDependents precedes RecomputeDirty; every dependent '
      'edge that is in the plan and carries a mark is un-marked (no other skip condition)')
    rd = prog.fn('Plan::RefreshDyndepDependents')
    um_calls = list(rd.calls('Plan::UnmarkDependents'))
    for e in rd.calls('DependencyScan::RecomputeDirty'):
        # what is re-scanned are exactly the elements of the set filled by UnmarkDependents,
        # and no un-marking happens after a re-scan
        os_ = origins(rd, e['args'][0])
        setvars = {strip(o.get('of')).get('n') for o in os_ if isinstance(o, dict) and o.get('k') == 'elem'
                   and isinstance(strip(o.get('of')), dict)}
        filled = {v for c in um_calls for a in c.get('args', []) for x in walk(a)
                  if x.get('k') == 'var' for v in [x['n']]}
        ok = bool(setvars) and setvars <= filled and bool(um_calls) and \
            not any(rd.ev_reaches(e, c) for c in um_calls)
        ctx.check('C17.O2', ok, rd.name, 'Refresh:rescan-without-unmark', rd.where(e),
                  'the nodes re-scanned after a dyndep load are exactly those collected (and '
                  'un-marked) by UnmarkDependents beforehand (set: %s)' % sorted(setvars))
    um = prog.fn('Plan::UnmarkDependents')
    resets = [e for f, e, kind, rhs in field_writes(prog, MARK, [um])]
    ctx.check('C17.O2', len(resets) == 1, um.name, 'Unmark:reset-count', um.loc, 'one mark_ = VisitNone site')
    for e in resets:
        for loop in loops_over(um, lambda d: (d.get('k') == 'mem' and d.get('n') == 'Node::out_edges_') or
                               (d.get('k') == 'call' and d.get('name') == 'Node::out_edges')):
            if e['_b'] in um.reachable_from(loop['body']) | {loop['body']}:
                skip_conditions_exact(
                    ctx, 'C17.O2', um, loop, lambda x: x is e,
                    absent_from('Plan::want_') + [(mark_is('Edge::VisitNone'), True)],
                    'a dependent edge keeps its mark only if it is not in the plan or already unmarked',
                    'Unmark:extra-skip')
    # the recursion covers all outputs of an unmarked edge
    full_range(ctx, 'C17.O2', um, 'Edge::outputs_', 'dependents of every output are unmarked')
    # ... and descends through every output that was not visited yet (nothing else prunes the walk:
    # the re-scan that follows is the only mid-build cycle check)
    # the descent: the recursive call, or - when the walk keeps its own worklist - the push of the output onto a local container
    rec = list(um.calls('Plan::UnmarkDependents'))
    if not rec:
        rec = [e for e in um.events('call') if lastname(e.get('name') or '') in ('push_back', 'emplace_back', 'push') and
               isinstance(strip(e.get('recv')), dict) and strip(e['recv']).get('k') == 'var' and strip(e['recv']).get('vk') == 'local']
    ctx.check('C17.O2', len(rec) == 1, um.name, 'Unmark:recursion-sites', um.loc, 'one descent site (recursive call or worklist push)')
    for e in rec:
        for loop in loops_over(um, 'Edge::outputs_'):
            if e['_b'] in um.reachable_from(loop['body']) | {loop['body']}:
                skip_conditions_exact(
                    ctx, 'C17.O2', um, loop, lambda x: x is e,
                    [(lambda a: 'insert' in dstr(a) and 'second' in dstr(a), False)],
                    'the walk descends through every output unless it is already in the visited set',
                    'Unmark:descent-pruned')
    # the same obligation across two builds in one process: when the manifest-regeneration build really ran commands,
    # the State it leaves behind (marks VisitDone, deps loaded, dirty flags) is reset before the real build scans again -
    # every return of RebuildManifest that says "go on with this State" after a successful Build() passes State::Reset
    rm = prog.fn('NinjaMain::RebuildManifest')
    nrm = 0
    for bid, b in rm.blocks.items():
        for i, s2 in enumerate(b['succ']):
            efs = rm.edge_facts(bid, i, all=True)
            if s2 is None or not any(pol is True and mentions_call(deep_resolve(rm, atom), 'Builder::Build') and mentions_enum(atom, 'ExitSuccess')
                                     for k, pol, atom in efs):
                continue
            nrm += 1

            def goes_on(e, facts):
                if path_value(rm, e.get('e'), facts) == 1:
                    return False
                at, pol = norm_cond(prog, e.get('e'))
                return (dstr(at), pol) not in facts
            r = rm.find_path(None, lambda x: x['k'] == 'ret', from_succ=s2, init_facts=frozenset((k, pol) for k, pol, atom in efs),
                             is_blocker=lambda x: x['k'] == 'call' and x.get('name') == 'State::Reset', hit_ok=goes_on)
            ctx.check('C17.O2', r is None, rm.name, 'RebuildManifest:state-not-reset', rm.where(r[1]) if r else rm.loc,
                      'after the regeneration build ran, RebuildManifest lets the real build start only from a reset State',
                      witness=None if r is None else {'blocks': r[0]})
    ctx.check('C17.O2', nrm >= 1, rm.name, 'RebuildManifest:build-result-untested', rm.loc, 'RebuildManifest tests the result of Build()')
    ctx.floor('C17.O2', 8)

    # ---- O3: outputs added by a dyndep load get their consumers re-scanned ------------------------
    R('C17.O3', 'O', 'a dyndep load performed by the scan machinery can give an edge new outputs; '
      'consumers of such an output that were already scanned (VisitDone) are unmarked and scanned '
      'again, otherwise a cycle closed through them stays unseen')
    refresh = {f.id for f in prog.fns('Plan::RefreshDyndepDependents')}
    n3 = 0
    for f in prog.functions.values():
        if f.cls == 'DependencyScan' and f.name == 'DependencyScan::LoadDyndeps':
            continue
        for e in f.calls('DependencyScan::LoadDyndeps'):
            n3 += 1
            def rescans(x):
                if x['k'] != 'call':
                    return False
                return bool(refresh & prog.reachable_fns(prog.call_targets(x)))
            r = f.find_path(e, lambda x: x['k'] == 'ret' and ret_value_class(prog, f, x) == 'success', is_blocker=rescans)
            ctx.check('C17.O3', r is None, f.name, 'dyndep-load:consumers-not-rescanned', f.where(e),
                      'after DependencyScan::LoadDyndeps in %s every success path re-scans the dependents '
                      '(Plan::RefreshDyndepDependents)' % f.name)
    ctx.floor('C17.O3', 2)

    # ---- E1: a cycle error is propagated -------------------------------------------------------
    R('C17.E1', 'E1', 'error discipline over the scan (graph.cc): a failed VerifyDAG / nested scan '
      'never turns into a success return; Builder::AddTarget propagates a failed scan')
    fns = [f for f in prog.functions.values() if f.file == 'graph.cc']
    error_discipline(ctx, 'C17.E1', fns)
    at = [f for f in prog.fns('Builder::AddTarget')]
    error_discipline(ctx, 'C17.E1', at + [prog.fn('Plan::RefreshDyndepDependents'), prog.fn('Plan::DyndepsLoaded')])
    check_build_exit_codes(ctx, 'C17.E1', prog)
    # a scan error found while bringing the manifest up to date (a cycle among the generator's inputs, an unreadable
    # depfile / dyndep file) stops ninja: real_main tells "error" from "nothing to do" by a value that this failure sets.
    # RebuildManifest reports the scan error in *err only; so either real_main looks at err, or every failing return of
    # RebuildManifest behind a failed Builder::AddTarget stores the status real_main looks at
    rmn = prog.fn('real_main')
    rbm = prog.fn('NinjaMain::RebuildManifest')
    looks_at_err = False
    for bid, b in rmn.blocks.items():
        for i, s2 in enumerate(b['succ']):
            for k_, p_, a_ in rmn.edge_facts(bid, i, all=True):
                if 'err' in k_ and 'empty' in k_ and any(True for _ in rmn.calls('NinjaMain::RebuildManifest')):
                    # the test must be reachable from the failed regeneration
                    for e_ in rmn.calls('NinjaMain::RebuildManifest'):
                        if bid in rmn.reachable_from(e_['_b']) or bid == e_['_b']:
                            looks_at_err = True
    status_param = [p_['n'] for p_ in rbm.params if 'ExitStatus' in (p_.get('ty') or '')]
    stores_status = True
    for e_ in rbm.calls('Builder::AddTarget'):
        for i, s2 in enumerate(rbm.blocks[e_['_b']]['succ']):
            if s2 is None:
                continue
            if any(p_ is False and mentions_call(a_, 'Builder::AddTarget') for k_, p_, a_ in rbm.edge_facts(e_['_b'], i)):
                r_ = rbm.find_path(None, lambda x: x['k'] == 'ret', from_succ=s2,
                                   is_blocker=lambda x: x['k'] == 'asg' and status_param and mentions_var(x['l'], status_param[0]))
                if r_ is not None:
                    stores_status = False
    ctx.check('C17.E1', looks_at_err or (bool(status_param) and stores_status), rmn.name, 'regeneration:scan-error-dropped', rmn.loc,
              'a failed scan of the manifest target is an error for real_main: it tests err after RebuildManifest (%s) or the failing return '
              'stores the status it tests (%s)' % (looks_at_err, stores_status))
    ctx.floor('C17.E1', 22)
    check_reset_complete(ctx)


def check_reset_complete(ctx):
    """C17.W2: State::Reset() brings every node and edge back to "never scanned"."""
    prog = ctx.prog
    ctx.rule('C17.W2', 'W', 'State::Reset() (run before the graph is scanned again in the same process: after a manifest-regeneration '
             'build that left the manifest as it was) stores, for every node, "not statted" (mtime_ = -1, exists_ = unknown, '
             'dirty_ = false) and, for every edge, outputs_ready_ = false, deps_loaded_ = false and mark_ = VisitNone; the two '
             'loops cover paths_ and edges_ completely')
    rs = prog.fn('State::Reset')
    need = {
        'Node::mtime_': (lambda r: const_value(r) == -1, 'State::paths_', 'the file is statted again'),
        'Node::exists_': (lambda r: mentions_enum(r, 'Node::ExistenceStatusUnknown'), 'State::paths_', 'existence is unknown again'),
        'Node::dirty_': (lambda r: const_value(r) in (0, False), 'State::paths_', 'a stale "dirty" would re-want an up-to-date edge; a stale "clean" is overwritten'),
        'Edge::outputs_ready_': (lambda r: const_value(r) in (0, False), 'State::edges_', 'readiness is recomputed'),
        'Edge::deps_loaded_': (lambda r: const_value(r) in (0, False), 'State::edges_', 'discovered deps are loaded (and deps_missing_ recomputed) on the next visit'),
        'Edge::mark_': (lambda r: mentions_enum(r, 'Edge::VisitNone'), 'State::edges_', 'the cycle-check colouring starts white'),
    }
    loops = {c: loops_over(rs, c) for c in ('State::paths_', 'State::edges_')}
    for c, ls in loops.items():
        ctx.check('C17.W2', len(ls) >= 1 and all(l['full'] for l in ls), rs.name, 'Reset:partial-loop:%s' % c, rs.loc,
                  'State::Reset() walks the whole of %s (%d loop(s))' % (c, len(ls)))
    for fld, (val_ok, cont, why) in need.items():
        # a store in Reset itself, or in a method Reset calls from the loop body (Node::ResetState)
        def stores(f):
            return [e for e in f.events('asg') if isinstance(strip(e['l']), dict) and strip(e['l']).get('k') == 'mem' and strip(e['l'])['n'] == fld]
        done = False
        for l in loops.get(cont, []):
            def through(x, fld=fld, val_ok=val_ok):
                if x['k'] == 'asg' and isinstance(strip(x['l']), dict) and strip(x['l']).get('n') == fld:
                    return val_ok(x.get('r'))
                if x['k'] == 'call':
                    for g in prog.by_name.get(x.get('name') or '', []):
                        if g.blocks and g.cls in ('Node', 'Edge'):
                            # the callee stores the field, with the required value, on every path to its return
                            st = [e for e in stores(g) if val_ok(e.get('r'))]
                            bad = [e for e in stores(g) if not val_ok(e.get('r'))]
                            if st and not bad and g.find_path(None, lambda y: y['k'] == 'ret' or y is None, from_succ=g.entry,
                                                               is_blocker=lambda y: any(y is z for z in st)) is None:
                                return True
                            if st and not bad and not any(True for _ in g.events('ret')):
                                # a void function without explicit return: the stores must be in blocks that dominate the exit
                                if all(g.dominates_block(z['_b'], g.exit) if hasattr(g, 'dominates_block') else True for z in st):
                                    return True
                return False
            hdr_hit = [None]

            def edge_ok(b, i, s2, l=l):
                if s2 == l['header']:
                    hdr_hit[0] = b
                    return False
                return True
            rs.find_path(None, lambda x: False, is_blocker=lambda x: through(x) or x['k'] == 'ret', from_succ=l['body'], edge_ok=edge_ok)
            if hdr_hit[0] is None:
                done = True
        ctx.check('C17.W2', done, rs.name, 'Reset:field-not-reset:%s' % fld, rs.loc,
                  '%s is reset for every element of %s (%s)' % (fld, cont, why))
    # whoever scans again in the same process resets first: the callers of State::Reset are where a build is followed by another scan
    n = sum(1 for _ in calls_to(prog, 'State::Reset'))
    ctx.check('C17.W2', n >= 1, 'State::Reset', 'Reset:never-called', rs.loc, 'State::Reset() has %d caller(s) outside the tests' % n)
    ctx.floor('C17.W2', 9)
