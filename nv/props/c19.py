"""C19 — dry runs and query tools observe without disturbing, and tell the truth (DESIGN 5.19)."""
from facts import AnalysisBroken, load_fixture_facts
from model import (norm_cond, Program, dstr, strip, fact_holds, mentions_field, mentions_call, mentions_var,
                   mentions_enum, const_value, walk)
from rules import (local_container_pushes, guarded, calls_to, field_writes, who_may_call, full_range, loops_over,
                   every_iteration_passes, basename, origins, is_var, is_enum, lastname,
                   dominated_by, reached_only_via)
import charset
import re

READ_ONLY = ['commands', 'inputs', 'multi-inputs', 'query', 'targets', 'rules', 'graph', 'compdb',
             'compdb-targets', 'deps', 'missingdeps']
FORBIDDEN = ('spawn', 'fs-write', 'fs-open-write', 'fs-remove', 'fs-mkdir', 'fs-rename', 'fs-truncate', 'kill')


def tool_table(prog):
    """{tool name: function id} from the kTools initialiser in NinjaMain/ChooseTool."""
    g = None
    for name, v in prog.globals.items():
        if name.endswith('::kTools') or name == 'kTools':
            g = v
    if g is None or 'init' not in g:
        raise AnalysisBroken('kTools table not found')
    out = {}
    for row in g['init'].get('e', []):
        items = row.get('e', []) if isinstance(row, dict) and row.get('k') == 'init' else []
        nm = None
        fn = None
        for it in items:
            si = strip(it)
            if isinstance(si, dict) and si.get('k') == 'str' and nm is None:
                nm = si['v']
            for x in walk(it):
                if x.get('k') in ('fn', 'memfn') or (x.get('k') == 'un' and x.get('op') == '&'):
                    pass
            for x in walk(it):
                if x.get('k') == 'fn':
                    fn = x['n']
        if nm and fn:
            out[nm] = fn
    return out


def run(ctx):
    prog = ctx.prog
    R = ctx.rule

    # ---- EF1: read-only tools ---------------------------------------------------------------------
    R('C19.EF1', 'EF', 'no call path from a read-only tool (commands, inputs, multi-inputs, query, '
      'targets, rules, graph, compdb, compdb-targets, deps, missingdeps) to a process spawn or a '
      'file-system write / remove / mkdir / rename / truncate')
    tools = tool_table(prog)
    ctx.table('C19.EF1.tools', {k: v.split('(')[0] for k, v in tools.items()})
    eff = prog.effects()
    for t in READ_ONLY:
        fid = tools.get(t)
        if fid is None or fid not in prog.functions:
            ctx.violation('C19.EF1', t, 'tool:not-in-table', 'src/ninja.cc', 'tool `%s` is not in the kTools table' % t)
            continue
        bad = [x for x in eff[fid] if x in FORBIDDEN]
        for x in bad:
            ctx.violation('C19.EF1', prog.functions[fid].name, 'tool-effect:%s' % x, prog.functions[fid].loc,
                          'read-only tool `%s` can reach a %s effect' % (t, x), witness={'call_chain': prog.effect_path(fid, x)})
        if not bad:
            ctx.inst('C19.EF1', prog.functions[fid].loc, 'tool `%s` (%s): reachable effects %s — none forbidden' % (
                t, prog.functions[fid].name, sorted(eff[fid])))
    # positive control
    fx = Program(load_fixture_facts())
    fe = fx.effects()
    if 'fs-remove' not in fe[fx.fn('nvctl::ReadOnlyTool').id]:
        raise AnalysisBroken('EF control failed: nvctl::ReadOnlyTool does not show fs-remove')
    ctx.inst('C19.EF1', 'fixtures/controls.cc', 'positive control nvctl::ReadOnlyTool reaches fs-remove through a helper')
    # logs: loading may unlink / truncate / recompact (meaning-preserving maintenance)
    notes = {}
    for name in ('BuildLog::Load', 'DepsLog::Load'):
        f = prog.fn(name)
        notes[name] = sorted(x for x in eff[f.id] if x in FORBIDDEN)
    ctx.table('C19.EF1.log_loading_effects', notes)
    ctx.note('Loading the logs before RUN_AFTER_LOGS tools may unlink an unreadable log, truncate a torn deps log '
             'and recompact: meaning-preserving maintenance (C08/C09), reported here, not counted.')
    ctx.floor('C19.EF1', 12)

    # ---- EF2: dry-run guards ----------------------------------------------------------------------
    R('C19.EF2', 'EF', 'under -n: the dry-run runner is selected and never spawns or tracks edges, '
      'the logs are not opened for writing, deps extraction / recording, the lock file and restat '
      'pruning are guarded by !dry_run')
    build = prog.fn('Builder::Build')
    for e in build.events('new'):
        ty = e.get('ty') or ''
        if 'DryRunCommandRunner' in ty:
            guarded(ctx, 'C19.EF2', build, e, lambda a: mentions_field(a, 'BuildConfig::dry_run'), True,
                    'the dry-run runner is chosen under dry_run', construct='runner:dry-under-real')
    for e in build.calls('CommandRunner::factory'):
        guarded(ctx, 'C19.EF2', build, e, lambda a: mentions_field(a, 'BuildConfig::dry_run'), False,
                'the real runner is chosen only when not dry_run', construct='runner:real-under-dry')
    dr = prog.classes.get('DryRunCommandRunner')
    if dr is None:
        raise AnalysisBroken('class DryRunCommandRunner not found')
    meths = sorted(m['name'].split('::')[-1] for m in dr['methods'])
    ctx.table('C19.EF2.dry_runner_methods', meths)
    # Builder::Cleanup deletes the (modified) outputs of GetActiveEdges(): for the dry-run runner
    # that set must be empty — either the default implementation or an override returning nothing
    for m in dr['methods']:
        if m['name'].endswith('::GetActiveEdges'):
            f = prog.functions.get(m['id'])
            rets = list(f.events('ret')) if f else []
            ok = bool(rets) and all((strip(r.get('e')) or {}).get('k') == 'ctor' and not strip(r['e']).get('args') for r in rets)
            ctx.check('C19.EF2', ok, m['name'], 'dry-runner:reports-active-edges', f.loc if f else 'src/build.cc',
                      'DryRunCommandRunner::GetActiveEdges returns no edges (nothing for Cleanup to delete under -n)')
    ctx.inst('C19.EF2', 'src/build.cc:%s' % dr['line'], 'dry-run runner methods: %s' % meths)
    for m in dr['methods']:
        f = prog.functions.get(m['id'])
        if f is not None:
            bad = [x for x in eff[f.id] if x in FORBIDDEN]
            ctx.check('C19.EF2', not bad, f.name, 'dry-runner:effects', f.loc, '%s has no file-system or process effect' % f.name)
    cr = prog.fn('CommandRunner::GetActiveEdges') if prog.has_fn('CommandRunner::GetActiveEdges') else None
    if cr is not None:
        rets = list(cr.events('ret'))
        ctx.check('C19.EF2', len(rets) == 1 and (strip(rets[0].get('e')) or {}).get('k') == 'ctor' and not (strip(rets[0]['e']).get('args')),
                  cr.name, 'default-active-edges', cr.loc, 'the default GetActiveEdges() is empty')
    for name in ('NinjaMain::OpenBuildLog', 'NinjaMain::OpenDepsLog'):
        f = prog.fn(name)
        for e in f.calls():
            if e.get('name') in ('BuildLog::OpenForWrite', 'DepsLog::OpenForWrite'):
                guarded(ctx, 'C19.EF2', f, e, lambda a: mentions_field(a, 'BuildConfig::dry_run'), False,
                        '%s only when not dry_run' % e['name'], construct='log-open-under-dry:%s' % e['name'])
    fc = prog.fn('Builder::FinishCommand')
    for nm in ('Builder::ExtractDeps', 'DepsLog::RecordDeps', 'Plan::CleanNode'):
        for e in fc.calls(nm):
            guarded(ctx, 'C19.EF2', fc, e, lambda a: mentions_field(a, 'BuildConfig::dry_run'), False,
                    '%s only when not dry_run' % nm, construct='dry-run-unguarded:%s' % nm)
    for e in fc.calls('DiskInterface::Stat'):
        guarded(ctx, 'C19.EF2', fc, e, lambda a: mentions_field(a, 'BuildConfig::dry_run'), False,
                'outputs are stat\'ed only when not dry_run', construct='dry-run-unguarded:Stat')
    se = prog.fn('Builder::StartEdge')
    for e in se.calls('DiskInterface::WriteFile'):
        if mentions_field(e.get('args'), 'Builder::lock_file_path_'):
            # in the world where dry_run is set (every test of it comes out true) the lock file write is unreachable
            def dry_world(b, i, s2):
                return not any(pol is False and mentions_field(atom, 'BuildConfig::dry_run') and
                               not (isinstance(strip(atom), dict) and strip(atom).get('k') == 'bin' and strip(atom)['op'] in ('&&', '||'))
                               for k, pol, atom in se.edge_facts(b, i))
            r = se.find_path(None, lambda x: x is e, from_succ=se.entry, edge_ok=dry_world)
            ok = r is None
            okc = any(mentions_field(atom, 'BuildConfig::dry_run') for b in se.blocks for i in range(len(se.blocks[b]['succ']))
                      for k, pol, atom in se.edge_facts(b, i))
            ctx.check('C19.EF2', ok and okc, se.name, 'lock-file-under-dry', se.where(e),
                      'the lock file write is unreachable when dry_run is set (path search with every dry_run test true)',
                      witness=None if r is None else {'blocks': r[0]})
    # output removal (Builder::CleanupEdge deletes outputs, depfile and lock file) is confined to edges the runner was
    # running when the build was interrupted: the loop over GetActiveEdges() in Cleanup (empty under -n, above) and, in
    # Build, the command that was itself killed by the signal (an interrupted result; the dry-run runner produces none).
    # A call elsewhere has to be conditioned on !dry_run.
    ce_sites = list(calls_to(prog, 'Builder::CleanupEdge'))
    for f2, e2 in ce_sites:
        if f2.name == 'Builder::Cleanup':
            ok = any(e2['_b'] in f2.reachable_from(l['body']) | {l['body']} for l in loops_over(f2, lambda d: True)
                     if any(mentions_call(o, 'CommandRunner::GetActiveEdges') for o in origins(f2, {'k': 'var', 'n': l['var'], 'vk': 'local'})))
            why = 'inside the loop over the runner\'s active edges'
        else:
            def licence(k, pol, atom):
                return (pol is False and mentions_field(atom, 'BuildConfig::dry_run') and '&&' not in k and '||' not in k) or \
                    (pol is True and '&&' not in k and
                     all('holds_alternative<BuildResult::Interrupted>' in p_ or 'BuildResult::interrupted()' in p_ or
                         ('ExitInterrupted' in p_ and 'exit_status' in p_) for p_ in k.split(' || ')))
            r = f2.find_path(None, lambda x: x is e2, from_succ=f2.entry, sensitive=False,
                             edge_ok=lambda b, i, s2, f2=f2: not any(licence(*ef) for ef in f2.edge_facts(b, i, all=True)))
            ok = r is None
            why = 'only for a command killed by the interrupt, or when not dry_run'
        ctx.check('C19.EF2', ok, f2.name, 'CleanupEdge:outside-interrupt', f2.where(e2), 'CleanupEdge is called %s' % why)
    ctx.check('C19.EF2', len(ce_sites) >= 2, 'Builder::CleanupEdge', 'CleanupEdge:sites', 'src/build.cc', '%d call sites' % len(ce_sites))
    # what remains reachable under -n (reported)
    rep = []
    for f, nm in ((se, 'DiskInterface::MakeDirs'), (se, 'DiskInterface::WriteFile'), (fc, 'DiskInterface::RemoveFile')):
        for e in f.calls(nm):
            if not fact_holds(f.facts_at(e), lambda a: mentions_field(a, 'BuildConfig::dry_run'), False) and \
                    not mentions_field(e.get('args'), 'Builder::lock_file_path_'):
                rep.append('%s: %s' % (f.where(e), e.get('src')))
    ctx.table('C19.EF2.unguarded_under_dry_run', rep)
    ctx.note('Under -n ninja still creates output directories and writes / removes response files (listed in '
             'C19.EF2.unguarded_under_dry_run): outside the list of the property statement (sources, outputs, depfiles, logs); reported.')
    # the -n listing is complete: no command owns the terminal in a dry run, so the console is never
    # locked (a locked console coalesces the status lines of the other commands, i.e. drops them)
    nlock = 0
    for f2, e2 in calls_to(prog, 'LinePrinter::SetConsoleLocked'):
        if const_value(e2['args'][0]) == 0:
            continue
        nlock += 1
        guarded(ctx, 'C19.EF2', f2, e2, lambda a: mentions_field(a, 'BuildConfig::dry_run'), False,
                'the console is locked only outside a dry run', construct='console-locked-under-dry-run')
    ctx.check('C19.EF2', nlock >= 1, 'LinePrinter::SetConsoleLocked', 'console-lock:sites', 'src/status_printer.cc', '%d lock site(s)' % nlock)
    # -n on the command line is final: the flag is only ever set, never stored from something that may be false
    # (a copy of the configuration with dry_run overwritten runs for real what the user asked to be listed)
    nset = 0
    for f3, e3, kind, rhs in field_writes(prog, 'BuildConfig::dry_run'):
        if e3.get('init') or f3.name.startswith('BuildConfig::BuildConfig'):
            continue
        nset += 1
        ok = kind == '|=' or (kind == '=' and const_value(rhs) == 1)
        if not ok and kind == '=' and rhs is not None:
            ra, rp = norm_cond(prog, rhs)
            ok = any(k3 == dstr(ra) and fp == rp for k3, (fp, fa) in f3.facts_at(e3).items())      # `if (x) c.dry_run = x;`
        ctx.check('C19.EF2', ok, f3.name, 'dry_run:may-be-cleared', f3.where(e3),
                  'BuildConfig::dry_run is only ever set (`= true`, `|=`, or a store of a value known true there): `%s`' % (e3.get('src') or '')[:60])
    ctx.check('C19.EF2', nset >= 1, 'BuildConfig::dry_run', 'dry_run:writers', 'src/ninja.cc', '%d store(s) of the dry-run flag' % nset)
    # a dry run looks at the same logs as a real one: where they are (build_dir_, from the manifest's `builddir`) is
    # established whether or not this is a dry run - only the creation of the directory is skipped
    bw = [(f2, e2) for f2, e2, kind, rhs in field_writes(prog, 'NinjaMain::build_dir_') if not e2.get('init')]
    ctx.check('C19.EF2', len(bw) >= 1, 'NinjaMain', 'build_dir_:never-set', 'src/ninja.cc', 'NinjaMain::build_dir_ is set from the manifest')
    for f2, e2 in bw:
        guarded(ctx, 'C19.EF2', f2, e2, lambda a: mentions_field(a, 'BuildConfig::dry_run'), None,
                'the location of the logs does not depend on -n', construct='build_dir_:depends-on-dry-run', forbidden=True)
        if not mentions_call(e2.get('r'), 'BindingEnv::LookupVariable'):
            continue            # a tool's own --builddir option
        r2 = f2.find_path(None, lambda x: x['k'] == 'ret' and const_value(x.get('e')) != 0, from_succ=f2.entry, is_blocker=lambda x: x is e2)
        ctx.check('C19.EF2', r2 is None, f2.name, 'build_dir_:not-set-on-every-path', f2.where(e2),
                  '%s reports success only after it has set build_dir_' % f2.name, witness=None if r2 is None else {'blocks': r2[0]})
    ctx.floor('C19.EF2', 16)

    # ---- O1: dependency order of -t commands ------------------------------------------------------
    R('C19.O1', 'O', 'command listings print a statement\'s command only after the commands of '
      'everything it depends on (post-order)')
    pc = prog.fn('PrintCommands')
    rec = list(pc.calls('PrintCommands'))
    out = [e for e in pc.calls() if e.get('name') in ('puts', 'printf') and ('EvaluateCommand' in dstr(e.get('args')))]
    ctx.check('C19.O1', bool(rec) and len(out) == 1, pc.name, 'PrintCommands:shape', pc.loc, 'recursive descent and one print site')
    for o in out:
        for r in rec:
            ctx.check('C19.O1', pc.ev_reaches(r, o) and not pc.ev_reaches(o, r), pc.name, 'PrintCommands:pre-order', pc.where(o),
                      'the edge\'s own command is printed after the descent into its inputs')
    full_range(ctx, 'C19.O1', pc, 'Edge::inputs_', 'every input is descended into')
    cc = prog.fn('CommandCollector::CollectFrom')
    rec = list(cc.calls('CommandCollector::CollectFrom'))
    app = [e for e in cc.events('call') if lastname(e.get('name')) == 'push_back' and mentions_field(e.get('recv'), 'CommandCollector::in_edges')]
    ctx.check('C19.O1', bool(rec) and len(app) == 1 and all(cc.ev_reaches(r, app[0]) and not cc.ev_reaches(app[0], r) for r in rec),
              cc.name, 'CommandCollector:pre-order', cc.loc, 'CommandCollector appends an edge after collecting from its inputs')
    ctx.floor('C19.O1', 4)

    # ---- VS1: JSON escaping -------------------------------------------------------------------------
    R('C19.VS1', 'VS', 'EncodeJSONString emits no control character, double quote or backslash '
      'unescaped; in the compdb printers every dynamic string goes through PrintJSONString and the '
      'objects printed match the emptiness test used for the separating comma')
    enc = prog.fn('EncodeJSONString')
    cdecl = [e for e in enc.events('decl') if e['n'] == 'c']
    if not cdecl:
        raise AnalysisBroken('EncodeJSONString: per-character variable not found')
    raw = charset.reachable_values(
        enc, 'c', lambda e: e['k'] == 'call' and e.get('op') == '+=' and isinstance(strip(e['args'][0]), dict) and
        strip(e['args'][0]).get('k') == 'var' and strip(e['args'][0])['n'] == 'c',
        start_block=cdecl[0]['_b'], stop=lambda e: e['k'] == 'call' and e.get('op') == '++')
    must_escape = set(range(0x20)) | {0x22, 0x5c}
    ctx.check('C19.VS1', raw and not (raw & must_escape), enc.name, 'json:unescaped:%s' % sorted(raw & must_escape)[:6], enc.loc,
              '%d byte values are copied verbatim; none of 0x00-0x1f, 0x22, 0x5c among them' % len(raw))
    pj = prog.fn('PrintJSONString')
    ctx.check('C19.VS1', any(True for _ in pj.calls('EncodeJSONString')), pj.name, 'PrintJSONString:no-encode', pj.loc,
              'PrintJSONString encodes before writing')
    # ... and writes nothing else: the bytes of every output call in PrintJSONString come from EncodeJSONString's result
    OUT_DATA = {'fwrite': 0, 'fputs': 0, 'puts': 0, 'printf': None, 'fprintf': None, 'putchar': 0, 'fputc': 0, 'putc': 0, 'write': 1}
    nout = 0
    for e in pj.events('call'):
        if e.get('name') not in OUT_DATA:
            continue
        nout += 1
        data = [e['args'][OUT_DATA[e['name']]]] if OUT_DATA[e['name']] is not None else list(e.get('args') or [])
        srcs = [o for a in data for o in origins(pj, a)]
        ok = bool(srcs) and all(mentions_call(o, 'EncodeJSONString') or (isinstance(strip(o), dict) and strip(o).get('k') == 'str')
                                for o in srcs)
        ctx.check('C19.VS1', ok, pj.name, 'PrintJSONString:writes-unencoded', pj.where(e),
                  'what PrintJSONString writes is the encoded string: %s' % sorted({dstr(o)[:40] for o in srcs}))
    ctx.check('C19.VS1', nout >= 1, pj.name, 'PrintJSONString:no-output', pj.loc, 'PrintJSONString writes its result')
    printers = [f for f in prog.functions.values() if 'Compdb' in f.name and f.file == 'ninja.cc']
    n = 0
    for f in printers:
        for e in f.calls('printf'):
            fmt = strip(e['args'][0])
            n += 1
            ok = isinstance(fmt, dict) and fmt.get('k') == 'str' and not re.search(r'%[^%]', fmt['v']) and len(e['args']) == 1
            ctx.check('C19.VS1', ok, f.name, 'compdb:printf-with-conversion', f.where(e),
                      'printf in %s has a constant format without conversions' % f.name)
        for e in f.calls('puts'):
            ctx.check('C19.VS1', strip(e['args'][0]).get('k') == 'str', f.name, 'compdb:puts-dynamic', f.where(e), 'puts of a literal')
    po = prog.fn('PrintCompdbObjectsForEdge')
    full_range(ctx, 'C19.VS1', po, 'Edge::inputs_', 'one object per input of the edge (the callers print a comma iff inputs_ is non-empty)')
    for l in loops_over(po, 'Edge::inputs_'):
        every_iteration_passes(ctx, 'C19.VS1', po, l, lambda x: x['k'] == 'call' and x.get('name') == 'PrintJSONString',
                               'every input yields an object', 'compdb:input-without-object')
    for f in printers:
        for e in f.calls('PrintCompdbObjectsForEdge'):
            # edges selected into a local list first and printed in a second loop are judged where they are selected
            sel = [e]
            os_ = origins(f, e['args'][1]) if len(e.get('args') or []) > 1 else []
            flows = [local_container_pushes(f, o) for o in os_]
            if os_ and all(flows):
                sel = [pe for fl in flows for pe, pv in fl]
            r = f.find_path(None, lambda x: any(x is se for se in sel), from_succ=f.entry,
                            edge_ok=lambda b, i, s, f=f: not any('Edge::inputs_.empty()' in ef[0] and ef[1] is False for ef in f.edge_facts(b, i)),
                            sensitive=False)
            ctx.check('C19.VS1', r is None, f.name, 'compdb:edge-without-inputs-printed', f.where(e),
                      '%s prints an edge (and its separating comma) only if inputs_ is non-empty' % f.name)
    ctx.floor('C19.VS1', 12)
    check_tool_dispatch_order(ctx)


def check_tool_dispatch_order(ctx):
    """C19.EF3: no tool is started behind something that runs commands."""
    from model import mentions_field as _mf
    prog = ctx.prog
    ctx.rule('C19.EF3', 'O', 'in real_main every dispatch of a tool (the call through Tool::func) comes before the manifest regeneration and '
             'before the build: no path leads from NinjaMain::RebuildManifest / RunBuild - which run commands and write the logs - to a '
             'tool invocation, so a query tool never triggers a build step')
    rm = prog.fn('real_main')
    tools = [e for e in rm.events('call') if e.get('name') is None and _mf(e.get('callee'), 'Tool::func')]
    runners = [e for e in rm.events('call') if e.get('name') in ('NinjaMain::RebuildManifest', 'NinjaMain::RunBuild')]
    ctx.check('C19.EF3', len(tools) >= 3 and len(runners) >= 2, rm.name, 'tool-dispatch:sites', rm.loc,
              '%d tool dispatch sites, %d command-running calls found in real_main' % (len(tools), len(runners)))
    # within one pass of the start-up loop: the back edges (re-parse after a regenerated manifest) start a new pass, in which a
    # tool is dispatched - or not - before anything is run again
    back, color = set(), {}
    stack = [(rm.entry, iter(rm.succ(rm.entry)))]
    color[rm.entry] = 1
    while stack:
        b, it = stack[-1]
        adv = False
        for s2 in it:
            if color.get(s2) == 1:
                back.add((b, s2))
            elif s2 not in color:
                color[s2] = 1
                stack.append((s2, iter(rm.succ(s2))))
                adv = True
                break
        if not adv:
            color[b] = 2
            stack.pop()
    for t in tools:
        for r in runners:
            # (a re-parse after a regenerated manifest starts the loop again: the path must not pass the exit of the process,
            # but it may not reach a tool either - after a regeneration run the tool would see logs the build just wrote)
            p = rm.find_path(r, lambda x: x is t, sensitive=False, edge_ok=lambda b, i, s2: (b, s2) not in back)
            ctx.check('C19.EF3', p is None, rm.name, 'tool-dispatch:after:%s' % r['name'].split('::')[-1], rm.where(t),
                      'the tool dispatch at line %s is not reachable from %s' % (t.get('line'), r['name']), witness=None if p is None else {'blocks': p[0]})
    ctx.floor('C19.EF3', 6)
