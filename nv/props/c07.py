"""C07 — interrupting or killing ninja never poisons the next build (DESIGN 5.7)."""
from facts import AnalysisBroken
from model import (dstr, strip, fact_holds, mentions_field, mentions_call, mentions_var,
                   mentions_enum, const_value, walk)
from rules import (flush_succeeded_at, guarded, calls_to, field_writes, who_may_write, who_may_call, full_range,
                   loops_over, every_iteration_passes, basename, origins, is_var, is_enum,
                   lastname, dominated_by, must_pass, reached_only_via, skip_conditions_exact, deep_resolve)
from props.scan_common import check_cc, ts_comparisons, true_succ, check_active_edges


def run(ctx):
    prog = ctx.prog
    R = ctx.rule
    build = prog.fn('Builder::Build')
    cleanup = prog.fn('Builder::Cleanup')

    # ---- O1: interrupt path ---------------------------------------------------------------------------
    R('C07.O1', 'O', 'on an interrupt Builder::Build cleans up before returning and returns the '
      'interrupted status (ExitInterrupted = 130), which RunBuild and real_main pass on unchanged')
    ctx.check('C07.O1', prog.enum_value('ExitInterrupted') == 130, 'ExitStatus', 'ExitInterrupted:value', 'src/exit_status.h',
              'ExitInterrupted is 130')
    n = 0
    for bid, b in build.blocks.items():
        for i, s in enumerate(b['succ']):
            for ef in build.edge_facts(bid, i, all=True):
                interrupted = (ef[1] is True and ('holds_alternative<BuildResult::Interrupted>' in ef[0] or
                                                  ('ExitInterrupted' in ef[0] and 'exit_status' in ef[0])))
                if interrupted and s is not None:
                    n += 1
                    known = frozenset((x[0], x[1]) for x in build.edge_facts(bid, i, all=True))     # what this edge established
                    r = build.find_path(None, lambda x: x['k'] == 'ret', from_succ=s, init_facts=known,
                                        is_blocker=lambda x: x['k'] == 'call' and x.get('name') == 'Builder::Cleanup')
                    ctx.check('C07.O1', r is None, build.name, 'interrupt:return-without-Cleanup', 'src/build.cc:%s' % build.term(bid)['line'],
                              'an interrupt (%s) returns only after Cleanup()' % ef[0][:60])
                    r = build.find_path(None, lambda x: x['k'] == 'ret' and not mentions_call(x.get('e'), 'BuildResult::exit_status'),
                                        from_succ=s, is_blocker=lambda x: x['k'] == 'ret', init_facts=known)
                    ctx.check('C07.O1', r is None, build.name, 'interrupt:wrong-status', 'src/build.cc:%s' % build.term(bid)['line'],
                              'the interrupt path returns result.exit_status()')
                    r = build.find_path(None, lambda x: x['k'] == 'call' and x.get('name') in ('Builder::StartEdge', 'Plan::FindWork'),
                                        from_succ=s, is_blocker=lambda x: x['k'] == 'ret', init_facts=known)
                    ctx.check('C07.O1', r is None, build.name, 'interrupt:starts-more-work', 'src/build.cc:%s' % build.term(bid)['line'],
                              'nothing is started after an interrupt was seen')
    ctx.check('C07.O1', n >= 2, build.name, 'interrupt:tests-absent', build.loc, 'Build tests interrupted() and ExitInterrupted (%d edges)' % n)
    es = prog.fn('BuildResult::exit_status')
    # "the result holds the Interrupted alternative": holds_alternative<Interrupted>(state_), or state_.index() compared
    # with the position of Interrupted in the declared type of state_
    alts = []
    for fd in (prog.classes.get('BuildResult') or {}).get('fields', []):
        if fd.get('n') == 'BuildResult::state_' and 'variant<' in (fd.get('ty') or ''):
            alts = [a.strip().split('::')[-1] for a in fd['ty'][fd['ty'].index('variant<') + 8:fd['ty'].rindex('>')].split(',')]
    int_index = alts.index('Interrupted') if 'Interrupted' in alts else None

    def holds_interrupted(a):
        if 'holds_alternative<BuildResult::Interrupted>' in dstr(a):
            return True
        a = strip(a)
        return isinstance(a, dict) and a.get('k') == 'bin' and a.get('op') == '==' and int_index is not None and \
            mentions_field(a['l'], 'BuildResult::state_') and dstr(a['l']).endswith('.index()') and const_value(a['r']) == int_index
    ok = any(is_enum('ExitInterrupted')(e.get('e')) and fact_holds(es.facts_at(e), holds_interrupted, True)
             for e in es.events('ret'))
    ctx.check('C07.O1', ok, es.name, 'exit_status:interrupted', es.loc, 'an Interrupted result has status ExitInterrupted')
    wc = prog.fn('RealCommandRunner::WaitForCommandOrJobserverToken')
    ok = any(e['k'] == 'call' and 'Interrupted' in (e.get('name') or '') for e in wc.events('call')
             if fact_holds(wc.facts_at(e), lambda a: mentions_enum(a, 'SubprocessSet::WorkResult::Interrupted'), True))
    ctx.check('C07.O1', ok, wc.name, 'runner:interrupt-result', wc.loc, 'WorkResult::Interrupted becomes a BuildResult::Interrupted')
    dw = prog.fn('SubprocessSet::DoWork')
    for e in dw.events('ret'):
        if mentions_enum(e.get('e'), 'SubprocessSet::WorkResult::Interrupted'):
            d = strip(e.get('e'))
            ok = fact_holds(dw.facts_at(e), lambda a: mentions_call(a, 'SubprocessSet::IsInterrupted') or 'interrupted_' in dstr(a), None) or \
                fact_holds(dw.facts_at(e), lambda a: 'EINTR' in dstr(a) or 'errno' in dstr(a), None) or \
                (isinstance(d, dict) and d.get('k') == 'cond' and ('nterrupted' in dstr(d['c'])) and
                 mentions_enum(d['t'], 'SubprocessSet::WorkResult::Interrupted'))
            ctx.check('C07.O1', ok, dw.name, 'DoWork:Interrupted-guard', dw.where(e), 'DoWork reports Interrupted when the flag is set')
    # the runner hands every finished command to the builder *with its edge*: once the edge has been erased from
    # subproc_to_edge_ (Cleanup() cannot find it any more), the only way out is a CommandCompleted result naming it -
    # a command killed by the interrupt included (Builder::Build cleans up that edge itself)
    er = [e for e in wc.events('call') if lastname(e.get('name') or '').split('<')[0] == 'erase' and mentions_field(e.get('recv'), 'RealCommandRunner::subproc_to_edge_')]
    ctx.check('C07.O1', len(er) >= 1, wc.name, 'runner:erase-sites', wc.loc, 'the finished subprocess is taken out of subproc_to_edge_')
    for e in er:
        def names_edge(x):
            if x.get('k') not in ('asg', 'decl', 'call', 'ret'):
                return False
            txt = dstr({k: v for k, v in x.items() if not k.startswith('_')})
            return 'BuildResult::CommandCompleted' in txt and 'edge' in txt
        r = wc.find_path(e, lambda x: x['k'] in ('ret', 'exit'), is_blocker=names_edge)
        ctx.check('C07.O1', r is None, wc.name, 'runner:completed-edge-dropped', wc.where(e),
                  'after erasing the edge from subproc_to_edge_ the runner returns a CommandCompleted that names it',
                  witness=None if r is None else {'blocks': r[0]})
    # the same holds for the build that regenerates the manifest: what Builder::Build returned there (130 on an interrupt)
    # leaves RebuildManifest through its out-parameter when that build did not succeed, and real_main exits with it -
    # not with a constant - after a failed regeneration
    rbm = prog.fn('NinjaMain::RebuildManifest')
    outp = [p_['n'] for p_ in rbm.params if 'ExitStatus *' in (p_.get('ty') or '') or 'ExitStatus*' in (p_.get('ty') or '')]
    sts = [e for e in rbm.events('asg') if outp and isinstance(strip(e['l']), dict) and strip(e['l']).get('k') == 'un' and mentions_var(e['l'], outp[0])]
    okr = bool(sts) and all(mentions_call(deep_resolve(rbm, e.get('r')), 'Builder::Build') for e in sts)
    ctx.check('C07.O1', okr, rbm.name, 'regeneration:status-dropped', rbm.loc,
              'RebuildManifest hands the status of its Builder::Build() to the caller (out-parameter %s)' % outp)
    if okr:
        for bid, b in rbm.blocks.items():
            for i, s2 in enumerate(b['succ']):
                if s2 is None:
                    continue
                if any(mentions_call(deep_resolve(rbm, a), 'Builder::Build') and 'ExitSuccess' in dstr(a) and p_ is False and '==' in dstr(a)
                       for k_, p_, a in rbm.edge_facts(bid, i, all=True)):
                    r = rbm.find_path(None, lambda x: x['k'] == 'ret', from_succ=s2, is_blocker=lambda x: x in sts)
                    ctx.check('C07.O1', r is None, rbm.name, 'regeneration:status-not-stored-on-failure', 'src/ninja.cc:%s' % (b.get('term') or {}).get('line', '?'),
                              'a regeneration build that did not succeed stores its status before RebuildManifest returns')
    rmn = prog.fn('real_main')
    errs = [e for e in rmn.events('call') if 'rebuilding' in dstr(e.get('args'))]
    ctx.check('C07.O1', len(errs) == 1, rmn.name, 'regeneration:error-site', rmn.loc, 'real_main reports a failed regeneration')
    for e in errs:
        ex = [x for x in rmn.blocks[e['_b']]['ev'] if x['k'] == 'call' and x.get('name') in ('exit', '_exit') and x['_i'] > e['_i']]
        okx = bool(ex) and all(const_value(x['args'][0]) is None and any(strip(o).get('k') != 'int' or True for o in origins(rmn, x['args'][0])) and
                               any(mentions_var(c.get('args'), v_['n']) for c in rmn.calls('NinjaMain::RebuildManifest')
                                   for v_ in walk(x['args'][0]) if v_.get('k') == 'var') for x in ex)
        ctx.check('C07.O1', okx, rmn.name, 'regeneration:constant-exit-status', rmn.where(e),
                  'after a failed regeneration real_main exits with the status RebuildManifest reported (130 on an interrupt), not a constant')
    ctx.floor('C07.O1', 15)

    # ---- O2: cleanup rule ---------------------------------------------------------------------------------
    R('C07.O2', 'O', 'Cleanup stops the running commands first, then for every active edge — and for a '
      'command that was itself killed by the signal — removes every output that was modified (always '
      'when the rule has a depfile), the depfile, and finally the lock file; children are signalled by '
      'process group and reaped before their outputs are examined')
    ce = prog.fn('Builder::CleanupEdge') if prog.has_fn('Builder::CleanupEdge') else cleanup
    ab = list(cleanup.calls('CommandRunner::Abort'))
    per = list(cleanup.calls('Builder::CleanupEdge')) or [e for e in cleanup.calls('DiskInterface::RemoveFile')]
    ctx.check('C07.O2', len(ab) == 1 and per and all(cleanup.dominates_ev(ab[0], x) for x in per), cleanup.name, 'Cleanup:remove-before-abort',
              cleanup.loc, 'Abort() precedes every removal')
    ga = list(cleanup.calls('CommandRunner::GetActiveEdges'))
    ctx.check('C07.O2', len(ga) == 1 and cleanup.dominates_ev(ga[0], ab[0]) if ab else False, cleanup.name, 'Cleanup:active-edges-after-abort',
              cleanup.loc, 'the active edges are collected before Abort() forgets them')
    isae = lambda d: isinstance(d, dict) and ((d.get('k') == 'var' and d['n'].split('#')[0] == 'active_edges') or
                                              (d.get('k') == 'call' and d.get('name') == 'CommandRunner::GetActiveEdges'))
    ls = loops_over(cleanup, isae)
    ctx.check('C07.O2', len(ls) == 1 and ls[0]['full'], cleanup.name, 'Cleanup:active-edges-loop', cleanup.loc, 'every active edge is cleaned')
    if ce is not cleanup:
        for l in ls:
            every_iteration_passes(ctx, 'C07.O2', cleanup, l, lambda x: x['k'] == 'call' and x.get('name') == 'Builder::CleanupEdge',
                                   'CleanupEdge for each active edge', 'Cleanup:edge-skipped')
    full_range(ctx, 'C07.O2', ce, 'Edge::outputs_', 'every output (explicit and implicit) of the interrupted command is examined')
    rmo = [e for e in ce.calls('DiskInterface::RemoveFile') if any('Edge::outputs_' in dstr(o) for o in origins(ce, e['args'][0]))]
    rmd = [e for e in ce.calls('DiskInterface::RemoveFile') if any(mentions_call(o, 'Edge::GetUnescapedDepfile') for o in origins(ce, e['args'][0]))]
    ctx.check('C07.O2', len(rmo) == 1 and len(rmd) == 1, ce.name, 'CleanupEdge:removal-sites', ce.loc, 'outputs and depfile are removed')
    for l in loops_over(ce, 'Edge::outputs_'):
        skip_conditions_exact(ctx, 'C07.O2', ce, l, lambda x: x in rmo,
                              [(lambda a: strip(a).get('k') == 'bin' and strip(a)['op'] == '==' and 'Node::mtime_' in dstr(a) and 'new_mtime' in dstr(a), True)],
                              'an output is kept only if its mtime is unchanged', 'CleanupEdge:extra-keep-condition')
    for e in rmo:
        # with a depfile the output is always removed
        r = ce.find_path(None, lambda x: x['k'] == 'call' and lastname(x.get('name')) == 'operator++', from_succ=None, start=None) if False else None
        bad = None
        for bid, b in ce.blocks.items():
            for i, s in enumerate(b['succ']):
                for ef in ce.edge_facts(bid, i):
                    if 'depfile' in ef[0] and 'empty()' in ef[0] and ef[1] is False and s is not None and \
                            bid in ce.reachable_from(l['body']) | {l['body']}:
                        rr = ce.find_path(None, lambda x: x['k'] == 'call' and lastname(x.get('name')) == 'operator++', from_succ=s,
                                          is_blocker=lambda x: x is e, init_facts=[(ef[0], ef[1])])
                        if rr is not None:
                            bad = rr
        ctx.check('C07.O2', bad is None, ce.name, 'CleanupEdge:depfile-output-kept', ce.where(e),
                  'with a depfile the output is removed regardless of its mtime')
    check_cc(ctx, 'C07.O2', ce, ('OUT', 'NOW'), '==', None, 'modified means scan-time mtime != current mtime', 'CC6:modified')
    for e in rmd:
        guarded(ctx, 'C07.O2', ce, e, lambda a: 'depfile' in dstr(a) and 'empty()' in dstr(a), False, 'the depfile is removed when the rule has one',
                construct='CleanupEdge:depfile-guard')
    lock = [e for e in cleanup.calls('DiskInterface::RemoveFile') if mentions_field(e.get('args'), 'Builder::lock_file_path_')]
    ctx.check('C07.O2', len(lock) == 1, cleanup.name, 'Cleanup:lock-file', cleanup.loc, 'the lock file is removed')
    # the command that died from the signal itself
    n = 0
    for bid, b in build.blocks.items():
        for i, s in enumerate(b['succ']):
            for ef in build.edge_facts(bid, i, all=True):
                if ef[1] is True and 'ExitInterrupted' in ef[0] and 'exit_status' in ef[0] and s is not None:
                    n += 1
                    def not_completed(bb, ii, ss):
                        return not any('holds_alternative<BuildResult::CommandCompleted>' in x[0] and x[1] is False for x in build.edge_facts(bb, ii))
                    r = build.find_path(None, lambda x: x['k'] == 'ret', from_succ=s, edge_ok=not_completed,
                                        is_blocker=lambda x: x['k'] == 'call' and x.get('name') in ('Builder::CleanupEdge', 'Builder::FinishCommand'))
                    ctx.check('C07.O2', r is None, build.name, 'interrupted-command:outputs-not-cleaned', 'src/build.cc:%s' % build.term(bid)['line'],
                              'a reaped command whose status is ExitInterrupted has its outputs cleaned like the active ones',
                              witness=None if r is None else {'blocks': r[0]})
    ctx.check('C07.O2', n >= 1, build.name, 'interrupted-command:test-absent', build.loc, 'Build recognises a command killed by the signal')
    # runner: Abort -> SubprocessSet::Clear: group kill, then delete (which reaps, blocking)
    clr = prog.fn('SubprocessSet::Clear')
    kills = list(clr.calls('kill'))
    ctx.check('C07.O2', len(kills) == 1, clr.name, 'Clear:kill-sites', clr.loc, 'one kill site')
    for e in kills:
        a0 = strip(e['args'][0])
        ctx.check('C07.O2', isinstance(a0, dict) and a0.get('k') == 'un' and a0['op'] == '-' and mentions_field(a0, 'Subprocess::pid_'), clr.name,
                  'Clear:kill-not-group', clr.where(e), 'the signal goes to the child\'s process group: kill(%s, ...)' % dstr(a0))
        ctx.check('C07.O2', mentions_field(e['args'][1], 'SubprocessSet::interrupted_') or 'interrupted_' in dstr(e['args'][1]), clr.name,
                  'Clear:signal', clr.where(e), 'the children receive the signal ninja received')
        guarded(ctx, 'C07.O2', clr, e, lambda a: mentions_field(a, 'Subprocess::use_console_'), False,
                'console children share ninja\'s process group and already got the signal', construct='Clear:kill-console')
    full_range(ctx, 'C07.O2', clr, 'SubprocessSet::running_', 'every running child is signalled and deleted', need=2)
    dels = [e for e in clr.events('delete')]
    ctx.check('C07.O2', len(dels) == 1 and all(clr.ev_reaches(k, dels[0]) for k in kills), clr.name, 'Clear:delete-before-kill', clr.loc,
              'children are deleted (reaped) after they were signalled')
    dt = prog.fn('Subprocess::~Subprocess')
    fin = list(dt.calls('Subprocess::Finish'))
    ctx.check('C07.O2', len(fin) == 1 and fact_holds(dt.facts_at(fin[0]), lambda a: mentions_field(a, 'Subprocess::pid_'), None), dt.name,
              'dtor:no-blocking-reap', dt.loc, 'destroying a subprocess that was not reaped waits for it (Finish), so Cleanup examines '
              'the outputs only after the command is gone')
    fi = prog.fn('Subprocess::Finish')
    tf = list(fi.calls('Subprocess::TryFinish'))
    ctx.check('C07.O2', len(tf) == 1 and const_value(tf[0]['args'][0]) == 0, fi.name, 'Finish:non-blocking', fi.loc, 'Finish() waits without WNOHANG')
    rab = prog.fn('RealCommandRunner::Abort')
    ctx.check('C07.O2', any(True for _ in rab.calls('SubprocessSet::Clear')), rab.name, 'Abort:no-Clear', rab.loc, 'Abort() clears the subprocess set')
    check_active_edges(ctx, 'C07.O2', prog)
    ctx.floor('C07.O2', 22)

    # ---- W1: async-signal-safe handlers --------------------------------------------------------------
    R('C07.W1', 'W', 'functions installed as signal handlers contain no calls: they only store to a '
      'volatile sig_atomic_t')
    handlers = set()
    for f in prog.functions.values():
        if not any(True for _ in f.calls('sigaction')):
            continue
        for e in f.events('asg'):
            if 'sa_handler' in dstr(e['l']) or 'sa_sigaction' in dstr(e['l']) or '__sigaction_handler' in dstr(e['l']):
                r = strip(e.get('r'))
                if isinstance(r, dict) and r.get('k') == 'fn':
                    handlers.add(r['n'])
    ctx.check('C07.W1', len(handlers) >= 2, 'SubprocessSet::SubprocessSet', 'handlers:not-found', 'src/subprocess-posix.cc',
              'signal handlers installed: %s' % sorted(h.split('(')[0] for h in handlers))
    for h in sorted(handlers):
        f = prog.functions.get(h)
        if f is None:
            ctx.violation('C07.W1', h, 'handler:no-body', 'src/subprocess-posix.cc', 'handler %s has no analysable body' % h)
            continue
        calls = [e for e in f.events('call')]
        ctx.check('C07.W1', not calls, f.name, 'handler:calls:%s' % ','.join(sorted({c.get('name') or '?' for c in calls}))[:60], f.loc,
                  '%s makes no call' % f.name)
        for e in f.events('asg'):
            l = strip(e['l'])
            g = prog.globals.get(l.get('n')) if isinstance(l, dict) else None
            ty = (g or {}).get('ty', '') or (l.get('ty') if isinstance(l, dict) else '') or ''
            ctx.check('C07.W1', 'sig_atomic_t' in ty and 'volatile' in ty, f.name, 'handler:store-type', f.where(e),
                      '%s stores to a volatile sig_atomic_t (%s: %s)' % (f.name, dstr(l), ty))
    # interrupt signals stay blocked for as long as ninja's own handlers are installed: the constructor blocks
    # them (sigprocmask) before it installs the handlers, the destructor restores the old handlers before it
    # restores the old mask - otherwise a pending signal is delivered to a handler nobody listens to any more
    for fname, first, then in (('SubprocessSet::SubprocessSet', 'sigprocmask', 'sigaction'), ('SubprocessSet::~SubprocessSet', 'sigaction', 'sigprocmask')):
        ff = prog.fn(fname)
        a = list(ff.calls(first))
        b = list(ff.calls(then))
        ctx.check('C07.W1', bool(a) and bool(b) and all(ff.dominates_ev(x, y) for x in a for y in b), fname, 'signal-mask-order', ff.loc,
                  'in %s every %s precedes every %s' % (fname, first, then))
    ctx.floor('C07.W1', 5)

    # ---- O3: durability order (flush before acknowledging) — instances live in C08.O1 / C09.O2 -----
    R('C07.O3', 'O', 'work is acknowledged (memory tables updated / success returned) only after its log '
      'record was flushed; a log rewrite goes through a temporary file (see C08.O1, C08.O3, C09.O2)')
    rc = prog.fn('BuildLog::RecordCommand')
    for e in rc.calls('BuildLog::WriteEntry'):
        r = rc.find_path(e, lambda x: x['k'] == 'ret' and const_value(x.get('e')) == 1,
                         is_blocker=lambda x: (x['k'] == 'call' and x.get('name') == 'fflush') or (x['k'] == 'ret' and const_value(x.get('e')) == 0),
                         edge_ok=lambda b, i, s: not any(mentions_call(ef[2], 'BuildLog::WriteEntry') and ef[1] is False for ef in rc.edge_facts(b, i)))
        ctx.check('C07.O3', r is None, rc.name, 'RecordCommand:success-before-flush', rc.where(e), 'the build-log record is flushed before success')
    for name, mem in (('DepsLog::RecordId', ('Node::set_id',)), ('DepsLog::RecordDeps', ('DepsLog::UpdateDeps',))):
        fs = [f for f in prog.fns(name) if any(True for _ in f.calls('fwrite'))]
        for f in fs:
            fl = list(f.calls('fflush'))
            for e in f.events('call'):
                if e.get('name') in mem:
                    ctx.check('C07.O3', any(f.dominates_ev(x, e) for x in fl) or flush_succeeded_at(f, e), f.name, 'memory-before-flush', f.where(e),
                              '%s updates memory only after the record was flushed' % name)
    fc = prog.fn('Builder::FinishCommand')
    ef_ = list(fc.calls('Plan::EdgeFinished'))
    rcs = list(fc.calls('BuildLog::RecordCommand'))
    ctx.check('C07.O3', bool(rcs) and all(not e.get('disc') for e in rcs), fc.name, 'RecordCommand:result-ignored', fc.loc,
              'a failure to write the build log fails the build')
    for nm in ('BuildLog::Recompact', 'BuildLog::Restat', 'DepsLog::Recompact'):
        f = prog.fn(nm)
        ctx.check('C07.O3', any(True for _ in f.calls('ReplaceContent')), nm, 'rewrite:in-place', f.loc, '%s rewrites through ReplaceContent(temp)' % nm)
    # a depfile that exists but is empty (the command was killed between creating it and filling it) is as
    # good as missing: no dependency range may be returned for it
    ldf = prog.fn('ImplicitDepLoader::LoadDepFile')
    emp = [(b, i, s2) for b, blk in ldf.blocks.items() for i, s2 in enumerate(blk['succ']) if s2 is not None and
           any(pol is True and 'content' in k and 'empty' in k for k, pol, atom in ldf.edge_facts(b, i))]
    oke = bool(emp)
    for b, i, s2 in emp:
        r = ldf.find_path(None, lambda x: x['k'] == 'ret' and 'nullopt' not in dstr(x.get('e')), from_succ=s2)
        oke = oke and r is None
    ctx.check('C07.O3', oke, ldf.name, 'empty-depfile:trusted', ldf.loc,
              'LoadDepFile answers "no usable depfile" (nullopt, edge dirty) for an empty depfile')
    ctx.floor('C07.O3', 8)
    check_signal_table(ctx)
    check_spawn_attributes(ctx)


INTERRUPT_SIGNALS = {2: 'SIGINT', 15: 'SIGTERM', 1: 'SIGHUP'}        # the three the statement names (Linux numbering)
SIGCHLD_NO = 17


def check_signal_table(ctx):
    """C07.S1: the places that enumerate 'the interrupt signals' agree with each other and with the statement."""
    prog = ctx.prog
    ctx.rule('C07.S1', 'TA', 'SIGINT, SIGTERM and SIGHUP are, each of them: blocked outside ppoll/pselect, given the handler that '
             'sets the interrupted flag, looked for among the pending signals after a poll that reported descriptors, '
             'given their old disposition back at the end, and recognised in a child\'s wait status as "interrupted"; the five '
             'tables agree; the pending check stores the signal it found')
    ctor = prog.fn('SubprocessSet::SubprocessSet')
    dtor = prog.fn('SubprocessSet::~SubprocessSet')
    hpi = prog.fn('SubprocessSet::HandlePendingInterruption')
    pes = prog.fn('ParseExitStatus')

    def consts(f, callee, argi):
        out = {}
        for e in f.calls(callee):
            v = const_value((e.get('args') or [None] * (argi + 1))[argi])
            if isinstance(v, int):
                out[v] = e
        return out
    blocked = consts(ctor, 'sigaddset', 1)
    # handler installed per sigaction(SIG, &act, ..): the latest dominating store to the handler member
    hstores = [e for e in ctor.events('asg') if ('sa_handler' in dstr(e['l']) or 'sa_sigaction' in dstr(e['l']))]
    installed = {}
    for e in ctor.calls('sigaction'):
        sig = const_value(e['args'][0])
        doms = [h for h in hstores if ctor.dominates_ev(h, e)]
        last = [h for h in doms if not any(h is not g and ctor.dominates_ev(h, g) for g in doms)]
        r = strip(last[0].get('r')) if last else None
        name = None
        for x in walk(r):
            if isinstance(x, dict) and x.get('k') == 'fn':
                name = x['n']
        if isinstance(sig, int):
            installed[sig] = (name, e)
    flag_setters = set()
    for f in prog.functions.values():
        if f.cls == 'SubprocessSet':            # (what else the handler does is C07.W1's business)
            for e in f.events('asg'):
                if is_field_name(e['l'], 'SubprocessSet::interrupted_') and f.params:
                    flag_setters.add(f.id)
                    flag_setters.add(f.name)
    handled = {s for s, (h, e) in installed.items() if h and (h in flag_setters or h.split('(')[0] in flag_setters)}
    pending = consts(hpi, 'sigismember', 1)
    # ... or a loop over a constant table of signal numbers: `for (int s : kSignals) if (sigismember(&pending, s)) ...`
    table_tests = {}
    for e_ in hpi.calls('sigismember'):
        a1 = strip((e_.get('args') or [None, None])[1])
        if const_value(a1) is None and isinstance(a1, dict) and a1.get('k') == 'var':
            vals_ = _table_values_of_loop_var(prog, hpi, a1['n'])
            if vals_:
                table_tests[a1['n']] = (e_, vals_)
                for v_ in vals_:
                    pending.setdefault(v_, e_)
    restored = {s for s in consts(dtor, 'sigaction', 0)}
    # which terminating signals of a child does ParseExitStatus report as "interrupted"?  Decided by evaluating the function
    # for every wait status "killed by signal s" (status == s: no exit code, no core flag) - whatever form the test has
    import charset as _cs
    exitsig = {}
    intr = prog.enum_value('ExitInterrupted') if hasattr(prog, 'enum_value') else None
    if intr is None:
        intr = 130
    pname = pes.params[0]['n'] if pes.params else 'status'
    undecided = []
    for s_ in range(1, 65):
        rv = _cs.returned_for_value(pes, pname, s_)
        if rv == {intr}:
            exitsig[s_] = True
        elif intr in rv or None in rv:
            undecided.append((s_, sorted(map(str, rv))))
    if undecided and not exitsig:
        raise AnalysisBroken('C07.S1: ParseExitStatus could not be evaluated for signal statuses: %s' % undecided[:3])
    tables = {'blocked (sigaddset)': set(blocked) - {SIGCHLD_NO}, 'handler sets the flag (sigaction)': handled,
              'pending check (sigismember)': set(pending), 'restored (sigaction in the destructor)': restored - {SIGCHLD_NO},
              'child status -> interrupted': set(exitsig)}
    ctx.table('C07.S1.tables', {k: sorted(INTERRUPT_SIGNALS.get(s, s) for s in v) for k, v in tables.items()})
    for k, v in tables.items():
        if not v:
            raise AnalysisBroken('C07.S1: no signal constant found for "%s" (idiom not recognised)' % k)
    want = set(INTERRUPT_SIGNALS)
    for k, v in tables.items():
        for s in sorted(want):
            ctx.check('C07.S1', s in v, 'SubprocessSet', 'signal-table:%s:%s' % (k.split(' (')[0], INTERRUPT_SIGNALS[s]), ctor.loc,
                      '%s is in the table "%s"' % (INTERRUPT_SIGNALS[s], k))
        extra = v - want
        ctx.check('C07.S1', not extra, 'SubprocessSet', 'signal-table:%s:extra' % k.split(' (')[0], ctor.loc,
                  'the table "%s" names no other signal (%s)' % (k, sorted(extra)))
    # SIGCHLD: blocked, own handler (not the interrupt one), restored
    ctx.check('C07.S1', SIGCHLD_NO in blocked and SIGCHLD_NO in installed and SIGCHLD_NO not in handled and SIGCHLD_NO in restored,
              ctor.name, 'signal-table:SIGCHLD', ctor.loc, 'SIGCHLD is blocked, has its own handler and is restored')
    # the pending check stores what it found
    for s, e in sorted(pending.items()):
        # (a signal may be tested more than once: one of the tests records it, none records another one)
        good = bad = 0
        for vn_, (t, vals_) in table_tests.items():
            # the table form: the test's true side stores the loop variable itself
            ts = true_succ(hpi, t['_b'])
            if ts is not None and s in vals_:
                st = [x for x in hpi.blocks[ts]['ev'] if x['k'] == 'asg' and is_field_name(x['l'], 'SubprocessSet::interrupted_')]
                good += sum(1 for x in st if is_var(vn_)(x.get('r')))
                bad += sum(1 for x in st if not is_var(vn_)(x.get('r')))
        for t in hpi.calls('sigismember'):
            if const_value((t.get('args') or [None, None])[1]) != s:
                continue
            ts = true_succ(hpi, t['_b'])
            if ts is None:
                continue
            st = [x for x in hpi.blocks[ts]['ev'] if x['k'] == 'asg' and is_field_name(x['l'], 'SubprocessSet::interrupted_')]
            good += sum(1 for x in st if const_value(x.get('r')) == s)
            bad += sum(1 for x in st if const_value(x.get('r')) != s)
        ctx.check('C07.S1', good >= 1 and bad == 0, hpi.name, 'pending:%s:stored-as-other' % INTERRUPT_SIGNALS.get(s, s), hpi.where(e),
                  'a pending %s is recorded as interrupted_ = %s' % (INTERRUPT_SIGNALS.get(s, s), s))
    # a signal found pending is taken off the queue (sigwait family): otherwise it is delivered with its default disposition when
    # the destructor unblocks it, and ninja dies from the signal after its clean-up instead of exiting with 130
    waiters = {f.id for f in prog.functions.values() if any(e.get('name') in ('sigwait', 'sigwaitinfo', 'sigtimedwait') for e in f.events('call'))}
    consumed = set()
    for e in hpi.events('call'):
        direct = e.get('name') in ('sigwait', 'sigwaitinfo', 'sigtimedwait')
        via = bool(waiters & set(prog.reachable_fns(prog.call_targets(e)))) if not direct else False
        if not (direct or via):
            continue
        for k, (pol, a) in hpi.facts_at(e).items():
            sa = strip(a)
            if pol and isinstance(sa, dict) and sa.get('k') == 'call' and sa.get('name') == 'sigismember':
                v = const_value((sa.get('args') or [None, None])[1])
                if isinstance(v, int):
                    consumed.add(v)
    for s_ in sorted(pending):
        ctx.check('C07.S1', s_ in consumed, hpi.name, 'pending:%s:left-pending' % INTERRUPT_SIGNALS.get(s_, s_), hpi.where(pending[s_]),
                  'a %s found pending is consumed (sigwait) so that it cannot kill ninja when the signals are unblocked at the end' %
                  INTERRUPT_SIGNALS.get(s_, s_))
    # in the wait status each of the three leads to ExitInterrupted and nothing else does
    for s_ in sorted(exitsig):
        ctx.inst('C07.S1', pes.loc, 'ParseExitStatus evaluated for "killed by signal %s": ExitInterrupted' % INTERRUPT_SIGNALS.get(s_, s_))
    for s_, why in undecided:
        if s_ in INTERRUPT_SIGNALS:
            ctx.violation('C07.S1', pes.name, 'wait-status:%s:not-interrupted' % INTERRUPT_SIGNALS[s_], pes.loc,
                          'a child killed by %s is not always reported as ExitInterrupted (possible results: %s)' % (INTERRUPT_SIGNALS[s_], why))
    # the handler stores its argument (the signal number) - Clear() forwards interrupted_ to the children
    for hname in sorted({h for s, (h, e) in installed.items() if s in want and h}):
        hf = prog.functions.get(hname) or prog.fn(hname.split('(')[0])
        st = [x for x in hf.events('asg') if is_field_name(x['l'], 'SubprocessSet::interrupted_')]
        ok = len(st) == 1 and isinstance(strip(st[0].get('r')), dict) and strip(st[0]['r']).get('k') == 'var'
        ctx.check('C07.S1', ok, hf.name, 'handler:does-not-store-signal', hf.loc, 'the interrupt handler stores the signal number it was given')
    # the flag is cleared only right before waiting (DoWork), never between a poll and the test of the flag
    allowed = {'SubprocessSet::DoWork': 'cleared before each wait', 'SubprocessSet::HandlePendingInterruption': 'pending signal found',
               'SubprocessSet::SetInterruptedFlag': 'handler'}
    who_may_write(ctx, 'C07.S1', 'SubprocessSet::interrupted_', allowed, 'interrupted flag')
    for f in prog.fns('SubprocessSet::DoWork'):
        zero = [e for e in f.events('asg') if is_field_name(e['l'], 'SubprocessSet::interrupted_') and const_value(e.get('r')) == 0]
        waits = [e for e in f.events('call') if e.get('name') in ('ppoll', 'pselect')]
        ctx.check('C07.S1', len(zero) == 1 and len(waits) == 1 and f.dominates_ev(zero[0], waits[0]), f.name, 'DoWork:flag-cleared-after-wait', f.loc,
                  'interrupted_ is cleared once, before the wait')
        for w in waits:
            # the mask given to the wait is the one saved when the signals were blocked
            ctx.check('C07.S1', any(mentions_field(a, 'SubprocessSet::old_mask_') for a in w.get('args') or []), f.name, 'DoWork:wait-mask', f.where(w),
                      'the wait runs with the signal mask saved by the constructor (signals are deliverable only there)')
    ctx.floor('C07.S1', 33)


def is_field_name(d, name):
    d = strip(d)
    return isinstance(d, dict) and d.get('k') in ('mem', 'var', 'glob') and (d.get('n') == name or d.get('n', '').endswith(name.split('::')[-1]) and
                                                                         name.split('::')[-1] in d.get('n', ''))


def check_spawn_attributes(ctx):
    """C07.P1: how a child is started decides whether the interrupt path can stop it."""
    prog = ctx.prog
    ctx.rule('C07.P1', 'G', 'Subprocess::Start: a non-console child gets its own process group (POSIX_SPAWN_SETPGROUP - '
             'SubprocessSet::Clear() signals -pid), every child starts with the signal mask ninja had before it blocked the interrupt '
             'signals (POSIX_SPAWN_SETSIGMASK with old_mask_, so the child can be interrupted at all), the flags reach '
             'posix_spawnattr_setflags unchanged, and the parent closes its copy of the pipe\'s write end after the spawn (otherwise '
             'the end of the output, i.e. the completion of the command, is never seen)')
    st = prog.fn('Subprocess::Start')
    sf = list(st.calls('posix_spawnattr_setflags'))
    sp = [e for e in st.events('call') if e.get('name') in ('posix_spawn', 'posix_spawnp')]
    if len(sf) != 1 or len(sp) != 1:
        raise AnalysisBroken('C07.P1: posix_spawnattr_setflags / posix_spawn call of Subprocess::Start not found (%d / %d)' % (len(sf), len(sp)))
    fv = strip(sf[0]['args'][1])
    ctx.check('C07.P1', isinstance(fv, dict) and fv.get('k') == 'var', st.name, 'spawn:flags-not-a-variable', st.where(sf[0]),
              'the flags handed to posix_spawnattr_setflags are the accumulated variable (%s)' % dstr(fv))
    name = fv.get('n') if isinstance(fv, dict) else None
    # (the declaration with a constant initialiser is the first "gain": `short flags = POSIX_SPAWN_SETSIGMASK;`)
    ors = [e for e in st.stores() if is_var(name or '?')(e['l'])]
    bad = [e for e in ors if not (e['op'] == '|=' or e.get('from_decl')) or not isinstance(const_value(e.get('r')), int)]
    ctx.check('C07.P1', not bad, st.name, 'spawn:flags-rewritten', st.where(bad[0]) if bad else st.loc,
              'the flag variable only ever gains constant bits (no assignment / &= that could drop one)')

    def console(pol):
        def ok(b, i, s2):
            for key, p, atom in st.edge_facts(b, i, all=True):
                a = strip(atom)
                if isinstance(a, dict) and a.get('k') == 'mem' and a['n'] == 'Subprocess::use_console_' and p != pol:
                    return False
            return True
        return ok
    for bit, nm, worlds in ((2, 'POSIX_SPAWN_SETPGROUP', (False,)), (8, 'POSIX_SPAWN_SETSIGMASK', (False, True))):
        sets = [e for e in ors if isinstance(const_value(e.get('r')), int) and const_value(e['r']) & bit]
        for w in worlds:
            def is_set(x):
                return any(x is y or (y.get('from_decl') and x.get('k') == 'decl' and x.get('_b') == y.get('_b') and x.get('_i') == y.get('_i')) for y in sets)
            r = st.find_path(None, lambda x: x is sf[0], from_succ=st.entry, is_blocker=is_set, edge_ok=console(w))
            ctx.check('C07.P1', bool(sets) and r is None, st.name, 'spawn:%s-missing:%s' % (nm, 'console' if w else 'piped'), st.where(sf[0]),
                      '%s is set on every path to posix_spawnattr_setflags for a %s child' % (nm, 'console' if w else 'non-console'),
                      witness=None if r is None else {'blocks': r[0]})
    # a console child shares ninja's process group (it must receive the terminal's ctrl-c itself): the bit is not set for it
    pg = [e for e in ors if isinstance(const_value(e.get('r')), int) and const_value(e['r']) & 2]
    for e in pg:
        guarded(ctx, 'C07.P1', st, e, lambda a: mentions_field(a, 'Subprocess::use_console_'), False,
                'only non-console children leave ninja\'s process group', construct='spawn:SETPGROUP-for-console')
    sm = list(st.calls('posix_spawnattr_setsigmask'))
    ctx.check('C07.P1', len(sm) == 1 and mentions_field(sm[0]['args'][1], 'SubprocessSet::old_mask_') and st.dominates_ev(sm[0], sp[0]), st.name,
              'spawn:sigmask-not-old-mask', st.where(sm[0]) if sm else st.loc, 'the child\'s signal mask is SubprocessSet::old_mask_')
    ctx.check('C07.P1', st.dominates_ev(sf[0], sp[0]), st.name, 'spawn:flags-after-spawn', st.where(sf[0]), 'the flags are installed before posix_spawn')
    # the write end: created by pipe(), dup'ed onto 1 and 2 in the child, closed in the parent after the spawn
    closes = [e for e in st.events('call') if e.get('name') == 'close']
    wr = None
    for e in st.events('call'):
        if e.get('name') == 'posix_spawn_file_actions_adddup2':
            v = strip(e['args'][1])
            if isinstance(v, dict) and v.get('k') == 'var':
                wr = v['n']
    ctx.check('C07.P1', wr is not None, st.name, 'spawn:write-end-not-found', st.loc, 'the pipe\'s write end is dup\'ed into the child (%s)' % wr)
    mine = [e for e in closes if wr and is_var(wr)(e['args'][0])]
    r = st.find_path(sp[0], lambda x: x['k'] == 'ret', is_blocker=lambda x: any(x is y for y in mine), edge_ok=console(False))
    ctx.check('C07.P1', bool(mine) and r is None, st.name, 'spawn:write-end-kept-open', st.where(sp[0]),
              'after the spawn the parent closes its copy of the write end on every path (non-console child)',
              witness=None if r is None else {'blocks': r[0]})
    ctx.floor('C07.P1', 10)


def _table_values_of_loop_var(prog, f, var):
    """Values a range-for / index-loop variable takes when it walks a constant table of integers (a static const array whose
    evaluated contents the facts carry), or None."""
    for e in f.events('decl'):
        if e['n'] != var or e.get('init') is None:
            continue
        for x in walk(e['init']):
            if isinstance(x, dict) and x.get('k') == 'var':
                # the element comes from `*__begin` of a range over the table, or `table[i]`
                for y in [x] + [z for d2 in f.events('decl') if d2['n'] == x['n'] and d2.get('init') is not None for z in walk(d2['init'])
                                if isinstance(z, dict) and z.get('k') == 'var'] + \
                        [z for d2 in f.events('decl') if d2.get('init') is not None and d2['n'].startswith('__range') for z in walk(d2['init'])
                         if isinstance(z, dict) and z.get('k') == 'var']:
                    for gname, g in prog.globals.items():
                        if isinstance(g, dict) and isinstance(g.get('cvtab'), list) and (gname == y['n'] or gname.endswith('::' + y['n'])) and \
                                all(isinstance(v, int) for v in g['cvtab']):
                            return list(g['cvtab'])
    return None
