"""C06 — concurrency limits, no leaked slot, at-most-once scheduling (DESIGN 5.6)."""
from facts import AnalysisBroken
from model import (dstr, strip, fact_holds, mentions_field, mentions_call, mentions_var,
                   mentions_enum, const_value, walk, norm_cond, facts_str, basename as _bn)
from props.scan_common import check_active_edges, check_midbuild_targets_scheduled
from rules import (deep_resolve, skip_conditions_exact, loops_over, guarded, calls_to, field_writes, who_may_write, who_may_call, atom_cmp,
                   is_enum, is_var, is_field, has_field, anything, must_pass, basename)
import cf

WANT_TF = 'Plan::kWantToFinish'
WANT_TS = 'Plan::kWantToStart'


def is_release(e):
    return e['k'] == 'call' and e.get('name') == 'Jobserver::Client::Release' and \
        mentions_field(e.get('args'), 'Edge::job_slot_') if False else \
        (e['k'] == 'call' and e.get('name') == 'Jobserver::Client::Release' and
         any(mentions_field(a, 'Edge::job_slot_') for a in e.get('args', [])))


def jobserver_absent_edge(f):
    """edge_ok that follows only the 'jobserver is configured' side of tests on builder_ /
    jobserver_ (the pairing obligations are conditional on a jobserver being present)."""
    def present(a):
        a = strip(a)
        return isinstance(a, dict) and (
            (a.get('k') == 'mem' and a['n'] in ('Plan::builder_', 'RealCommandRunner::jobserver_', 'Builder::jobserver_'))
            or (a.get('k') == 'call' and basename(a.get('name') or '') == 'get' and
                mentions_field(a.get('recv'), 'Builder::jobserver_')))

    def value(a):
        """truth of a condition when a jobserver is configured (None: depends on something else)"""
        at, pol = norm_cond(f.prog, a)
        s = strip(at)
        v = None
        if present(s):
            v = True
        elif isinstance(s, dict) and s.get('k') == 'bin' and s.get('op') in ('&&', '||'):
            l, r = value(s['l']), value(s['r'])
            if s['op'] == '&&':
                v = False if (l is False or r is False) else (True if (l and r) else None)
            else:
                v = True if (l or r) else (False if (l is False and r is False) else None)
        return None if v is None else (v == pol)

    def ok(b, i, s):
        for key, pol, atom in f.edge_facts(b, i, all=True):
            v = value(atom)
            if v is not None:
                return v == pol
        return True
    return ok


def releases_on_all_paths(prog, f):
    """Every entry->return path of f passes a Release of an Edge::job_slot_ (jobserver
    assumed present)."""
    r = f.find_path(None, lambda x: x['k'] in ('ret', 'exit'), is_blocker=is_release,
                    from_succ=f.entry, edge_ok=jobserver_absent_edge(f))
    return r is None, r


def run(ctx):
    prog = ctx.prog
    R = ctx.rule

    # ---- R1: pool accounting --------------------------------------------------------------------
    R('C06.R1', 'R', 'Pool::current_use_ is written only by EdgeScheduled (+=) and EdgeFinished '
      '(-=) with the same operand under the same guard; EdgeScheduled accompanies every push to a '
      'ready queue; RetrieveReadyEdges pushes only while current_use_ + weight <= depth_')
    allowed = {'Pool::Pool': 'constructor (=0)', 'Pool::EdgeScheduled': '+= weight',
               'Pool::EdgeFinished': '-= weight'}
    who_may_write(ctx, 'C06.R1', 'Pool::current_use_', allowed, 'pool usage counter')
    sig = {}
    for name in ('Pool::EdgeScheduled', 'Pool::EdgeFinished'):
        f = prog.fn(name)
        ws = [(e, kind, rhs) for ff, e, kind, rhs in field_writes(prog, 'Pool::current_use_', [f])]
        if len(ws) != 1:
            ctx.violation('C06.R1', name, 'current_use_:write-count', f.loc,
                          '%s writes current_use_ %d times' % (name, len(ws)))
            continue
        e, kind, rhs = ws[0]
        sig[name] = (kind, dstr(rhs), tuple(sorted(('' if p else '!') + k
                                                   for k, (p, a) in f.facts_at(e).items())))
    if len(sig) == 2:
        a, b = sig['Pool::EdgeScheduled'], sig['Pool::EdgeFinished']
        ctx.check('C06.R1', a[0] == '+=' and b[0] == '-=' and a[1] == b[1] and a[2] == b[2],
                  'Pool::EdgeFinished', 'current_use_:sibling-disagreement', prog.fn('Pool::EdgeFinished').loc,
                  'EdgeScheduled (%s %s under %s) and EdgeFinished (%s %s under %s) are inverse' % (
                      a[0], a[1], list(a[2]), b[0], b[1], list(b[2])))
    # pushes onto a ready queue (priority_queue<Edge*>::push) are paired with EdgeScheduled
    npush = 0
    for f in prog.functions.values():
        for e in f.events('call'):
            nm = e.get('name') or ''
            if basename(nm) == 'push' and 'priority_queue<Edge' in nm:
                npush += 1
                blk = f.blocks[e['_b']]['ev']
                paired = any(x['k'] == 'call' and x.get('name') == 'Pool::EdgeScheduled' for x in blk)
                ctx.check('C06.R1', paired, f.name, 'ready-push:without-EdgeScheduled', f.where(e),
                          'push onto the ready queue in %s is accompanied by Pool::EdgeScheduled' % f.name)
                # (which Plan / Pool method pushes is not the point: every such site is an admission site and has to satisfy the
                # pairing above and the typestate rule C06.G1 below; nobody outside the plan may push)
                ctx.check('C06.R1', f.cls in ('Plan', 'Pool'),
                          f.name, 'ready-push:unexpected-site', f.where(e),
                          'ready-queue pushes happen only inside Plan / Pool (%s)' % f.name)
    for f, e in calls_to(prog, 'Pool::EdgeScheduled'):
        blk = f.blocks[e['_b']]['ev']
        paired = any(x['k'] == 'call' and basename(x.get('name') or '') == 'push' and
                     'priority_queue<Edge' in (x.get('name') or '') for x in blk)
        ctx.check('C06.R1', paired, f.name, 'EdgeScheduled:without-push', f.where(e),
                  'Pool::EdgeScheduled in %s accompanies a push onto the ready queue' % f.name)
    rre = prog.fn('Pool::RetrieveReadyEdges')
    for e in rre.calls():
        if basename(e.get('name') or '') == 'push':
            def depth_guard(a):
                a = strip(a)
                return isinstance(a, dict) and a.get('k') == 'bin' and a['op'] == '<' and \
                    is_field('Pool::depth_')(a['l']) and mentions_field(a['r'], 'Pool::current_use_') \
                    and mentions_call(a['r'], 'Edge::weight')
            guarded(ctx, 'C06.R1', rre, e, depth_guard, False,
                    'delayed edge released only while current_use_ + weight <= depth_',
                    construct='RetrieveReadyEdges:push-unguarded')
    # release in Plan::EdgeFinished: guarded by directly_wanted, NOT by result, before any return
    pef = prog.fn('Plan::EdgeFinished')
    n = 0
    for e in pef.calls('Pool::EdgeFinished'):
        n += 1
        guarded(ctx, 'C06.R1', pef, e, lambda a: mentions_enum(a, 'Plan::kWantNothing'), False,
                'pool slot released only for an edge that occupied one (want != kWantNothing)',
                construct='Pool::EdgeFinished:not-guarded-by-wanted')
        guarded(ctx, 'C06.R1', pef, e, lambda a: any(
            x.get('k') == 'var' and 'EdgeResult' in (x.get('ty') or '') for x in walk(a)), None,
            'pool slot released whatever the result (also on failure)',
            construct='Pool::EdgeFinished:guarded-by-result', forbidden=True)
    if n == 0:
        ctx.violation('C06.R1', pef.name, 'Pool::EdgeFinished:absent', pef.loc,
                      'Plan::EdgeFinished no longer releases the pool')
    for e in pef.calls('Pool::RetrieveReadyEdges'):
        guarded(ctx, 'C06.R1', pef, e, lambda a: any(
            x.get('k') == 'var' and 'EdgeResult' in (x.get('ty') or '') for x in walk(a)), None,
            'delayed edges are retrieved whatever the result', construct='RetrieveReadyEdges:guarded-by-result',
            forbidden=True)
    # ... and for every such edge: the slot accounting of Plan::ScheduleWork (EdgeScheduled for whatever it admits,
    # phony or not) is undone for every finished edge that was wanted, and the delayed edges of the pool are looked at
    # after every finished edge - no other condition (edge kind, result) stands between
    must_pass(ctx, 'C06.R1', pef, lambda x: x['k'] == 'call' and x.get('name') == 'Pool::EdgeFinished',
              lambda x: x['k'] in ('ret', 'exit'),
              'every finished edge that was wanted gives its pool slot back', 'Pool::EdgeFinished:skipped',
              edge_ok=lambda b, i, s: not any((pol is True and mentions_enum(a, 'Plan::kWantNothing') and strip(a).get('k') == 'bin' and strip(a).get('op') == '==')
                                              for k, pol, a in pef.edge_facts(b, i)))
    must_pass(ctx, 'C06.R1', pef, lambda x: x['k'] == 'call' and x.get('name') == 'Pool::RetrieveReadyEdges',
              lambda x: x['k'] in ('ret', 'exit'),
              'after every finished edge the delayed edges of its pool are retrieved', 'RetrieveReadyEdges:skipped')
    ctx.floor('C06.R1', 14)
    ctx.table('C06.R1.writers', allowed)

    # ---- G1: admission typestate ------------------------------------------------------------------
    R('C06.G1', 'G', 'every admission of a plan entry (Pool::DelayEdge / Pool::EdgeScheduled / push '
      'onto ready_ in a Plan method) is reachable only after a test excluding kWantToFinish and is '
      'accompanied on every path by the write want = kWantToFinish')
    nadm = 0
    adm_kinds = set()
    for f in prog.functions.values():
        if f.cls != 'Plan':
            continue
        adm = []
        for e in f.events('call'):
            nm = e.get('name') or ''
            if nm in ('Pool::DelayEdge', 'Pool::EdgeScheduled') or (
                    basename(nm) == 'push' and mentions_field(e.get('recv'), 'Plan::ready_')):
                adm.append(e)
        if not adm:
            continue

        def is_flip(x):
            return x['k'] == 'asg' and x['op'] == '=' and is_enum(WANT_TF)(x.get('r'))

        def state_test_edge(b, i, s, f=f):
            # refuse edges that establish "not already scheduled"; a path avoiding all of them
            # reaches the admission without the state having been examined
            ef = f.edge_fact(b, i)
            if not ef:
                return True
            key, pol, atom = ef
            a = strip(atom)
            if isinstance(a, dict) and a.get('k') == 'bin' and a['op'] == '==':
                if is_enum(WANT_TF)(a['r']) and pol is False:
                    return False
                if is_enum(WANT_TS)(a['r']) and pol is True:
                    return False
            return True
        for e in adm:
            nadm += 1
            adm_kinds.add(basename(e.get('name') or '').split('::')[-1])
            # (a) state examined
            r = f.find_path(None, lambda x: x is e, from_succ=f.entry, edge_ok=state_test_edge,
                            sensitive=False)
            ctx.check('C06.G1', r is None, f.name, 'admission-without-state-test:%s' % e.get('name'),
                      f.where(e), 'admission `%s` in %s is reachable only after a test that excludes '
                      'kWantToFinish' % (e.get('src'), f.name),
                      witness=None if r is None else {'blocks': r[0]})
            # (b) state flipped on every path through the admission
            before = f.find_path(None, lambda x: x is e, is_blocker=is_flip, from_succ=f.entry)
            after = f.find_path(e, lambda x: x['k'] in ('ret', 'exit'), is_blocker=is_flip) \
                if before is not None else None
            # a loop iteration ends at the loop back edge as well: treat re-reaching the
            # admission's loop header as an exit by searching to any ret/exit only
            ok = before is None or after is None
            ctx.check('C06.G1', ok, f.name, 'admission-without-kWantToFinish:%s' % e.get('name'),
                      f.where(e), 'admission `%s` in %s is accompanied by want = kWantToFinish' % (
                          e.get('src'), f.name),
                      witness=None if ok else {'before': before[0], 'after': after[0]})
    # floor by kind, not by count: merging two sites that admit the same way is a refactoring, losing a whole kind of
    # admission (delayed in a pool / counted by a pool / pushed on the ready queue) means the anchors drifted
    if not {'DelayEdge', 'EdgeScheduled', 'push'} <= adm_kinds:
        ctx.floor_failures.append('C06.G1 found admission kinds %s in %d sites (DelayEdge, EdgeScheduled and a ready_ push confirmed)' % (sorted(adm_kinds), nadm))
    # the re-entry tests read exactly that state
    sw = prog.fn('Plan::ScheduleWork')
    rets = [e for e in sw.events('ret')]
    ok = any(fact_holds(sw.facts_at(e), atom_cmp('==', anything, is_enum(WANT_TF)), True) for e in rets)
    ctx.check('C06.G1', ok, sw.name, 'ScheduleWork:no-early-return-on-kWantToFinish', sw.loc,
              'ScheduleWork returns early for an entry that is already kWantToFinish')
    ast = prog.fn('Plan::AddSubTarget')
    ok = any(fact_holds(ast.facts_at(e), atom_cmp('==', anything, is_enum(WANT_TF)), True) and
             fact_holds(ast.facts_at(e), is_var('dyndep_walk'), True)
             for e in ast.events('ret'))
    ctx.check('C06.G1', ok, ast.name, 'AddSubTarget:dyndep-walk-reenters-scheduled', ast.loc,
              'the dyndep walk in AddSubTarget skips entries that are already kWantToFinish')
    # who may write a Want state
    R('C06.W2', 'W', 'writers of plan entries (Plan::Want values)')
    want_writers = {}
    for f in prog.functions.values():
        for e in f.events('asg'):
            r = strip(e.get('r'))
            if isinstance(r, dict) and r.get('k') == 'enum' and r['n'].startswith('Plan::kWant'):
                want_writers.setdefault(f.name, set()).add(r['n'])
    expected = {
        'Plan::AddSubTarget': {'Plan::kWantToStart'},
        'Plan::RefreshDyndepDependents': {'Plan::kWantToStart'},
        'Plan::ScheduleWork': {'Plan::kWantToFinish'},
        'Plan::ScheduleInitialEdges': {'Plan::kWantToFinish'},
        'Plan::CleanNode': {'Plan::kWantNothing'},
    }
    for fn_name, vals in sorted(want_writers.items()):
        exp = expected.get(fn_name, set())
        ctx.check('C06.W2', vals <= exp, fn_name, 'want-write:%s' % ','.join(sorted(vals - exp)),
                  prog.fns(fn_name)[0].loc, '%s writes Want values %s (table: %s)' % (
                      fn_name, sorted(vals), sorted(exp)))
    ctx.floor('C06.W2', 4)
    # kWantToStart is only written over kWantNothing
    for fn_name in ('Plan::AddSubTarget', 'Plan::RefreshDyndepDependents'):
        f = prog.fn(fn_name)
        for e in f.events('asg'):
            if is_enum(WANT_TS)(e.get('r')):
                guarded(ctx, 'C06.G1', f, e, atom_cmp('==', anything, is_enum('Plan::kWantNothing')),
                        True, 'kWantToStart only replaces kWantNothing (never a scheduled entry)',
                        construct='kWantToStart-over-non-nothing')
    # ready_.pop only in FindWork
    R('C06.W3', 'W', 'the ready queue is popped only by Plan::FindWork; a popped edge is returned')
    for f in prog.functions.values():
        for e in f.events('call'):
            if basename(e.get('name') or '') == 'pop' and mentions_field(e.get('recv'), 'Plan::ready_'):
                ctx.check('C06.W3', f.name == 'Plan::FindWork', f.name, 'ready_.pop:unexpected-site',
                          f.where(e), 'ready_.pop() in %s' % f.name)
                top = [d['n'] for d in f.events('decl') if d.get('init') is not None and
                       basename((strip(d['init']) or {}).get('name') or '') == 'top']
                r = f.find_path(e, lambda x: x['k'] in ('ret', 'exit') and
                                not (x['k'] == 'ret' and any(mentions_var(x.get('e'), t) for t in top)),
                                is_blocker=lambda x: x['k'] == 'ret' and
                                any(mentions_var(x.get('e'), t) for t in top))
                ctx.check('C06.W3', r is None, f.name, 'ready_.pop:edge-dropped', f.where(e),
                          'after ready_.pop() the popped edge is returned')
    ctx.floor('C06.W3', 2)

    # ---- R2: jobserver slot pairing ------------------------------------------------------------
    R('C06.R2', 'R', 'a slot acquired in Plan::FindWork is, on every path of Builder::Build to a '
      'return / next iteration, released, or handed to the command runner (StartEdge succeeded for '
      'a non-phony edge); a completed command always reaches a function that releases on all paths')
    who_may_call(ctx, 'C06.R2', 'Jobserver::Client::TryAcquire',
                 {'Plan::FindWork': 'the only acquisition site; result stored in Edge::job_slot_'},
                 'slot acquisition')
    fw = prog.fn('Plan::FindWork')
    for e in fw.calls('Jobserver::Client::TryAcquire'):
        stored = any(x['k'] == 'call' and x.get('name') == 'Jobserver::Slot::operator=' and
                     mentions_field(x.get('recv'), 'Edge::job_slot_') and
                     mentions_call(x.get('args'), 'Jobserver::Client::TryAcquire') if False else
                     (x['k'] == 'call' and x.get('name') == 'Jobserver::Slot::operator=' and
                      mentions_field(x.get('recv'), 'Edge::job_slot_'))
                     for x in fw.blocks[e['_b']]['ev'])
        ctx.check('C06.R2', stored, fw.name, 'TryAcquire:not-stored-in-job_slot_', fw.where(e),
                  'acquired slot is stored in Edge::job_slot_')
    # functions that release on all of their paths (computed, not named)
    releasers = set()
    for f in prog.functions.values():
        if any(is_release(x) for x in f.events('call')):
            ok, _ = releases_on_all_paths(prog, f)
            if ok:
                releasers.add(f.name)
    ctx.table('C06.R2.releasers', sorted(releasers))
    ctx.check('C06.R2', 'Plan::EdgeFinished' in releasers, 'Plan::EdgeFinished',
              'EdgeFinished:not-releasing-on-all-paths', prog.fn('Plan::EdgeFinished').loc,
              'Plan::EdgeFinished releases the edge\'s slot on every path (success and failure)')
    build = prog.fn('Builder::Build')

    def is_rel_or_releaser(x):
        return is_release(x) or (x['k'] == 'call' and x.get('name') in releasers)

    def transfer_edge(b, i, s, f=build):
        # not following the edge "StartEdge succeeded and the edge is not phony": ownership has
        # moved to the command runner (its Abort() releases, see ClearJobTokens below)
        ef = f.edge_fact(b, i)
        if ef:
            key, pol, atom = ef
            if (mentions_field(atom, 'Rule::phony_') or mentions_call(atom, 'Edge::is_phony')) \
                    and pol is False:
                # only a transfer if StartEdge was called before on this path: checked below
                return False
        return jobserver_absent_edge(f)(b, i, s)
    nfw = 0
    for e in build.calls('Plan::FindWork'):
        nfw += 1
        from rules import failure_successor
        # successor where FindWork returned non-null
        var = None
        for d in build.blocks[e['_b']]['ev']:
            if d['k'] == 'decl' and d.get('init') and mentions_call(d['init'], 'Plan::FindWork'):
                var = d['n']
        bid = e['_b']
        succ = None
        for i, s in enumerate(build.blocks[bid]['succ']):
            ef = build.edge_fact(bid, i)
            if ef and is_var(var)(ef[2]) and ef[1] is True:
                succ = s
        if succ is None:
            ctx.violation('C06.R2', build.name, 'FindWork:result-not-tested', build.where(e),
                          'result of Plan::FindWork is not tested for null right away')
            continue
        r = build.find_path(None, lambda x: x['k'] in ('ret', 'exit', 'noreturn') or
                            (x['k'] == 'call' and x.get('name') == 'Plan::FindWork'),
                            is_blocker=is_rel_or_releaser, from_succ=succ, edge_ok=transfer_edge)
        ctx.check('C06.R2', r is None, build.name, 'slot-held-at-exit', build.where(e),
                  'after a successful FindWork every path releases the slot or hands the edge to '
                  'the runner', witness=None if r is None else
                  {'blocks': r[0], 'reaches': r[1].get('src') or r[1]['k']})
        # the transfer edge really follows a successful StartEdge
        for b2 in build.blocks:
            for i2, s2 in enumerate(build.blocks[b2]['succ']):
                ef = build.edge_fact(b2, i2)
                if ef and ef[1] is False and (mentions_field(ef[2], 'Rule::phony_')):
                    f2 = build.facts_at_block(s2) if s2 is not None else {}
                    ok = fact_holds(f2, lambda a: mentions_call(a, 'Builder::StartEdge'), True)
                    ctx.check('C06.R2', ok, build.name, 'transfer-without-StartEdge',
                              'src/build.cc:%d' % build.term(b2)['line'],
                              'the non-phony branch after FindWork is entered only when StartEdge '
                              'succeeded')
    if nfw == 0:
        raise AnalysisBroken('Builder::Build no longer calls Plan::FindWork')
    # StartEdge: `return true` only for phony edges or after StartCommand succeeded
    se = prog.fn('Builder::StartEdge')
    for e in se.events('ret'):
        if const_value(e.get('e')) == 1:
            facts = se.facts_at(e)
            ok = fact_holds(facts, lambda a: mentions_field(a, 'Rule::phony_'), True) or \
                fact_holds(facts, lambda a: mentions_call(a, 'CommandRunner::StartCommand'), True)
            ctx.check('C06.R2', ok, se.name, 'StartEdge:true-without-runner-ownership', se.where(e),
                      'StartEdge returns true only for a phony edge or after '
                      'CommandRunner::StartCommand succeeded (edge is in the active set)')
    # RealCommandRunner::StartCommand: true only after the edge is in subproc_to_edge_
    sc = prog.fn('RealCommandRunner::StartCommand')
    for e in sc.events('ret'):
        if const_value(e.get('e')) == 1:
            r = sc.find_path(None, lambda x: x is e, from_succ=sc.entry,
                             is_blocker=lambda x: x['k'] == 'call' and basename(x.get('name') or '') in ('insert', 'emplace', 'operator[]') and
                             mentions_field(x.get('recv'), 'RealCommandRunner::subproc_to_edge_'))
            ctx.check('C06.R2', r is None, sc.name, 'StartCommand:true-without-tracking', sc.where(e),
                      'StartCommand returns true only after recording the edge in subproc_to_edge_')
    # completed command: FinishCommand's returns
    fc = prog.fn('Builder::FinishCommand')
    for e in fc.events('ret'):
        v = const_value(e.get('e'))
        if v == 0:
            ctx.inst('C06.R2', fc.where(e), 'FinishCommand `return false`: the caller releases '
                     '(checked below)')
            continue
        # value true / forwarded: must have passed a releaser
        r = fc.find_path(None, lambda x: x is e, from_succ=fc.entry, is_blocker=is_rel_or_releaser)
        ctx.check('C06.R2', r is None, fc.name, 'FinishCommand:return-without-release', fc.where(e),
                  'FinishCommand reaches `%s` only through a function that releases the slot' % e.get('src'),
                  witness=None if r is None else {'blocks': r[0]})
    for e in build.calls('Builder::FinishCommand'):
        # on the failure side of FinishCommand, Release precedes the return
        fs = None
        for b2 in build.blocks:
            for i2, s2 in enumerate(build.blocks[b2]['succ']):
                ef = build.edge_fact(b2, i2)
                if ef and ef[1] is False and (mentions_call(ef[2], 'Builder::FinishCommand') or
                                              is_var('command_finished')(ef[2])):
                    fs = s2
        if fs is None:
            ctx.violation('C06.R2', build.name, 'FinishCommand:result-not-tested', build.where(e),
                          'result of FinishCommand is not tested in Build')
            continue
        r = build.find_path(None, lambda x: x['k'] in ('ret', 'exit', 'noreturn'), from_succ=fs,
                            is_blocker=is_release, edge_ok=jobserver_absent_edge(build))
        ctx.check('C06.R2', r is None, build.name, 'FinishCommand-failed:slot-held-at-exit',
                  build.where(e), 'when FinishCommand fails, Build releases the edge\'s slot before '
                  'returning', witness=None if r is None else {'blocks': r[0]})
    # a reaped (completed) command has left the runner: on every path of Build from the wait to
    # a return it is handed to FinishCommand or its slot is released, unless a test established
    # that the result is not a completed command
    for e in build.calls('CommandRunner::WaitForCommandOrJobserverToken'):
        def not_completed(b, i, s):
            ef = build.edge_fact(b, i)
            if not ef:
                return jobserver_absent_edge(build)(b, i, s)
            k, pol = ef[0], ef[1]
            # interrupted()/finished()/jobserver_token_available() true, or command_completed() false
            if 'holds_alternative<BuildResult::CommandCompleted>' in k and pol is False:
                return False
            if 'holds_alternative<BuildResult::' in k and 'CommandCompleted' not in k.split('>')[0] and pol is True:
                return False
            return jobserver_absent_edge(build)(b, i, s)
        r = build.find_path(e, lambda x: x['k'] in ('ret', 'exit'),
                            is_blocker=lambda x: is_release(x) or (x['k'] == 'call' and x.get('name') == 'Builder::FinishCommand')
                            or x['k'] == 'noreturn', edge_ok=not_completed)
        ctx.check('C06.R2', r is None, build.name, 'completed-command:dropped-without-release', build.where(e),
                  'a command reaped by the runner reaches FinishCommand or has its slot released before Build returns',
                  witness=None if r is None else {'blocks': r[0], 'reaches': r[1].get('src')})
    # runner side: Abort -> ClearJobTokens releases every active edge; Cleanup calls Abort;
    # the destructor calls Cleanup
    # (the release loop lives in ClearJobTokens(), or directly in Abort() when that helper was merged into its only caller)
    cjt_l = prog.by_name.get('RealCommandRunner::ClearJobTokens') or []
    cjt = cjt_l[0] if cjt_l else prog.fn('RealCommandRunner::Abort')
    rels = [x for x in cjt.events('call') if is_release(x)]
    from rules import origins
    from model import vars_in
    # (over GetActiveEdges(), or directly over the map GetActiveEdges() enumerates)
    ok = bool(rels) and all(
        any('GetActiveEdges' in dstr(o) or 'RealCommandRunner::subproc_to_edge_' in dstr(o) for v in vars_in(x['args'][0])
            for o in origins(cjt, {'k': 'var', 'n': v, 'vk': 'local'})) or
        'RealCommandRunner::subproc_to_edge_' in dstr(deep_resolve(cjt, deep_resolve(cjt, x['args'][0])))
        for x in rels)
    if not ok and rels:
        full_ = [l_ for l_ in loops_over(cjt, 'RealCommandRunner::subproc_to_edge_') if l_['full']]
        ok = bool(full_) and all(any(mentions_var(deep_resolve(cjt, deep_resolve(cjt, x['args'][0])), l_['var']) for l_ in full_) for x in rels)
    ctx.check('C06.R2', ok, cjt.name, 'ClearJobTokens:not-over-active-edges', cjt.loc,
              'ClearJobTokens releases the slot of every element of GetActiveEdges()')
    ab = prog.fn('RealCommandRunner::Abort')
    calls = [x.get('name') for x in ab.events('call')]
    # both happen on every path of Abort(), and the tokens go back only after the commands that ran on them were stopped
    # (SubprocessSet::Clear signals and reaps them): a token handed back earlier can be given to another client of the
    # jobserver while "its" command is still running (D35; the rule used to demand the opposite order, see DESIGN 11.10)
    clr_ = [x for x in ab.events('call') if x.get('name') == 'SubprocessSet::Clear']
    rel_ = [x for x in ab.events('call') if x.get('name') == 'RealCommandRunner::ClearJobTokens' or is_release(x)]
    ok = bool(clr_) and bool(rel_) and all(any(ab.dominates_ev(c, r_) for c in clr_) for r_ in rel_)
    ctx.check('C06.R2', ok, ab.name, 'Abort:tokens-returned-before-commands-stopped', ab.loc,
              'Abort() stops the subprocesses (SubprocessSet::Clear) before it returns the tokens of the active edges')
    # "returns the tokens" on a path = the helper is called, or the loop over all active edges whose body releases is entered
    # (with a jobserver configured; the loop may of course run zero times)
    loop_hdr_events = []
    for bid_, b_ in ab.blocks.items():
        t_ = b_.get('term')
        if t_ and t_['kind'] in ('range', 'for', 'while') and len(b_['succ']) == 2 and \
                any(is_release(x) for bb in ab.reachable_from(b_['succ'][0]) | {b_['succ'][0]} for x in ab.blocks[bb]['ev']) and \
                bid_ in ab.reachable_from(b_['succ'][0]):
            loop_hdr_events += [x for x in b_['ev']]
    rel_paths = [x for x in rel_ if x.get('name') == 'RealCommandRunner::ClearJobTokens'] + loop_hdr_events
    for tgt, what in ((clr_, 'stops the subprocesses'), (rel_paths, 'returns the tokens')):
        r_ = ab.find_path(None, lambda x: x['k'] == 'ret' or x.get('k') == 'exit', from_succ=ab.entry, is_blocker=lambda x: any(x is y for y in tgt),
                          edge_ok=jobserver_absent_edge(ab))
        r2_ = _exit_reached_without(ab, tgt, jobserver_absent_edge(ab)) if r_ is None else r_
        ctx.check('C06.R2', bool(tgt) and r_ is None and r2_ is None, ab.name, 'Abort:path-skips:%s' % what.split()[0], ab.loc, 'every path of Abort() %s' % what)
    gae = prog.fn('RealCommandRunner::GetActiveEdges')
    ok = any(mentions_field(x.get('args'), 'RealCommandRunner::subproc_to_edge_') or
             'subproc_to_edge_' in dstr(x.get('init') or x.get('recv')) for x in gae.events())
    ctx.check('C06.R2', ok, gae.name, 'GetActiveEdges:not-from-subproc_to_edge_', gae.loc,
              'GetActiveEdges enumerates subproc_to_edge_')
    check_active_edges(ctx, 'C06.R2', prog)
    cl = prog.fn('Builder::Cleanup')
    ctx.check('C06.R2', any(True for _ in cl.calls('CommandRunner::Abort')), cl.name,
              'Cleanup:no-Abort', cl.loc, 'Builder::Cleanup aborts the command runner')
    dt = prog.fn('Builder::~Builder')
    ctx.check('C06.R2', any(True for _ in dt.calls('Builder::Cleanup')), dt.name,
              'dtor:no-Cleanup', dt.loc, 'Builder::~Builder runs Cleanup (covers every return of RunBuild)')
    # release in Plan::EdgeFinished independent of the result
    for e in pef.events('call'):
        if is_release(e):
            guarded(ctx, 'C06.R2', pef, e, lambda a: any(
                x.get('k') == 'var' and 'EdgeResult' in (x.get('ty') or '') for x in walk(a)), None,
                'slot released whatever the result', construct='Release:guarded-by-result',
                forbidden=True)
    ctx.floor('C06.R2', 14)

    # ---- R3: process exit while slots may be held -----------------------------------------------
    R('C06.R3', 'EF', 'no process-exit effect (exit/abort through Fatal) is reachable from the '
      'functions that run while jobserver slots are held')
    roots = ('Builder::StartEdge', 'Builder::FinishCommand',
             'RealCommandRunner::WaitForCommandOrJobserverToken', 'Plan::FindWork')
    sites = {}
    for name in roots:
        f = prog.fn(name)
        for fid in prog.reachable_fns([f.id]):
            g = prog.functions.get(fid)
            if g is None or g.name == 'Fatal':
                continue
            for e in g.calls():
                if e.get('name') in ('Fatal', 'exit', '_exit', 'abort', 'std::abort', 'quick_exit'):
                    sites.setdefault(g.name, []).append((name, g.where(e), e.get('src', '')[:90]))
    for site, lst in sorted(sites.items()):
        root, where, src = lst[0]
        if site in EXIT_SITES:
            ctx.inst('C06.R3', where, 'exit site in %s reachable from %s: %s — %s' % (
                site, root, src, EXIT_SITES[site]))
        else:
            ctx.violation('C06.R3', site, 'exit-while-slots-held', where,
                          'process exit (no destructors, no token release) in %s is reachable from '
                          '%s while jobserver slots are held: %s' % (site, root, src),
                          witness={'roots': sorted({r for r, w, s2 in lst})})
    ctx.table('C06.R3.exit_sites', EXIT_SITES)
    ctx.floor('C06.R3', 5)

    # ---- L1: progress guarantee of the capacity function --------------------------------------
    R('C06.L1', 'VS', 'interval analysis over every path of CommandRunner::CanRunMore implementations: '
      'the returned capacity is >= 1 unless the path established that a command is running (so the '
      'main loop never ends "stuck" with work ready and nothing running)')
    import pathint
    for name in ('RealCommandRunner::CanRunMore', 'DryRunCommandRunner::CanRunMore'):
        f = prog.fn(name)
        caps = [d['n'] for d in f.events('decl') if d['n'].split('#')[0] == 'capacity']
        if not caps:
            rets = list(f.events('ret'))
            v = const_value(rets[0].get('e')) if rets else None
            if v is not None and v < 0 and f.retk == 'uint':
                v += 1 << 64            # SIZE_MAX is serialised as a signed 64-bit value
            ctx.check('C06.L1', len(rets) == 1 and v is not None and v >= 1, name, 'capacity:constant', f.loc,
                      '%s returns the constant %s' % (name, v))
            continue
        def tag(bid, idx, efs):
            for k, pol, atom in efs:
                if 'running_.empty()' in k and pol is False:
                    return 'something-running'
            return None
        res = pathint.return_intervals(f, caps[0], tag_edge=tag)
        for (lo, hi), tags, path, e in res:
            ok = lo >= 1 or 'something-running' in tags
            ctx.check('C06.L1', ok, name, 'capacity:zero-while-idle', f.where(e),
                      'path %s returns capacity in [%s, %s]%s' % (path, lo, hi, ' with a command running' if tags else ''),
                      witness=None if ok else {'blocks': path, 'interval': [str(lo), str(hi)]})
        ctx.check('C06.L1', len(res) >= 4, name, 'capacity:paths', f.loc, '%d return paths analysed' % len(res))
    # the -j bound is dropped only for a jobserver client, and an explicit -j (or -n) rules that client out
    crm = prog.fn('RealCommandRunner::CanRunMore')
    for e in crm.events('asg'):
        if is_var('capacity')(e['l']) and (const_value(e.get('r')) or 0) >= 2 ** 31 - 1:
            guarded(ctx, 'C06.L1', crm, e, lambda a: mentions_field(a, 'RealCommandRunner::jobserver_'), True,
                    'the parallelism bound is lifted only when a jobserver client exists', construct='capacity:unbounded-without-jobserver')
    flags = {}
    for f2, e2, kind, rhs in field_writes(prog, 'BuildConfig::disable_jobserver_client'):
        if f2.name == 'ReadFlags' and const_value(rhs) == 1:
            for k, (pol, atom) in f2.facts_at(e2).items():
                a = strip(atom)
                if pol and isinstance(a, dict) and a.get('k') == 'bin' and a['op'] == '==' and const_value(a['r']) in (ord('j'), ord('n')) and \
                        mentions_var(a['l'], 'opt'):
                    flags[chr(const_value(a['r']))] = f2.where(e2)
    ctx.check('C06.L1', 'j' in flags and 'n' in flags, 'ReadFlags', 'explicit-j:jobserver-still-enabled', 'src/ninja.cc',
              'ReadFlags sets disable_jobserver_client for -j (the explicit limit is the limit) and for -n: %s' % flags)
    sj = prog.fn('NinjaMain::SetupJobserverClient')
    mk = [e for e in sj.events('call') if e.get('name') in ('getenv', 'Jobserver::ParseNativeMakeFlagsValue', 'Jobserver::Client::Create')]
    for e in mk:
        guarded(ctx, 'C06.L1', sj, e, lambda a: mentions_field(a, 'BuildConfig::disable_jobserver_client'), False,
                'MAKEFLAGS is consulted only when the client is not disabled', construct='jobserver-client:created-although-disabled')
    # every build that NinjaMain starts - the main one and the manifest regeneration - runs with the jobserver client
    # (when there is one): on every path from the construction of a Builder to its Build() the client is asked for
    # (SetupJobserverClient) and what came back is handed to that Builder
    nb = 0
    for f2 in prog.functions.values():
        if f2.cls != 'NinjaMain':
            continue
        for be in f2.calls('Builder::Build'):
            nb += 1
            asks = [x for x in f2.calls('NinjaMain::SetupJobserverClient')]
            sets = [x for x in f2.calls('Builder::SetJobserverClient')]
            r = f2.find_path(None, lambda x: x is be, from_succ=f2.entry, is_blocker=lambda x: x in asks)
            ctx.check('C06.L1', r is None and bool(sets), f2.name, 'jobserver:build-without-client', f2.where(be),
                      '%s asks for the jobserver client before it calls Builder::Build and hands it to the builder' % f2.name,
                      witness=None if r is None else {'blocks': r[0]})
            for x in sets:
                os_ = [dstr(o) for a in x.get('args') or [] for v_ in walk(a) if v_.get('k') == 'var' for o in origins(f2, v_)]
                ctx.check('C06.L1', any('SetupJobserverClient' in o for o in os_), f2.name, 'jobserver:foreign-client', f2.where(x),
                          'the client handed to the builder is the one SetupJobserverClient returned: %s' % os_[:2])
    ctx.check('C06.L1', nb >= 2, 'NinjaMain', 'jobserver:build-sites', 'src/ninja.cc', '%d Builder::Build call sites in NinjaMain (main build, manifest regeneration)' % nb)
    check_midbuild_targets_scheduled(ctx, 'C06.L1', prog)
    # a console command that has ended is noticed: SIGCHLD signals coalesce (one pending signal may stand for several
    # children), so after a SIGCHLD *every* running console subprocess is polled with waitpid(WNOHANG) - nothing but
    # "not a console subprocess" lets an element of running_ skip TryFinish
    cct = prog.fn('SubprocessSet::CheckConsoleProcessTerminated')
    tf = list(cct.calls('Subprocess::TryFinish'))
    ctx.check('C06.L1', len(tf) == 1, cct.name, 'sigchld:TryFinish-sites', cct.loc, 'one TryFinish(WNOHANG) per console subprocess')
    for l in loops_over(cct, 'SubprocessSet::running_'):
        for e in tf:
            skip_conditions_exact(ctx, 'C06.L1', cct, l, lambda x, e=e: x is e,
                                  [(lambda a: mentions_field(a, 'Subprocess::use_console_'), False)],
                                  'after SIGCHLD every running console subprocess is polled', 'sigchld:console-subprocess-not-polled')
    for f2, e2, kind, rhs in field_writes(prog, 'SubprocessSet::s_sigchld_received'):
        ctx.check('C06.L1', e2.get('init') or const_value(rhs) in (0, 1), f2.name, 'sigchld:flag-carries-data', f2.where(e2),
                  's_sigchld_received is a flag (0/1): one pending SIGCHLD can stand for several terminated children')
    # a token that becomes available is noticed: the pollfd entry DoWork looks at for the jobserver is the jobserver's
    from props.scan_common import check_pollfd_index
    npf = check_pollfd_index(ctx, 'C06.L1', prog)
    uses_pollfd = any((e.get('name') or '').endswith('::push_back') and mentions_var(e.get('recv'), 'fds')
                      for f_ in prog.fns('SubprocessSet::DoWork') for e in f_.events('call'))
    if uses_pollfd:         # the ppoll() variant; the pselect() variant has no positions to keep
        ctx.check('C06.L1', npf >= 1, 'SubprocessSet::DoWork', 'pollfd:saved-index-absent', 'src/subprocess-posix.cc', '%d saved pollfd positions examined' % npf)
    # a completion that is already queued is handed out before the runner blocks again: DoWork() (ppoll without a
    # timeout) is never reached on the side where SubprocessSet::HasFinished() said yes
    wc_ = prog.fn('RealCommandRunner::WaitForCommandOrJobserverToken')
    hf = [(b, i, s2) for b, blk in wc_.blocks.items() for i, s2 in enumerate(blk['succ']) if s2 is not None and
          any((pol is True and mentions_call(atom, 'SubprocessSet::HasFinished')) or
              (pol is False and mentions_field(atom, 'SubprocessSet::finished_') and 'empty' in k)
              for k, pol, atom in wc_.edge_facts(b, i))]
    okq = bool(hf)
    for b, i, s2 in hf:
        okq = okq and wc_.find_path(None, lambda x: x['k'] == 'call' and x.get('name') == 'SubprocessSet::DoWork', from_succ=s2,
                                    init_facts=frozenset((k, pol) for k, pol, atom in wc_.edge_facts(b, i, all=True))) is None
    ctx.check('C06.L1', okq, wc_.name, 'wait:blocks-with-queued-completion', wc_.loc,
              'with a finished command already queued the runner does not call DoWork() (which may block forever)')
    ctx.floor('C06.L1', 16)

    # ---- CF1: a slot cannot be copied or forged -------------------------------------------------
    R('C06.CF1', 'CF', 'Jobserver::Slot is move-only and cannot be constructed from an integer '
      'outside the class (a token cannot be duplicated or forged)')
    wit = [
        ('copy-construct', '#include "jobserver.h"\nvoid w(Jobserver::Slot& a) { Jobserver::Slot b(a); (void)b; }', True),
        ('copy-assign', '#include "jobserver.h"\nvoid w(Jobserver::Slot& a, Jobserver::Slot& b) { b = a; }', True),
        ('forge-from-int', '#include "jobserver.h"\nvoid w() { Jobserver::Slot s(static_cast<int16_t>(5)); (void)s; }', True),
        ('edge-copy-slot', '#include "graph.h"\nvoid w(Edge* a, Edge* b) { b->job_slot_ = a->job_slot_; }', True),
        ('control-move', '#include "jobserver.h"\n#include <utility>\nvoid w(Jobserver::Slot& a) { Jobserver::Slot b(std::move(a)); (void)b; }', False),
        ('control-create', '#include "jobserver.h"\nvoid w() { Jobserver::Slot s = Jobserver::Slot::CreateExplicit(5); (void)s; }', False),
    ]
    for wid, ok, detail in cf.run_witnesses(wit):
        must_fail = [w for w in wit if w[0] == wid][0][2]
        ctx.check('C06.CF1', ok, 'Jobserver::Slot', 'witness:%s' % wid, 'src/jobserver.h',
                  'witness %s %s' % (wid, 'is rejected by the compiler' if must_fail else 'compiles (control)'),
                  msg='witness %s: %s' % (wid, detail))
    # a moved-from slot is invalid: Release(std::move(slot)) and the "release again, no-op" sites rely on it
    for sig in ('Jobserver::Slot::Slot(Jobserver::Slot &&)', 'Jobserver::Slot::operator=(Jobserver::Slot &&)'):
        mv = prog.functions.get(sig)
        if mv is None or not mv.d.get('params'):
            ctx.violation('C06.CF1', sig, 'move:source-stays-valid', 'src/jobserver.h',
                          'no user-written body for %s: a defaulted move copies the token and leaves the source valid' % sig)
            continue
        o = mv.d['params'][0]['n']
        def invalidates(x, o=o):
            return x['k'] == 'asg' and mentions_field(x['l'], 'Jobserver::Slot::value_') and mentions_var(x['l'], o) and \
                const_value(x.get('r')) == -1
        from rules import origins as _origins
        takes = [x for x in mv.stores() if mentions_field(x['l'], 'Jobserver::Slot::value_') and not mentions_var(x['l'], o)
                 and (mentions_var(x.get('r'), o) or any(mentions_var(og, o) and mentions_field(og, 'Jobserver::Slot::value_') for og in _origins(mv, x.get('r'))))]
        ok = bool(takes)
        for t in takes:
            # no path from taking the value to the exit that skips the invalidation ...
            after = mv.find_path(t, lambda x: x['k'] in ('exit', 'ret'), is_blocker=invalidates) is None
            # ... or the source was read into a temporary and invalidated before the store (`tmp = o.value_; o.value_ = -1; value_ = tmp`)
            reads = [x for x in mv.stores() if x is not t and strip(x['l']).get('k') == 'var' and mentions_var(x.get('r'), o) and
                     mentions_field(x.get('r'), 'Jobserver::Slot::value_')]
            inv = [x for x in mv.events('asg') if invalidates(x)]
            before = bool(reads) and bool(inv) and mv.find_path(None, lambda x: x is t, from_succ=mv.entry, is_blocker=invalidates) is None and \
                all(any(mv.ev_reaches(r_, i_) and not mv.ev_reaches(i_, r_) for r_ in reads) for i_ in inv)
            ok = ok and (after or before)
        ctx.check('C06.CF1', ok, sig, 'move:source-stays-valid', mv.loc,
                  'the move takes the token value and sets the source to the invalid value on every path')
    ctx.floor('C06.CF1', 8)

    # ---- W1: console pool ---------------------------------------------------------------------------
    R('C06.W1', 'W', 'the console pool has depth 1 and use_console() is identity with it')
    g = prog.global_('State::kConsolePool')
    init = g.get('init') or {}
    args = init.get('args', [])
    ctx.check('C06.W1', len(args) == 2 and const_value(args[1]) == 1 and 'console' in dstr(args[0]),
              'State::kConsolePool', 'console-pool:depth', 'src/%s:%d' % (g['file'], g['line']),
              'State::kConsolePool is constructed as ("console", 1): %s' % dstr(init))
    uc = prog.fn('Edge::use_console')
    rets = list(uc.events('ret'))
    ok = len(rets) == 1 and 'State::kConsolePool' in dstr(rets[0].get('e')) and \
        mentions_call(rets[0].get('e'), 'Edge::pool')
    ctx.check('C06.W1', ok, uc.name, 'use_console:not-identity', uc.loc,
              'Edge::use_console() is `pool() == &State::kConsolePool`')
    sde = prog.fn('Pool::ShouldDelayEdge')
    rets = list(sde.events('ret'))
    ctx.check('C06.W1', len(rets) == 1 and mentions_field(rets[0].get('e'), 'Pool::depth_'),
              sde.name, 'ShouldDelayEdge', sde.loc, 'ShouldDelayEdge() depends on depth_ only: %s' %
              dstr(rets[0].get('e')) if rets else '')
    ctx.floor('C06.W1', 3)

    check_jobserver_client(ctx)


# Exit sites reachable while slots are held that are NOT counted as violations, with the reason.
EXIT_SITES = {
    'RealCommandRunner::WaitForCommandOrJobserverToken':
        'defensive: default label of a switch over SubprocessSet::WorkResult whose other values are '
        'all handled (NoWork is excluded by the loop above it)',
    'Subprocess::Start':
        'operating-system failure of pipe()/posix_spawn*() in ninja itself; not driven by input, '
        'schedule or command failure (outside the quantifier) — reported, not decided',
    'Subprocess::OnPipeReady':
        'operating-system failure of read() on ninja\'s own pipe; as above',
    'Subprocess::TryFinish':
        'operating-system failure of waitpid() on ninja\'s own child; as above',
    'CheckNinjaVersion':
        'class-hierarchy imprecision: reached only through Parser::Load -> virtual Parse() resolved to '
        'ManifestParser::Parse; on this path the object is a DyndepParser (which rejects '
        'ninja_required_version before ninja_dyndep_version)',
    'emhash8::HashMap<StringPiece, Node *>::rehash':
        'third-party container: abort() on an impossible bucket count',
    'emhash8::HashMap<StringPiece, std::unique_ptr<BuildLog::LogEntry>>::rehash':
        'third-party container: abort() on an impossible bucket count',
}


def check_jobserver_client(ctx):
    """C06.J1: the token protocol of the POSIX jobserver client (the functions behind Jobserver::Client::TryAcquire /
    Release).  A token is one byte taken out of the fifo; it must be handed back as the same byte, exactly when the slot is
    a valid explicit one; the one implicit slot is a flag that TryAcquire clears and Release sets."""
    prog = ctx.prog
    ctx.rule('C06.J1', 'R', 'jobserver client: an explicit slot is created only from a read() that returned exactly one '
             'byte, and carries that byte; the implicit slot is handed out only while the flag is set, which is cleared on '
             'that path; Release writes the slot\'s own byte for every valid explicit slot (retrying on EINTR), sets the '
             'flag for the implicit one, does nothing else; the fifo is opened non-blocking on both ends')
    impls_a = [f for f in prog.functions.values() if f.name.endswith('::TryAcquire') and f.cls and f.cls != 'Jobserver::Client'
               and f.blocks and 'test' not in f.file]
    impls_r = [f for f in prog.functions.values() if f.name.endswith('::Release') and f.cls and f.cls != 'Jobserver::Client'
               and f.blocks and 'test' not in f.file and 'Jobserver' in (f.cls or '')]
    if not impls_a or not impls_r:
        raise AnalysisBroken('C06.J1: no implementation of Jobserver::Client::TryAcquire / Release found')

    def flag_fields(f):
        return {x['n'] for e in f.events() for x in walk(e.get('l') if e['k'] == 'asg' else None) if isinstance(x, dict)
                and x.get('k') == 'mem' and 'bool' in (x.get('ty') or 'bool')} if False else set()

    for f in impls_a:
        cls = f.cls
        nexp = nimp = 0
        for e in f.events('call'):
            nm = e.get('name') or ''
            if nm == 'Jobserver::Slot::CreateExplicit':
                nexp += 1
                # guard: (ret == 1) where ret's only definition is the read() call
                facts = f.facts_at(e)

                def one_byte(a):
                    a = strip(a)
                    if not (isinstance(a, dict) and a.get('k') == 'bin' and a['op'] == '==' and const_value(a['r']) == 1):
                        return False
                    v = deep_resolve(f, a['l'])
                    return mentions_call(v, 'read') or mentions_call(a['l'], 'read') or _only_def_is_call(f, a['l'], 'read')
                ok = fact_holds(facts, one_byte, True)
                ctx.check('C06.J1', ok, f.name, 'explicit-slot:not-behind-read-of-one-byte', f.where(e),
                          'an explicit slot is created only where read() returned 1 - in %s; facts: %s' % (f.name, facts_str(facts)[:8]))
                # the byte: the argument is the variable whose address read() was given
                arg = (e.get('args') or [None])[0]
                bufs = set()
                for r in f.events('call'):
                    if r.get('name') == 'read' and len(r.get('args') or []) == 3:
                        for x in walk(r['args'][1]):
                            if isinstance(x, dict) and x.get('k') == 'var':
                                bufs.add(x['n'])
                        ctx.check('C06.J1', const_value(r['args'][2]) == 1, f.name, 'read:not-one-byte', f.where(r),
                                  'one token = one byte: read() asks for exactly 1 byte in %s' % f.name)
                sa = strip(arg)
                ctx.check('C06.J1', isinstance(sa, dict) and sa.get('k') == 'var' and sa['n'] in bufs and
                          not any(x['k'] == 'asg' and is_var(sa['n'])(x['l']) for x in f.events('asg')),
                          f.name, 'explicit-slot:not-the-byte-read', f.where(e),
                          'the slot carries the byte read() stored (%s), never reassigned - in %s' % (dstr(arg), f.name))
            if nm == 'Jobserver::Slot::CreateImplicit':
                nimp += 1
                facts = f.facts_at_block(e['_b'])      # at the head of the block: the store that clears the flag kills the fact
                flags = [k for k, (pol, a) in facts.items() if pol and isinstance(strip(a), dict) and strip(a).get('k') == 'mem'
                         and strip(a)['n'].startswith(cls + '::')]
                ctx.check('C06.J1', len(flags) >= 1, f.name, 'implicit-slot:not-behind-flag', f.where(e),
                          'the implicit slot is handed out only while the has-implicit-slot flag is set - in %s; facts: %s' % (
                              f.name, facts_str(facts)[:6]))
                for k in flags[:1]:
                    fld = strip(facts[k][1])['n']
                    # on every path from the test to the return the flag is cleared
                    cleared = [x for x in f.blocks[e['_b']]['ev'] if x['k'] == 'asg' and is_field(fld)(x['l'])
                               and const_value(x.get('r')) in (0, False)]
                    r = f.find_path(None, lambda x: x is e, is_blocker=lambda x: x['k'] == 'asg' and is_field(fld)(x['l']) and
                                    const_value(x.get('r')) in (0, False), from_succ=f.entry)
                    r2 = None
                    if r is not None:       # cleared after the creation, before the return?
                        r2 = f.find_path(e, lambda x: x['k'] == 'ret', is_blocker=lambda x: x['k'] == 'asg' and
                                         is_field(fld)(x['l']) and const_value(x.get('r')) in (0, False))
                    ctx.check('C06.J1', r is None or r2 is None, f.name, 'implicit-slot:flag-not-cleared', f.where(e),
                              'handing out the implicit slot clears %s on every path - in %s' % (fld, f.name))
                    allowed = {f.name: 'cleared when the implicit slot is handed out'}
                    for g in impls_r:
                        allowed[g.name] = 'set again when the implicit slot comes back'
                    who_may_write(ctx, 'C06.J1', fld, allowed, 'implicit-slot flag')
        ctx.check('C06.J1', nexp >= 1 and nimp >= 1, f.name, 'TryAcquire:slot-kinds', f.loc,
                  '%s can hand out the implicit slot and explicit slots (%d / %d creation sites)' % (f.name, nimp, nexp))
        # every other return is the invalid slot
        for r in f.events('ret'):
            d = strip(r.get('e'))
            txt = dstr(d)
            ok = 'CreateExplicit' in txt or 'CreateImplicit' in txt or txt.replace(' ', '') in ('Jobserver::Slot{}', 'Jobserver::Slot()') \
                or (isinstance(d, dict) and d.get('k') in ('ctor', 'call') and not (d.get('args') or []))
            ctx.check('C06.J1', ok, f.name, 'TryAcquire:other-slot-returned', f.where(r),
                      'a return of %s is one of the two creations or the invalid slot: %s' % (f.name, txt))

    for f in impls_r:
        writes = [e for e in f.events('call') if e.get('name') == 'write']
        ctx.check('C06.J1', len(writes) >= 1, f.name, 'Release:no-write', f.loc, '%s hands an explicit token back with write()' % f.name)
        for w in writes:
            args = w.get('args') or []
            ctx.check('C06.J1', len(args) == 3 and const_value(args[2]) == 1, f.name, 'write:not-one-byte', f.where(w),
                      'one token = one byte: write() of exactly 1 byte in %s' % f.name)
            # the byte written is slot.GetExplicitValue()
            var = None
            for x in walk(args[1] if len(args) > 1 else None):
                if isinstance(x, dict) and x.get('k') == 'var':
                    var = x['n']
            defs = [e for e in f.events() if (e['k'] == 'decl' and e['n'] == var) or (e['k'] == 'asg' and is_var(var or '?')(e['l']))]
            ok = bool(defs) and all(mentions_call(e.get('init') if e['k'] == 'decl' else e.get('r'), 'Jobserver::Slot::GetExplicitValue')
                                    for e in defs)
            ctx.check('C06.J1', ok, f.name, 'write:not-the-slot-byte', f.where(w),
                      'the byte handed back is the slot\'s own value (%s := GetExplicitValue()) in %s' % (var, f.name))
            facts = f.facts_at(w)
            ctx.check('C06.J1', fact_holds(facts, lambda a: mentions_call(a, 'Jobserver::Slot::IsValid'), True) and
                      fact_holds(facts, lambda a: mentions_call(a, 'Jobserver::Slot::IsImplicit'), False),
                      f.name, 'write:guard', f.where(w),
                      'the write happens for a valid, not implicit slot - in %s; facts: %s' % (f.name, facts_str(facts)[:6]))
            # EINTR: from the write, a return is reached only when the result is not (ret < 0 && errno == EINTR)

            def eintr_retry(b, i, s):
                for key, pol, atom in f.edge_facts(b, i, all=True):
                    a = strip(atom)
                    if pol and isinstance(a, dict) and a.get('k') == 'bin' and a['op'] == '==' and const_value(a['r']) == 4 and \
                            mentions_call(a['l'], '__errno_location'):
                        return False       # the EINTR side: must go round again, we do not follow it
                return True
            r = f.find_path(w, lambda x: x['k'] == 'ret' or x is w, edge_ok=eintr_retry)
            retry_exists = any(pol and const_value(strip(a).get('r')) == 4 for b in f.blocks for i in range(len(f.blocks[b]['succ']))
                               for k, pol, a in f.edge_facts(b, i, all=True) if isinstance(strip(a), dict) and strip(a).get('k') == 'bin'
                               and mentions_call(strip(a).get('l'), '__errno_location'))
            back = f.find_path(w, lambda x: x is w)
            ctx.check('C06.J1', retry_exists and back is not None, f.name, 'write:no-EINTR-retry', f.where(w),
                      'an interrupted write() of a token is repeated (errno == EINTR leads back to the write) in %s' % f.name)
        # every path of a valid explicit slot reaches the write; of a valid implicit one the flag store

        def world(valid, implicit):
            def ok(b, i, s):
                for key, pol, atom in f.edge_facts(b, i, all=True):
                    if mentions_call(atom, 'Jobserver::Slot::IsValid') and strip(atom).get('k') == 'call':
                        if pol != valid:
                            return False
                    if mentions_call(atom, 'Jobserver::Slot::IsImplicit') and strip(atom).get('k') == 'call':
                        if pol != implicit:
                            return False
                return True
            return ok
        r = f.find_path(None, lambda x: x['k'] == 'ret', is_blocker=lambda x: x['k'] == 'call' and x.get('name') == 'write',
                        from_succ=f.entry, edge_ok=world(True, False))
        ctx.check('C06.J1', r is None, f.name, 'Release:explicit-slot-not-written-back', f.loc,
                  'every path of %s with a valid explicit slot passes the write()' % f.name,
                  witness=None if r is None else {'blocks': r[0]})
        flagw = [e for e in f.events('asg') if isinstance(strip(e['l']), dict) and strip(e['l']).get('k') == 'mem' and
                 const_value(e.get('r')) in (1, True)]
        r = f.find_path(None, lambda x: x['k'] == 'ret', is_blocker=lambda x: any(x is y for y in flagw),
                        from_succ=f.entry, edge_ok=world(True, True))
        ctx.check('C06.J1', bool(flagw) and r is None, f.name, 'Release:implicit-slot-not-returned', f.loc,
                  'every path of %s with the implicit slot sets the flag again' % f.name,
                  witness=None if r is None else {'blocks': r[0]})
        # an invalid slot changes nothing
        r = f.find_path(None, lambda x: (x['k'] == 'call' and x.get('name') == 'write') or any(x is y for y in flagw),
                        from_succ=f.entry, edge_ok=world(False, False))
        r = r or f.find_path(None, lambda x: (x['k'] == 'call' and x.get('name') == 'write') or any(x is y for y in flagw),
                             from_succ=f.entry, edge_ok=world(False, True))
        ctx.check('C06.J1', r is None, f.name, 'Release:invalid-slot-acts', f.loc,
                  'an invalid (moved-from / never acquired) slot releases nothing in %s' % f.name)
    # non-blocking fifo ends
    nopen = 0
    for f in prog.functions.values():
        if not (f.cls and 'JobserverClient' in f.cls):
            continue
        for e in f.events('call'):
            if e.get('name') == 'open':
                nopen += 1
                fl = const_value((e.get('args') or [None, None])[1])
                ctx.check('C06.J1', isinstance(fl, int) and fl & 0o4000, f.name, 'open:blocking', f.where(e),
                          'the fifo is opened O_NONBLOCK (TryAcquire must never wait) - flags %s in %s' % (
                              oct(fl) if isinstance(fl, int) else fl, f.name))
    ctx.check('C06.J1', nopen >= 2, 'PosixJobserverClient', 'open:sites', 'src/jobserver-posix.cc:1',
              'both ends of the fifo are opened by the client (%d open() calls)' % nopen)
    ctx.floor('C06.J1', 16)


def _only_def_is_call(f, d, callee):
    d = strip(d)
    if not (isinstance(d, dict) and d.get('k') == 'var'):
        return False
    defs = [e for e in f.events() if (e['k'] == 'asg' and is_var(d['n'])(e['l'])) or
            (e['k'] == 'decl' and e['n'] == d['n'] and e.get('init') is not None and dstr(e.get('init')) != '_')]
    return bool(defs) and all(mentions_call(e.get('r') if e['k'] == 'asg' else e.get('init'), callee) for e in defs)


def _exit_reached_without(f, blockers, edge_ok=None):
    """A way from the entry to the exit block of f that executes none of the events (None if there is none)."""
    seen, st = set(), [f.entry]
    while st:
        b = st.pop()
        if b in seen or b is None:
            continue
        seen.add(b)
        if any(any(e is k for k in blockers) for e in f.blocks[b]['ev']):
            continue
        if b == f.exit:
            return [b]
        st += [x for i, x in enumerate(f.blocks[b]['succ']) if x is not None and (edge_ok is None or edge_ok(b, i, x))]
    return None
