"""C12 — manifest text means what the manual says (DESIGN 5.12)."""
from facts import AnalysisBroken
from model import (facts_str, path_value, store_arms, dstr, strip, fact_holds, mentions_field, mentions_call, mentions_var,
                   mentions_enum, const_value, walk)
from rules import (deep_resolve, answer_sites, reached_only_through, guarded, calls_to, field_writes, who_may_call, full_range, loops_over,
                   every_iteration_passes, basename, origins, is_var, is_enum, lastname,
                   dominated_by, reject_if, must_pass, reached_only_via, canon_before_intern,
                   error_discipline, fallible)
import cf


def var_named(prefix):
    return lambda a: isinstance(strip(a), dict) and strip(a).get('k') == 'var' and \
        strip(a)['n'].split('#')[0] == prefix


def empty_of(varprefix):
    def p(a):
        a = strip(a)
        if not (isinstance(a, dict) and a.get('k') == 'call' and lastname(a.get('name')) == 'empty'):
            return False
        r = strip(a.get('recv'))
        return isinstance(r, dict) and (
            (r.get('k') == 'var' and r['n'].split('#')[0] == varprefix) or
            (r.get('k') == 'mem' and r['n'].endswith('::' + varprefix)))
    return p


def run(ctx):
    prog = ctx.prog
    R = ctx.rule
    mp = {f.name: f for f in prog.functions.values() if f.cls == 'ManifestParser'}
    pe = prog.fn('ManifestParser::ParseEdge')
    pr = prog.fn('ManifestParser::ParseRule')
    pp = prog.fn('ManifestParser::ParsePool')
    pd = prog.fn('ManifestParser::ParseDefault')
    parse = prog.fn('ManifestParser::Parse')
    pfi = prog.fn('ManifestParser::ParseFileInclude')

    # ---- X: documented rejections -----------------------------------------------------------------
    R('C12.X', 'X', 'every documented constraint on manifests has a guard whose violating side '
      'cannot reach a success return of the parser')
    ao = prog.fn('State::AddOut')
    reject_if(ctx, 'C12.X', ao, lambda a: mentions_field(a, 'Node::in_edge_') or var_named('other')(a), True,
              'X1 an output may be produced by one statement only, and only once', 'X1:duplicate-output')
    for e in pe.calls('State::AddOut'):
        ctx.check('C12.X', not e.get('disc'), pe.name, 'X1:AddOut-result-dropped', pe.where(e), 'AddOut failure is propagated')
    reject_if(ctx, 'C12.X', pe, var_named('rule'), False, 'X2 unknown build rule', 'X2:unknown-rule')
    reject_if(ctx, 'C12.X', pe, lambda a: var_named('pool')(a) or
              (strip(a).get('k') == 'call' and strip(a).get('name') == 'State::LookupPool'), False,
              'X3 unknown pool', 'X3:unknown-pool')
    reject_if(ctx, 'C12.X', pp, lambda a: strip(a).get('k') == 'call' and strip(a).get('name') == 'State::LookupPool', True,
              'X4 duplicate pool', 'X4:duplicate-pool')
    reject_if(ctx, 'C12.X', pr, lambda a: strip(a).get('k') == 'call' and
              strip(a).get('name') == 'BindingEnv::LookupRuleCurrentScope', True,
              'X5 duplicate rule in the same scope', 'X5:duplicate-rule')
    reject_if(ctx, 'C12.X', pr, lambda a: '"command"' in dstr(a) and 'empty()' in dstr(a) and '"depfile"' not in dstr(a), True,
              'X6 rule without command', 'X6:missing-command')
    reject_if(ctx, 'C12.X', pr, lambda a: mentions_call(a, 'Rule::IsReservedBinding') or
              ('"command"' in dstr(a) and '"depfile"' in dstr(a)), False,
              'X7 rule variable that is not one of the reserved names', 'X7:non-reserved-rule-variable')
    # ... and the reserved names are exactly the documented eleven, each recognised by comparing the whole name
    # (a prefix / length-limited comparison would accept `dep` or `res`)
    RESERVED = {'command', 'depfile', 'dyndep', 'description', 'deps', 'generator', 'pool', 'restat', 'rspfile', 'rspfile_content',
                'msvc_deps_prefix'}
    irb = prog.fn('Rule::IsReservedBinding')
    lits, partial, eqs = set(), [], 0
    for e in irb.events():
        for x in walk({k: v for k, v in e.items() if not k.startswith('_')}):
            if x.get('k') == 'str':
                lits.add(x['v'])
            if x.get('k') == 'call':
                ln = lastname(x.get('name') or '').split('<')[0]
                if ln in ('strncmp', 'memcmp', 'strncasecmp', 'starts_with', 'find', 'rfind', 'strstr') or \
                        (ln == 'compare' and len(x.get('args') or []) >= 2):
                    partial.append(ln)
                if ln.startswith('operator==') or x.get('op') == '==' or ln == 'strcmp' or (ln == 'compare' and len(x.get('args') or []) == 1):
                    eqs += 1
    for g in (prog.globals or {}).values() if isinstance(prog.globals, dict) else []:
        pass
    tbl = set()
    for x in walk([e for e in irb.events()] and [{k: v for k, v in e.items() if not k.startswith('_')} for e in irb.events()]):
        if x.get('k') == 'var' and x.get('vk') in ('global', 'static') and isinstance(prog.globals, dict) and x['n'] in prog.globals:
            tbl |= {y['v'] for y in walk(prog.globals[x['n']]) if isinstance(y, dict) and y.get('k') == 'str'}
    ctx.check('C12.X', (lits | tbl) == RESERVED, irb.name, 'X7:reserved-names', irb.loc,
              'the reserved rule variables are the documented ones: missing %s, extra %s' % (sorted(RESERVED - (lits | tbl)), sorted((lits | tbl) - RESERVED)))
    ctx.check('C12.X', not partial and eqs >= 1, irb.name, 'X7:reserved-name-partial-compare', irb.loc,
              'each reserved name is recognised by a whole-string equality (%d equalities; length-limited / substring comparisons: %s)' % (eqs, partial))
    reject_if(ctx, 'C12.X', pr, lambda a: '"rspfile"' in dstr(deep_resolve(pr, a)) and '"rspfile_content"' in dstr(deep_resolve(pr, a)), False,
              'X8 rspfile and rspfile_content only together', 'X8:rspfile-pair')
    reject_if(ctx, 'C12.X', pp, lambda a: strip(a).get('k') == 'bin' and strip(a)['op'] == '<' and
              var_named('depth')(strip(a)['l']) and const_value(strip(a)['r']) == 0, True,
              'X9 pool depth missing or negative', 'X9:pool-depth', min_edges=2)
    reject_if(ctx, 'C12.X', pp, lambda a: 'ptr' in dstr(a) and var_named('end')(strip(a).get('r') or {}) or
              ('from_chars_result::ptr' in dstr(a)), False, 'X9 pool depth with trailing garbage', 'X9:pool-depth-garbage')
    reject_if(ctx, 'C12.X', pp, lambda a: '"depth"' in dstr(a), False, 'X9 pool accepts only the depth variable', 'X9:pool-variable')
    n_empty = 0
    for f in (pe, pd):
        for bid, b in f.blocks.items():
            for i, s in enumerate(b['succ']):
                ef = f.edge_fact(bid, i)
                if ef and ef[1] is True and empty_of('path')(ef[2]):
                    n_empty += 1
    ctx.check('C12.X', n_empty >= 4, pe.name, 'X10:empty-path-guards', pe.loc,
              'evaluated output, input, validation and default paths are tested for emptiness (%d guards)' % n_empty)
    reject_if(ctx, 'C12.X', pe, empty_of('path'), True, 'X10 empty path', 'X10:empty-path', min_edges=3)
    reject_if(ctx, 'C12.X', pd, empty_of('path'), True, 'X10 empty default path', 'X10:empty-default-path')
    reject_if(ctx, 'C12.X', pe, empty_of('outs_'), True, 'X11 a build statement needs an output', 'X11:no-outputs')
    ad = prog.fn('State::AddDefault')
    reject_if(ctx, 'C12.X', ad, var_named('node'), False, 'X12 default names an unknown target', 'X12:unknown-default')
    for e in pd.calls('State::AddDefault'):
        ctx.check('C12.X', not e.get('disc'), pd.name, 'X12:AddDefault-result-dropped', pd.where(e), 'AddDefault failure is propagated')
    # unexpected tokens
    for f in (parse,):
        dflt = [b for b in f.blocks.values() if (b.get('label') or {}).get('default')]
        ok = bool(dflt) and all(any(x['k'] == 'ret' and mentions_call(x.get('e'), 'Lexer::Error') for x in b['ev']) for b in dflt)
        ctx.check('C12.X', ok, f.name, 'X13:unexpected-token', f.loc, 'an unexpected token is an error')
        err = [b for b in f.blocks.values() if (b.get('label') or {}).get('cdesc', {}).get('n') == 'Lexer::ERROR']
        ok = bool(err) and all(any(x['k'] == 'ret' and mentions_call(x.get('e'), 'Lexer::Error') for x in b['ev']) for b in err)
        ctx.check('C12.X', ok, f.name, 'X13:lexer-error-token', f.loc, 'a lexer ERROR token is an error')
    ctx.floor('C12.X', 20)

    # ---- VS: lexical rejections (value-set interpretation of the generated lexer) --------------
    R('C12.VS', 'VS', 'a tab at the start of a token can only produce the ERROR token; after `$` every byte '
      'outside the documented escape set {newline, CR, space, `:`, `$`, `^`, `{`, [A-Za-z0-9_-]} leads only to '
      'failure returns of ReadEvalString')
    import vs
    from model import ret_value_class
    vs.scanner_functions(prog)
    rt = prog.fn('Lexer::ReadToken')
    sc = vs.Scanner(prog, rt, read_masks=[vs.bit(9)])
    sc.run()
    toks = sorted({t for w, m, p, tk in sc.exits for t in (tk or (None,))})
    err = prog.enum_value('Lexer::ERROR')
    ctx.check('C12.VS', toks == [err] and not sc.violations, rt.name, 'tab-at-token-start:not-ERROR', rt.loc,
              'first byte 0x09: reachable token values %s (ERROR = %s)' % (toks, err))
    res = prog.fn('Lexer::ReadEvalString')
    documented = set(b'\n\r :$^{_-') | set(range(ord('a'), ord('z') + 1)) | set(range(ord('A'), ord('Z') + 1)) | \
        set(range(ord('0'), ord('9') + 1))
    bad = 0
    for v in range(256):
        if v not in documented:
            bad |= 1 << v
    sc = vs.Scanner(prog, res, read_masks=[vs.bit(ord('$')), bad])
    sc.run()
    rets = {}
    for e in res.events('ret'):
        rets[(res.where(e), dstr(e.get('e')))] = ret_value_class(prog, res, e)
    reached = [(w, d) for w, d, n in sc.rets if n >= 2]
    nonfail = [(w, d) for w, d in reached if rets.get((w, d)) != 'fail']
    ctx.check('C12.VS', bool(reached) and not nonfail, res.name, 'bad-dollar-escape:accepted', res.loc,
              '`$` followed by a byte outside the documented set reaches only failure returns (%d returns reached, '
              'non-failing: %s)' % (len(reached), nonfail))
    # and the documented ones are not all rejected (the rule is not vacuous)
    good = 0
    for v in documented:
        good |= 1 << v
    sc2 = vs.Scanner(prog, res, read_masks=[vs.bit(ord('$')), good])
    sc2.run()
    ok2 = any(rets.get((w, d)) != 'fail' for w, d, n in sc2.rets if n >= 2)
    ctx.check('C12.VS', ok2, res.name, 'dollar-escape:all-rejected', res.loc,
              'documented `$`-escapes can be accepted (sanity of the rule)')
    ctx.floor('C12.VS', 3)

    # ---- E1: errors carry file:line and stop ninja -------------------------------------------------
    R('C12.E1', 'E1', 'every failure return of the manifest parser either forwards a failing callee '
      'or comes from Lexer::Error (the only producer of the file:line prefix); real_main turns a '
      'failed load into exit(1)')
    fns = list(mp.values()) + [prog.fn('Parser::Load'), prog.fn('Parser::ExpectToken')]
    error_discipline(ctx, 'C12.E1', fns)
    for f in mp.values():
        live = f.reachable_blocks()
        for e in f.events('ret'):
            if f.retk != 'bool' or const_value(e.get('e')) != 0 or e['_b'] not in live:
                continue
            facts = f.facts_at(e)
            fwd = fact_holds(facts, lambda a: strip(a).get('k') == 'call' and (
                fallible(prog, strip(a).get('name'), None) is not None or
                (strip(a).get('name') or '').startswith(('ManifestParser::', 'Parser::', 'Lexer::Read'))), False)
            blk = f.blocks[e['_b']]['ev'][:e['_i']]
            lex = any(x['k'] == 'call' and x.get('name') == 'Lexer::Error' for x in blk)
            if not (fwd or lex):
                # the same read over paths (the failing callee may be one of several a merged helper forwards): no way
                # from the entry to this return avoids both a Lexer::Error call and a branch taken because a fallible
                # callee - or a value that only ever holds the result of one - reported failure
                def failing_call(a):
                    a = strip(a)
                    return isinstance(a, dict) and a.get('k') == 'call' and (
                        fallible(prog, a.get('name'), None) is not None or
                        (a.get('name') or '').startswith(('ManifestParser::', 'Parser::', 'Lexer::Read', 'Lexer::Error')))

                def failure_edge(b, i, f=f):
                    for k, pol, a in f.edge_facts(b, i, all=True):
                        if pol is not False:
                            continue
                        if failing_call(a):
                            return True
                        sa = strip(a)
                        if isinstance(sa, dict) and sa.get('k') == 'var' and sa.get('vk') == 'local':
                            os_ = origins(f, sa)
                            if os_ and all(failing_call(o) or const_value(o) == 0 for o in os_) and any(failing_call(o) for o in os_):
                                return True
                    return False
                r = f.find_path(None, lambda x: x is e, from_succ=f.entry, sensitive=False,
                                is_blocker=lambda x: x['k'] == 'call' and x.get('name') == 'Lexer::Error',
                                edge_ok=lambda b, i, s_: not failure_edge(b, i))
                fwd = r is None
            ctx.check('C12.E1', fwd or lex, f.name, 'bare-failure-return', f.where(e),
                      '`return false` in %s forwards a failed callee or follows Lexer::Error' % f.name)
    rm = prog.fn('real_main')
    n = 0
    for bid, b in rm.blocks.items():
        for i, s in enumerate(b['succ']):
            ef = rm.edge_fact(bid, i)
            if ef and ef[1] is False and mentions_call(ef[2], 'Parser::Load') and s is not None:
                n += 1
                r = rm.find_path(None, lambda x: x['k'] == 'call' and x.get('name') in ('NinjaMain::RunBuild', 'NinjaMain::OpenBuildLog'),
                                 from_succ=s, is_blocker=lambda x: x['k'] in ('ret', 'noreturn') or
                                 (x['k'] == 'call' and x.get('name') == 'exit'))
                ctx.check('C12.E1', r is None, rm.name, 'load-failure:continues', 'src/ninja.cc:%s' % rm.term(bid)['line'],
                          'a failed manifest load never reaches the build')
                ex = rm.find_path(None, lambda x: x['k'] == 'call' and x.get('name') == 'exit' and const_value(x['args'][0]) == 1
                                  or (x['k'] == 'ret' and const_value(x.get('e')) == 1), from_succ=s)
                ctx.check('C12.E1', ex is not None, rm.name, 'load-failure:no-exit-1', 'src/ninja.cc:%s' % rm.term(bid)['line'],
                          'a failed manifest load ends with status 1')
    ctx.check('C12.E1', n >= 1, rm.name, 'load-failure:test-absent', rm.loc, 'real_main tests the result of the manifest load')
    ctx.floor('C12.E1', 30)

    # ---- TA1: include / subninja scope wiring --------------------------------------------------
    R('C12.TA1', 'TA', 'include parses into the including scope, subninja into a fresh child scope; '
      'the scope is assigned on every path before the sub-parser runs')
    # on every path that took the INCLUDE case the new-scope argument is false, on every SUBNINJA path it is true; no
    # other token reaches the call (stated over paths: the two cases may share their code)
    for e in parse.calls('ManifestParser::ParseFileInclude'):
        def wrong_scope(ev, facts, e=e):
            inc = any(k.__class__ is str and pol is True and 'Lexer::INCLUDE' in k and '==' in k for k, pol in facts)
            sub = any(k.__class__ is str and pol is True and 'Lexer::SUBNINJA' in k and '==' in k for k, pol in facts)
            v = path_value(parse, e['args'][0], facts)
            if inc == sub:
                return True             # neither (or both): the call is not tied to one of the two keywords
            return v != (1 if sub else 0)
        r = parse.find_path(None, lambda x: x is e, from_succ=parse.entry, hit_ok=wrong_scope)
        ctx.check('C12.TA1', r is None, parse.name, 'include-kind:new_scope', parse.where(e),
                  'ParseFileInclude(new_scope) is called with false under `include` and true under `subninja` (%s)' % dstr(e['args'][0])[:50],
                  witness=None if r is None else {'blocks': r[0]})
    # a top-level `name = value` always binds in the scope of the file being parsed - also when the value is what the
    # name already evaluates to through the enclosing scopes: a later re-assignment in the including file must not
    # reach into a subninja file that declared the value itself
    for e in parse.calls('ManifestParser::ParseLet'):
        ok_edges = [(b, i, s2) for b, blk in parse.blocks.items() for i, s2 in enumerate(blk['succ']) if s2 is not None and
                    any(pol is True and mentions_call(atom, 'ManifestParser::ParseLet') for k, pol, atom in parse.edge_facts(b, i))]
        nxt = list(parse.calls('Lexer::ReadToken'))
        okl = bool(ok_edges) and bool(nxt)
        w = None
        for b, i, s2 in ok_edges:
            r = parse.find_path(None, lambda x: x in nxt or x['k'] == 'ret', from_succ=s2,
                                is_blocker=lambda x: x['k'] == 'call' and x.get('name') == 'BindingEnv::AddBinding' and
                                mentions_field(x.get('recv'), 'ManifestParser::env_'))
            if r is not None:
                okl, w = False, r[0]
        ctx.check('C12.TA1', okl, parse.name, 'top-level-let:not-bound', parse.where(e),
                  'every successfully parsed top-level `name = value` is bound in env_ before the next statement',
                  witness=None if w is None else {'blocks': w})
    loads = list(pfi.calls('Parser::Load'))
    ctx.check('C12.TA1', len(loads) == 1, pfi.name, 'include:load-sites', pfi.loc, 'one sub-parser Load')
    envw = [e for e in pfi.events('asg') if mentions_field(e['l'], 'ManifestParser::env_') or mentions_field(e['l'], 'Parser::env_')]
    for ld in loads:
        r = pfi.find_path(None, lambda x: x is ld, from_succ=pfi.entry, is_blocker=lambda x: x in envw)
        ctx.check('C12.TA1', r is None, pfi.name, 'include:scope-not-assigned', pfi.where(ld),
                  'the sub-parser\'s scope is (re)assigned on every path before it loads a file',
                  witness=None if r is None else {'blocks': r[0]})
    for e, r, extra in [(e, r, extra) for e in envw for r, extra in store_arms(pfi, e)]:
        facts = dict(pfi.facts_at(e))
        facts.update(extra)
        new = fact_holds(facts, var_named('new_scope'), True)
        old = fact_holds(facts, var_named('new_scope'), False)
        r = strip(r)
        is_new = isinstance(r, dict) and r.get('k') == 'new' and 'BindingEnv' in (r.get('ty') or '') and \
            any(mentions_field(a, 'ManifestParser::env_') for a in r.get('args', []))
        is_same = isinstance(r, dict) and r.get('k') == 'mem' and r['n'] == 'ManifestParser::env_' and \
            strip(r.get('b')).get('k') == 'this'
        ctx.check('C12.TA1', (new and is_new) or (old and is_same), pfi.name,
                  'include:scope-kind:%s' % ('new' if is_new else 'same' if is_same else 'other'), pfi.where(e),
                  'new_scope=%s gets %s' % (new, 'a child BindingEnv of ours' if is_new else 'our own scope' if is_same else dstr(r)))
    # the parser of an included / subninja'd file works under the same options (-w dupbuild / phonycycle) as its parent
    pfi = prog.fn('ManifestParser::ParseFileInclude')
    news = [e for e in pfi.events('new') if 'ManifestParser' in (e.get('ty') or '')]
    ctx.check('C12.TA1', len(news) == 1 and mentions_field(news[0].get('args'), 'ManifestParser::options_'), pfi.name,
              'subparser:options-not-inherited', pfi.loc,
              'the sub-parser is constructed with the parent\'s options_: %s' % [dstr(e.get('args')) for e in news])
    ctx.floor('C12.TA1', 7)

    # ---- O2: lookup order --------------------------------------------------------------------------
    R('C12.O2', 'O', 'variable lookup order: bindings of the edge, then the rule binding evaluated '
      'in the edge\'s scope, then the enclosing scopes; $in / $in_newline / $out are answered first')
    lwf = prog.fn('BindingEnv::LookupWithFallback')
    cls = {}
    for e, val in answer_sites(lwf):
        s = dstr(val)
        if 'second' in s:
            cls['own'] = e
        elif 'EvalString::Evaluate' in s:
            cls['rule'] = e
        elif 'BindingEnv::LookupVariable' in s:
            cls['parent'] = e
    ctx.check('C12.O2', set(cls) == {'own', 'rule', 'parent'}, lwf.name, 'lookup:three-sources', lwf.loc,
              'LookupWithFallback answers from own bindings, rule binding, parent chain (%s)' % sorted(cls))
    if set(cls) == {'own', 'rule', 'parent'}:
        # (iterator comparisons are normalised to `it == end()`: "found" is that atom being false)
        at_end = lambda a: 'bindings_.end()' in dstr(a)
        guarded(ctx, 'C12.O2', lwf, cls['own'], at_end, False, 'own bindings win', construct='lookup:own-first')
        guarded(ctx, 'C12.O2', lwf, cls['rule'], at_end, True, 'the rule binding is consulted only if the edge has none',
                construct='lookup:rule-second')
        guarded(ctx, 'C12.O2', lwf, cls['parent'], var_named('eval'), False, 'the enclosing scopes come last',
                construct='lookup:parent-last')
        guarded(ctx, 'C12.O2', lwf, cls['parent'], at_end, True, 'the enclosing scopes come last', construct='lookup:parent-last2')
        ev = [x for x in lwf.calls('EvalString::Evaluate')]
        ctx.check('C12.O2', len(ev) == 1 and mentions_var(ev[0].get('args'), 'env'), lwf.name, 'lookup:rule-env', lwf.loc,
                  'the rule binding is evaluated in the environment passed by the edge (late expansion in the build\'s scope)')
    lv = prog.fn('BindingEnv::LookupVariable')
    ok = any('second' in dstr(e.get('e')) and fact_holds(lv.facts_at(e), lambda a: 'bindings_.end()' in dstr(a), False) for e in lv.events('ret')) and \
        any(mentions_call(e.get('e'), 'BindingEnv::LookupVariable') and mentions_field(e.get('e'), 'BindingEnv::parent_') for e in lv.events('ret'))
    ctx.check('C12.O2', ok, lv.name, 'scope-chain', lv.loc, 'BindingEnv::LookupVariable: own binding, else the parent scope')
    lr = prog.fn('BindingEnv::LookupRule')
    ok = any(mentions_call(e.get('e'), 'BindingEnv::LookupRule') and mentions_field(e.get('e'), 'BindingEnv::parent_') for e in lr.events('ret'))
    if not ok:
        # the iterative idiom: a scope variable that advances through parent_ and whose rules_ is searched
        for st in lr.stores():
            if mentions_field(st.get('r'), 'BindingEnv::parent_') and strip(st['l']).get('k') == 'var':
                sv = strip(st['l'])['n']
                if any(lastname(c.get('name')) == 'find' and mentions_field(c.get('recv'), 'BindingEnv::rules_') and mentions_var(c.get('recv'), sv)
                       for c in lr.events('call')):
                    ok = True
    ctx.check('C12.O2', ok, lr.name, 'rule-scope-chain', lr.loc, 'rules are looked up through the scope chain')
    lcs = prog.fn('BindingEnv::LookupRuleCurrentScope')
    ctx.check('C12.O2', not any(mentions_field(e.get('e'), 'BindingEnv::parent_') for e in lcs.events('ret')) and
              not any(True for _ in lcs.calls('BindingEnv::LookupRule')), lcs.name, 'rule-current-scope', lcs.loc,
              'the duplicate-rule test looks at the current scope only')
    elv = prog.fn('EdgeEnv::LookupVariable')
    fb = list(elv.calls('BindingEnv::LookupWithFallback'))
    ctx.check('C12.O2', len(fb) == 1, elv.name, 'edge-lookup:fallback-sites', elv.loc, 'one fallback lookup')
    for e in fb:
        for name in ('in', 'in_newline', 'out'):
            reached_only_via(ctx, 'C12.O2', elv, e, lambda a, name=name: ('"%s"' % name) in dstr(a) and 'var' in dstr(a), False,
                             '$%s is answered before the generic lookup' % name, 'edge-lookup:%s-not-special' % name)
        ctx.check('C12.O2', mentions_field(e.get('recv'), 'Edge::env_') and 'this' in dstr(e['args'][2]) and
                  mentions_call(e['args'][1], 'Rule::GetBinding') or var_named('eval')(e['args'][1]), elv.name,
                  'edge-lookup:fallback-args', elv.where(e), 'the generic lookup starts at the edge\'s scope with the rule binding')
    # every build statement gets the pool its own `pool` binding evaluates to (looked up by name, unknown names
    # rejected): what is stored into Edge::pool_ in ParseEdge is the result of State::LookupPool on
    # edge->GetBinding("pool") - not a value remembered from another statement
    pe2 = prog.fn('ManifestParser::ParseEdge')
    pstores = [(f, e, kind, rhs) for f, e, kind, rhs in field_writes(prog, 'Edge::pool_', [pe2])]
    ctx.check('C12.O2', len(pstores) >= 1, pe2.name, 'pool:store-absent', pe2.loc, 'ParseEdge sets the pool of the edge')
    for f, e, kind, rhs in pstores:
        os_ = origins(pe2, rhs)
        ok = bool(os_) and all(mentions_call(o, 'State::LookupPool') for o in os_)
        names = [o2 for o in os_ if mentions_call(o, 'State::LookupPool') for x in walk(o) if x.get('k') == 'call' and x.get('name') == 'State::LookupPool'
                 for a in (x.get('args') or []) for o2 in origins(pe2, a)]
        ok = ok and bool(names) and all(mentions_call(o2, 'Edge::GetBinding') and '"pool"' in dstr(o2) for o2 in names)
        ctx.check('C12.O2', ok, pe2.name, 'pool:not-from-own-binding', pe2.where(e),
                  'edge->pool_ = LookupPool(edge->GetBinding("pool")): %s' % sorted({dstr(o)[:50] for o in os_}))
    # lookup order build, rule, file: an edge without bindings of its own shares the scope of its file
    # (ManifestParser::ParseEdge), so that scope may be asked *before* the rule only when it is the edge's own
    # (Edge::has_own_env_); otherwise the rule binding comes first and the shared scope last
    own = lambda a: mentions_field(a, 'Edge::has_own_env_')
    for e in fb:
        guarded(ctx, 'C12.O2', elv, e, own, True, 'the scope is consulted before the rule only if it is the edge\'s own',
                construct='edge-lookup:shared-scope-before-rule')
    shared = [e for e in elv.calls('BindingEnv::LookupVariable') if mentions_field(e.get('recv'), 'Edge::env_')]
    ctx.check('C12.O2', len(shared) >= 1, elv.name, 'edge-lookup:shared-scope-sites', elv.loc,
              'an edge that shares its file\'s scope looks the variable up there after the rule')
    for e in shared:
        guarded(ctx, 'C12.O2', elv, e, own, False, 'plain scope lookup only for a shared scope', construct='edge-lookup:shared-scope-guard')
        guarded(ctx, 'C12.O2', elv, e, var_named('eval'), False, 'the shared (file) scope is consulted only when the rule has no binding',
                construct='edge-lookup:file-before-rule')
    pe_ = prog.fn('ManifestParser::ParseEdge')
    ow = [(f, e, kind, rhs) for f, e, kind, rhs in field_writes(prog, 'Edge::has_own_env_') if not e.get('init')]
    ctx.check('C12.O2', {f.name for f, e, kind, rhs in ow} <= {'ManifestParser::ParseEdge', 'DyndepLoader::UpdateEdge'} and
              any(f.name == 'ManifestParser::ParseEdge' for f, e, kind, rhs in ow), 'Edge::has_own_env_', 'own-scope-flag:writers', pe_.loc,
              'has_own_env_ is set by the manifest parser (and by the dyndep loader when it creates a scope): %s' % sorted({f.name for f, e, kind, rhs in ow}))
    for f, e, kind, rhs in ow:
        if f.name != 'ManifestParser::ParseEdge':
            continue
        # the flag is the very condition under which a fresh BindingEnv was allocated for the edge
        cond = dstr(deep_resolve(pe_, rhs))
        envs = [x for x in pe_.stores() if any(y.get('k') == 'new' and 'BindingEnv' in str(y.get('ty', '')) for y in walk(x.get('r')))]
        ok = False
        for x in envs:
            r = strip(x.get('r'))
            if isinstance(r, dict) and r.get('k') == 'cond':
                # `env = flag ? new BindingEnv(env_) : env_`
                ok = ok or (dstr(deep_resolve(pe_, r['c'])) == cond and any(y.get('k') == 'new' for y in walk(r['t'])))
            else:
                # `if (flag) env = new BindingEnv(env_);`
                ok = ok or fact_holds(pe_.facts_at(x), lambda a: dstr(deep_resolve(pe_, a)) == cond, True)
        ctx.check('C12.O2', ok, pe_.name, 'own-scope-flag:value', pe_.where(e),
                  'has_own_env_ is true exactly when the edge got a fresh BindingEnv (%s)' % cond[:60])
    # a rule binding exists iff its key is in the map - an explicitly empty value still shadows outer scopes
    rgb = prog.fn('Rule::GetBinding')
    reached_only_through(ctx, 'C12.O2', rgb, lambda x: x['k'] == 'ret' and (const_value(x.get('e')) == 0 or dstr(x.get('e')) in ('null', 'nullptr', '0')),
                         lambda efs: any(pol is True and 'end()' in k and ('operator==' in k or '==' in k) for k, pol, atom in efs),
                         'Rule::GetBinding answers "no such binding" only when the key is not in bindings_',
                         'Rule::GetBinding:null-for-present-key')
    # the cycle detector's stack of variables being expanded: whatever a lookup pushes it pops before it returns, on
    # every path - a name left behind makes the next, unrelated reference to that variable "a cycle in rule variables"
    elv_ = prog.fn('EdgeEnv::LookupVariable')
    npush = 0
    for e in elv_.events('call'):
        if lastname(e.get('name')) in ('push_back', 'emplace_back') and mentions_field(e.get('recv'), 'EdgeEnv::lookups_'):
            npush += 1
            r = elv_.find_path(e, lambda x: x['k'] in ('ret', 'exit'),
                               is_blocker=lambda x: x['k'] == 'call' and lastname(x.get('name')) == 'pop_back' and mentions_field(x.get('recv'), 'EdgeEnv::lookups_'),
                               init_facts=[(k, pol) for k, (pol, a) in elv_.facts_at(e).items()])
            ctx.check('C12.O2', r is None, elv_.name, 'lookups_:push-without-pop', elv_.where(e),
                      'every variable pushed on the expansion stack is popped before LookupVariable returns',
                      witness=None if r is None else {'blocks': r[0]})
    ctx.check('C12.O2', npush >= 1, elv_.name, 'lookups_:no-push', elv_.loc, 'the expansion stack is maintained (%d pushes)' % npush)
    ctx.floor('C12.O2', 20)

    # ---- CF: expansion time by type --------------------------------------------------------------
    R('C12.CF', 'CF', 'file- and build-level bindings can only store an evaluated string (immediate '
      'expansion); rule bindings only an unevaluated EvalString (late expansion)')
    wit = [
        ('env-takes-evalstring', '#include "eval_env.h"\nvoid w(BindingEnv* e, const EvalString& v) { e->AddBinding("k", v); }', True),
        ('rule-takes-string', '#include "eval_env.h"\n#include <string>\nvoid w(Rule* r, const std::string& v) { r->AddBinding("k", v); }', True),
        ('control-env-string', '#include "eval_env.h"\n#include <string>\nvoid w(BindingEnv* e, const std::string& v) { e->AddBinding("k", v); }', False),
        ('control-rule-evalstring', '#include "eval_env.h"\nvoid w(Rule* r, const EvalString& v) { r->AddBinding("k", v); }', False),
    ]
    for wid, ok, detail in cf.run_witnesses(wit):
        must_fail = [w for w in wit if w[0] == wid][0][2]
        ctx.check('C12.CF', ok, 'BindingEnv::AddBinding', 'witness:%s' % wid, 'src/eval_env.h',
                  'witness %s %s' % (wid, 'is rejected by the compiler' if must_fail else 'compiles (control)'),
                  msg='witness %s: %s' % (wid, detail))
    # V1: which scope evaluates what
    for e in pe.calls('BindingEnv::AddBinding'):
        ev = [x for x in walk(e['args'][1]) if x.get('k') == 'call' and x.get('name') == 'EvalString::Evaluate']
        ok = len(ev) == 1 and mentions_field(ev[0].get('args'), 'ManifestParser::env_') and not mentions_var(ev[0].get('args'), 'env')
        ctx.check('C12.CF', ok, pe.name, 'build-binding:scope', pe.where(e),
                  'a build-level binding is evaluated in the enclosing scope (env_), immediately: %s' % dstr(e['args'][1])[:80])
        ctx.check('C12.CF', is_var('env')(e.get('recv')), pe.name, 'build-binding:target', pe.where(e), 'and stored in the edge\'s own scope')
    for e in pe.calls('EvalString::Evaluate'):
        src = ' '.join(dstr(o) for o in origins(pe, e.get('recv')))
        if 'ManifestParser::outs_' in src or 'ManifestParser::ins_' in src or 'ManifestParser::validations_' in src:
            ctx.check('C12.CF', is_var('env')(e['args'][0]), pe.name, 'path:scope', pe.where(e),
                      'paths of a build statement are evaluated in the edge\'s scope: %s' % e.get('src'))
    for e in parse.calls('BindingEnv::AddBinding'):
        os_ = origins(parse, e['args'][1])
        ok = any(mentions_call(o, 'EvalString::Evaluate') for o in os_)
        ctx.check('C12.CF', ok, parse.name, 'file-binding:immediate', parse.where(e), 'a file-level binding stores the evaluated value')
    for e in pr.calls('Rule::AddBinding'):
        ctx.check('C12.CF', var_named('value')(e['args'][1]), pr.name, 'rule-binding:unevaluated', pr.where(e),
                  'a rule binding stores the EvalString as parsed')
    ctx.floor('C12.CF', 10)

    # ---- P1: input-kind partition ------------------------------------------------------------------
    R('C12.P1', 'P', 'inputs are collected explicit, implicit (|), order-only (||) in that order with '
      'counters incremented once per collected path; the counters are stored on the edge after all '
      'AddIn calls; a later size change of inputs_ updates the counter it affects')
    pushes = [e for e in pe.events('call') if lastname(e.get('name')) == 'push_back' and mentions_field(e.get('recv'), 'ManifestParser::ins_')]
    ctx.check('C12.P1', len(pushes) == 3, pe.name, 'ins_:push-sites', pe.loc, 'three collection loops for inputs (%d)' % len(pushes))
    kinds = []
    for e in pushes:
        blk = pe.blocks[e['_b']]['ev']
        inc = [dstr(x['l']) for x in blk if x['k'] == 'asg' and x['op'] == '++']
        facts = pe.facts_at(e)
        tok = 'PIPE2' if fact_holds(facts, lambda a: mentions_enum(a, 'Lexer::PIPE2'), True) else \
            'PIPE' if fact_holds(facts, lambda a: mentions_enum(a, 'Lexer::PIPE'), True) else 'none'
        kinds.append((tok, inc))
    # execution order: a collection site comes before another if it can reach it and not the other way round
    # (block numbers say nothing once a helper or lambda was inlined)
    def before(i, j):
        a, b = pushes[i], pushes[j]
        return pe.ev_reaches(a, b) and not pe.ev_reaches(b, a)
    order = sorted(range(len(pushes)), key=lambda i: -sum(1 for j in range(len(pushes)) if j != i and before(i, j)))
    seq = [kinds[i] for i in order]
    ctx.check('C12.P1', seq == [('none', []), ('PIPE', ['implicit']), ('PIPE2', ['order_only'])], pe.name, 'ins_:order-and-counters', pe.loc,
              'explicit inputs first (no counter), then `|` with ++implicit, then `||` with ++order_only: %s' % seq)
    for fld, var in (('Edge::implicit_deps_', 'implicit'), ('Edge::order_only_deps_', 'order_only'), ('Edge::implicit_outs_', 'implicit_outs')):
        ws = [(e, rhs) for f, e, kind, rhs in field_writes(prog, fld, [pe]) if e['op'] == '=']
        ctx.check('C12.P1', len(ws) == 1 and var_named(var)(ws[0][1]), pe.name, 'counter-store:%s' % fld, pe.loc,
                  '%s = %s' % (fld, var))
        if ws and fld != 'Edge::implicit_outs_':
            for a in pe.calls('State::AddIn'):
                ctx.check('C12.P1', pe.ev_reaches(a, ws[0][0]) and not pe.ev_reaches(ws[0][0], a), pe.name,
                          'counter-store-before-AddIn:%s' % fld, pe.where(ws[0][0]), 'the counter is stored after all inputs were added')
    full_range(ctx, 'C12.P1', pe, 'ManifestParser::ins_', 'every collected input path becomes an input')
    for l in loops_over(pe, 'ManifestParser::ins_'):
        every_iteration_passes(ctx, 'C12.P1', pe, l, lambda x: x['k'] == 'call' and x.get('name') == 'State::AddIn',
                               'AddIn for every collected path', 'ParseEdge:input-dropped')
    for f, e, kind, rhs in field_writes(prog, 'Edge::inputs_', [pe]):
        if kind in ('erase', 'insert', 'pop_back', 'resize', 'clear'):
            cnt = [x for ff, x, k2, r2 in field_writes(prog, 'Edge::order_only_deps_', [pe]) + list(field_writes(prog, 'Edge::implicit_deps_', [pe]))
                   if x['op'] in ('-=', '+=', '--', '++') and pe.dominates_ev(x, e)] if False else \
                [x for x in pe.events('asg') if (mentions_field(x['l'], 'Edge::order_only_deps_') or mentions_field(x['l'], 'Edge::implicit_deps_'))
                 and x['op'] in ('-=', '+=', '--', '++') and x['_b'] == e['_b'] and x['_i'] < e['_i']]
            ctx.check('C12.P1', bool(cnt), pe.name, 'inputs_-%s-without-counter' % kind, pe.where(e),
                      'inputs_.%s in ParseEdge is accompanied by an update of the kind counter' % kind)
    ai = prog.fn('State::AddIn')
    ok = any(lastname(e.get('name')) == 'push_back' and mentions_field(e.get('recv'), 'Edge::inputs_') for e in ai.events('call')) and \
        any(True for _ in ai.calls('Node::AddOutEdge'))
    ctx.check('C12.P1', ok, ai.name, 'AddIn:append+out-edge', ai.loc, 'AddIn appends and registers the out-edge')
    ctx.floor('C12.P1', 10)

    # ---- default targets ---------------------------------------------------------------------------------
    R('C12.D1', 'G', 'without a default statement ninja builds every output that no statement names as an input: State::RootNodes '
      'collects an output exactly when it has no out-edge (validations do not count as uses), over all outputs of all edges')
    rn = prog.fn('State::RootNodes')
    rp = [e for e in rn.events('call') if lastname(e.get('name') or '').split('<')[0] in ('push_back', 'emplace_back', 'insert') and
          'Node' in (e.get('name') or '') and not mentions_var(e.get('recv'), 'err')]
    ctx.check('C12.D1', len(rp) >= 1, rn.name, 'roots:none-collected', rn.loc, 'RootNodes collects nodes')
    for e in rp:
        facts = rn.facts_at(e)
        used = lambda a: mentions_field(a, 'Node::out_edges_') or mentions_call(a, 'Node::out_edges')
        ok = any(p_ is True and used(a) and 'empty' in dstr(a) for k_, (p_, a) in facts.items()) or \
            any(p_ is False and used(a) and ('size' in dstr(a) or 'empty' not in dstr(a)) for k_, (p_, a) in facts.items())
        ctx.check('C12.D1', ok, rn.name, 'roots:not-by-out-edges', rn.where(e), 'an output is a root when it has no out-edge')
        other = [k_ for k_, (p_, a) in facts.items() if mentions_field(a, 'Node::validation_out_edges_') or mentions_call(a, 'Node::validation_out_edges') or
                 mentions_field(a, 'Node::in_edge_') or mentions_field(a, 'Node::dirty_')]
        ctx.check('C12.D1', not other, rn.name, 'roots:extra-condition', rn.where(e),
                  'nothing else (being named as a validation, ...) keeps an output from being a root: %s' % other[:2])
    full_e = [l for l in loops_over(rn, 'State::edges_')]
    full_o = [l for l in loops_over(rn, 'Edge::outputs_')]
    ctx.check('C12.D1', len(full_e) == 1 and full_e[0]['full'] and len(full_o) == 1 and full_o[0]['full'], rn.name, 'roots:partial-walk', rn.loc,
              'every output of every edge is considered')
    ctx.floor('C12.D1', 4)

    # ---- CN: canonicalise before intern ------------------------------------------------------------
    R('C12.CN', 'CN', 'every path from manifest text or the command line is canonicalised before it '
      'becomes a node identity; node identities never come from shell-escaped lookups')
    n = canon_before_intern(ctx, 'C12.CN', pe)
    n += canon_before_intern(ctx, 'C12.CN', pd)
    for name in ('NinjaMain::CollectTarget', 'Cleaner::CleanTargets'):
        n += canon_before_intern(ctx, 'C12.CN', prog.fn(name))
    # escaped values never reach node identities or file-system calls
    sinks = ('State::GetNode', 'State::LookupNode', 'DiskInterface::MakeDirs', 'DiskInterface::WriteFile',
             'DiskInterface::RemoveFile', 'DiskInterface::ReadFile', 'DiskInterface::Stat')
    m = 0
    for f in prog.functions.values():
        if f.file in ('ninja.cc',) and f.name.startswith('NinjaMain::Tool'):
            continue
        for e in f.events('call'):
            if e.get('name') in sinks and e.get('args'):
                vs = [x for x in walk(e['args'][0]) if x.get('k') == 'var' and x.get('vk') == 'local']
                for v in vs:
                    os_ = origins(f, v)
                    bad = [o for o in os_ if isinstance(strip(o), dict) and strip(o).get('name') == 'Edge::GetBinding']
                    m += 1
                    ctx.check('C12.CN', not bad, f.name, 'escaped-value-as-path:%s' % e.get('name'), f.where(e),
                              'the path given to %s in %s does not come from the shell-escaping Edge::GetBinding' % (e.get('name'), f.name))
    # one canonicaliser: the std::string overload decides nothing itself, it always hands the
    # bytes to the char* overload (a private notion of "already canonical" is a second, diverging
    # definition of node identity)
    wrap = [f for f in prog.fns('CanonicalizePath') if len(f.params) == 2]
    core = [f for f in prog.fns('CanonicalizePath') if len(f.params) == 3]
    ctx.check('C12.CN', len(wrap) == 1 and len(core) == 1, 'CanonicalizePath', 'canonicaliser:overloads', 'src/util.cc',
              'one string overload and one char* overload of CanonicalizePath')
    for w in wrap:
        def is_core(x):
            return x['k'] == 'call' and x.get('name') == 'CanonicalizePath' and len(x.get('args') or []) == 3
        pn_ = w.params[0]['n']
        must_pass(ctx, 'C12.CN', w, is_core, lambda x: x['k'] in ('ret', 'exit'),
                  'the string overload of CanonicalizePath always delegates to the char* overload (except for the empty string)',
                  'canonicaliser:wrapper-bypasses-core',
                  edge_ok=lambda b2, i2, s3, w=w, pn_=pn_: not any((p_ is True and 'empty()' in dstr(a) and pn_ in dstr(a)) or
                                                                    (p_ is True and 'size()' in dstr(a) and '== 0' in dstr(a) and pn_ in dstr(a))
                                                                    for k_, p_, a in w.edge_facts(b2, i2)))
    ctx.floor('C12.CN', 10)
    check_evalstring(ctx)



def check_evalstring(ctx):
    """C12.EV1: the token list behind every `$`-expansion."""
    from rules import loops_over, every_iteration_passes
    prog = ctx.prog
    ctx.rule('C12.EV1', 'O', 'EvalString: Evaluate() walks the whole token list and appends, per token, the text itself for a RAW token and '
             'the environment\'s value of the name for every other one - nothing else; AddText() keeps the text on every path (in the '
             'single-token string, glued to a trailing RAW token, or as a new RAW token); AddSpecial() first moves a pending '
             'single-token text into the list (so text before a variable stays before it) and then appends the name as SPECIAL')
    ev = prog.fn('EvalString::Evaluate')
    ls = loops_over(ev, 'EvalString::parsed_')
    ctx.check('C12.EV1', len(ls) == 1 and ls[0]['full'], ev.name, 'Evaluate:partial-loop', ev.loc, 'Evaluate() iterates over all of parsed_')
    appends = [e for e in ev.events('call') if lastname(e.get('name') or '') == 'append']
    ctx.check('C12.EV1', len(appends) >= 2, ev.name, 'Evaluate:appends', ev.loc, 'Evaluate() appends per token (%d append sites)' % len(appends))

    def is_raw(a):
        a = strip(a)
        return isinstance(a, dict) and a.get('k') == 'bin' and a['op'] == '==' and mentions_enum(a, 'EvalString::RAW') and 'second' in dstr(a)
    nraw = nvar = 0
    for e in appends:
        facts = ev.facts_at(e)
        arg = (e.get('args') or [None])[0]
        looked = mentions_call(arg, 'Env::LookupVariable')
        if looked:
            nvar += 1
            ctx.check('C12.EV1', fact_holds(facts, is_raw, False) and 'first' in dstr(arg), ev.name, 'Evaluate:lookup-of-raw-text', ev.where(e),
                      'a variable is looked up (by the token\'s own text) only for a token that is not RAW; facts: %s' % facts_str(facts)[:5])
        else:
            nraw += 1
            ctx.check('C12.EV1', fact_holds(facts, is_raw, True) and 'first' in dstr(arg) and not any(
                x.get('k') == 'call' and not lastname(x.get('name') or '').startswith('operator') and lastname(x.get('name') or '') not in ('basic_string', 'StringPiece')
                for x in walk(arg)), ev.name, 'Evaluate:raw-text-altered', ev.where(e),
                'literal text is appended unchanged, and only for a RAW token (%s)' % dstr(arg)[:60])
    ctx.check('C12.EV1', nraw >= 1 and nvar >= 1, ev.name, 'Evaluate:token-kinds', ev.loc, 'both token kinds are handled (%d raw, %d variable)' % (nraw, nvar))
    for l in ls:
        every_iteration_passes(ctx, 'C12.EV1', ev, l, lambda x: any(x is a for a in appends), 'every token contributes to the result', 'Evaluate:token-skipped')
    # the shortcut for a string without variables returns the text as it is
    for e in ev.events('ret'):
        facts = ev.facts_at(e)
        if fact_holds(facts, lambda a: 'parsed_' in dstr(a) and 'empty' in dstr(a), True):
            ctx.check('C12.EV1', dstr(strip(e.get('e'))).endswith('single_token_'), ev.name, 'Evaluate:single-token-altered', ev.where(e),
                      'with an empty token list the single-token text is the value (%s)' % dstr(e.get('e'))[:60])
    at = prog.fn('EvalString::AddText')
    keeps = [e for e in at.events('call') if lastname(e.get('name') or '') in ('append', 'push_back', 'emplace_back') and
             any(mentions_var(a, 'text') for a in (e.get('args') or []))]
    r = at.find_path(None, lambda x: x['k'] == 'ret' or x is None, from_succ=at.entry, is_blocker=lambda x: any(x is k for k in keeps))
    r2 = None
    if r is None and not any(True for _ in at.events('ret')):
        # void function without a return statement: reach the exit block
        r2 = _path_to_exit(at, keeps)
    ctx.check('C12.EV1', bool(keeps) and r is None and r2 is None, at.name, 'AddText:text-dropped', at.loc,
              'AddText() stores its text on every path (%d storing sites)' % len(keeps))
    for e in keeps:
        if lastname(e.get('name') or '') == 'append' and 'back()' in dstr(e.get('recv')):
            ctx.check('C12.EV1', fact_holds(at.facts_at(e), lambda a: mentions_enum(a, 'EvalString::RAW') and 'back' in dstr(a), True), at.name,
                      'AddText:glued-to-variable', at.where(e), 'text is glued to the last token only if that token is RAW (never to a variable name)')
        if lastname(e.get('name') or '') in ('push_back', 'emplace_back'):
            ctx.check('C12.EV1', mentions_enum(e.get('args'), 'EvalString::RAW'), at.name, 'AddText:pushed-as-variable', at.where(e), 'new text is pushed as a RAW token')
    sp = prog.fn('EvalString::AddSpecial')
    pushes = [e for e in sp.events('call') if lastname(e.get('name') or '') in ('push_back', 'emplace_back')]
    special = [e for e in pushes if mentions_enum(e.get('args'), 'EvalString::SPECIAL') and any(mentions_var(a, 'text') for a in e.get('args') or [])]
    moved = [e for e in pushes if mentions_enum(e.get('args'), 'EvalString::RAW') and any(mentions_field(a, 'EvalString::single_token_') for a in e.get('args') or [])]
    ctx.check('C12.EV1', len(special) == 1 and len(moved) == 1, sp.name, 'AddSpecial:pushes', sp.loc,
              'AddSpecial() has one push of the name as SPECIAL and one push of the pending text as RAW (%d / %d)' % (len(special), len(moved)))
    if len(special) == 1 and len(moved) == 1:
        # with parsed_ empty and pending text, the SPECIAL push is reached only through the RAW push

        def pending(b, i, s):
            for key, pol, atom in sp.edge_facts(b, i, all=True):
                t = dstr(atom)
                a = strip(atom)
                if isinstance(a, dict) and a.get('k') == 'call' and lastname(a.get('name') or '') == 'empty':
                    if 'parsed_' in t and not pol:
                        return False
                    if 'single_token_' in t and pol:
                        return False
            return True
        # (the situation is given to the path search as facts, so that a condition stored in a named boolean or tested as a
        # whole is decided by it as well)
        keys = {}
        for b_, blk_ in sp.blocks.items():
            for i_ in range(len(blk_['succ'])):
                for k_, p_, a_ in sp.edge_facts(b_, i_, all=True):
                    sa_ = strip(a_)
                    if isinstance(sa_, dict) and sa_.get('k') == 'call' and lastname(sa_.get('name') or '') == 'empty':
                        if 'parsed_' in k_:
                            keys[k_] = True
                        elif 'single_token_' in k_:
                            keys[k_] = False
        r = sp.find_path(None, lambda x: x is special[0], from_succ=sp.entry, is_blocker=lambda x: x is moved[0], edge_ok=pending,
                         init_facts=frozenset(keys.items()))
        ctx.check('C12.EV1', r is None, sp.name, 'AddSpecial:pending-text-lost', sp.where(special[0]),
                  'text collected before the first variable is moved into the list before the variable is appended',
                  witness=None if r is None else {'blocks': r[0]})
        r = _path_to_exit(sp, special)
        ctx.check('C12.EV1', r is None, sp.name, 'AddSpecial:name-dropped', sp.loc, 'AddSpecial() appends the name on every path')
    ctx.floor('C12.EV1', 12)


def _path_to_exit(f, blockers):
    """A path from the entry to the exit block that passes none of the events (None if there is none)."""
    seen = set()
    st = [f.entry]
    while st:
        b = st.pop()
        if b in seen or b is None:
            continue
        seen.add(b)
        if any(any(e is k for k in blockers) for e in f.blocks[b]['ev']):
            continue
        if b == f.exit:
            return [b]
        st += [s for s in f.blocks[b]['succ'] if s is not None]
    return None
