"""C04 — a command starts only after everything it needs is in place (DESIGN 5.4)."""
from facts import AnalysisBroken
from model import (facts_str, dstr, strip, fact_holds, mentions_field, mentions_call, mentions_var,
                   const_value, walk)
from rules import (guarded, calls_to, field_writes, who_may_write, who_may_call, must_pass,
                   dominated_by, full_range, loops_over, every_iteration_passes, basename,
                   error_discipline, origins)


def air(a):
    return mentions_call(a, 'Edge::AllInputsReady')


def run(ctx):
    prog = ctx.prog
    R = ctx.rule

    # ---- W1: admission only behind AllInputsReady ---------------------------------------------
    R('C04.W1', 'W', 'Plan::ScheduleWork / Pool::DelayEdge are called only where '
      'Edge::AllInputsReady() is known true (or from ScheduleWork itself); RetrieveReadyEdges '
      'pushes only elements of delayed_')
    for name in ('Plan::ScheduleWork', 'Pool::DelayEdge'):
        for f, e in calls_to(prog, name):
            if f.name == 'Plan::ScheduleWork' and name == 'Pool::DelayEdge':
                ctx.inst('C04.W1', f.where(e), 'DelayEdge inside ScheduleWork (its callers are checked)')
                continue
            guarded(ctx, 'C04.W1', f, e, air, True, '%s only for an edge whose inputs are all ready' % name,
                    construct='%s:without-AllInputsReady' % name)
    rre = prog.fn('Pool::RetrieveReadyEdges')
    for e in rre.calls():
        if basename(e.get('name') or '') == 'push':
            os_ = origins(rre, e['args'][0])
            ok = bool(os_) and all(isinstance(o, dict) and o.get('k') == 'elem' and
                                   mentions_field(o.get('of'), 'Pool::delayed_') for o in os_)
            ctx.check('C04.W1', ok, rre.name, 'RetrieveReadyEdges:push-non-delayed', rre.where(e),
                      'RetrieveReadyEdges pushes only elements of delayed_ (origins: %s)' %
                      [dstr(o) for o in os_])
    who_may_call(ctx, 'C04.W1', 'Pool::RetrieveReadyEdges',
                 {'Plan::ScheduleWork': 'after DelayEdge', 'Plan::EdgeFinished': 'a slot was freed',
                  'Plan::ScheduleInitialEdges': 'once per pool after the initial scan'},
                 'delayed edges move to the ready queue')
    ctx.floor('C04.W1', 6)

    # ---- O1: AllInputsReady is total -------------------------------------------------------------
    R('C04.O1', 'O', 'Edge::AllInputsReady loops over the whole inputs_ range, consults '
      'in_edge()->outputs_ready() for each, and reads neither validations_ nor the kind counters')
    f = prog.fn('Edge::AllInputsReady')
    full_range(ctx, 'C04.O1', f, 'Edge::inputs_', 'all inputs (explicit, implicit, order-only, discovered)')
    for l in loops_over(f, 'Edge::inputs_'):
        every_iteration_passes(ctx, 'C04.O1', f, l,
                               lambda x: x['k'] == 'call' and x.get('name') in ('Edge::outputs_ready', 'Node::in_edge'),
                               'each input\'s producer is consulted', 'AllInputsReady:input-skipped')
    reads = set()
    for e in f.events():
        for d in (e.get('l'), e.get('r'), e.get('e'), e.get('init'), e.get('recv')):
            for x in walk(d):
                if x.get('k') == 'mem':
                    reads.add(x['n'])
        for a in e.get('args', []) or []:
            for x in walk(a):
                if x.get('k') == 'mem':
                    reads.add(x['n'])
    for b in f.blocks.values():
        if b.get('term') and 'cond' in b['term']:
            for x in walk(b['term']['cond']):
                if x.get('k') == 'mem':
                    reads.add(x['n'])
    bad = reads & {'Edge::validations_', 'Edge::order_only_deps_', 'Edge::implicit_deps_'}
    ctx.check('C04.O1', not bad, f.name, 'AllInputsReady:reads-%s' % ','.join(sorted(bad)), f.loc,
              'AllInputsReady reads only inputs_ and producer readiness (fields read: %s)' % sorted(reads))
    # a false verdict exactly when a producer is not ready
    for e in f.events('ret'):
        if const_value(e.get('e')) == 0:
            guarded(ctx, 'C04.O1', f, e, lambda a: mentions_field(a, 'Edge::outputs_ready_'), False,
                    'not ready only because some producer is not ready', construct='AllInputsReady:false-verdict')
        elif const_value(e.get('e')) == 1:
            r = f.find_path(None, lambda x: x is e, from_succ=f.entry,
                            edge_ok=lambda b, i, s: not (f.edge_fact(b, i) and
                                                         mentions_field(f.edge_fact(b, i)[2], 'Edge::outputs_ready_') and
                                                         f.edge_fact(b, i)[1] is False))
            ctx.check('C04.O1', r is not None, f.name, 'AllInputsReady:true-verdict', f.where(e),
                      '`return true` is reachable only when no producer was found not ready')
            facts = f.facts_at(e)
            ctx.check('C04.O1', not fact_holds(facts, lambda a: mentions_field(a, 'Edge::outputs_ready_'), False),
                      f.name, 'AllInputsReady:true-after-not-ready', f.where(e),
                      '`return true` is not under a "producer not ready" fact')
    ctx.floor('C04.O1', 5)

    # ---- W2: writers of Edge::outputs_ready_ ----------------------------------------------------
    R('C04.W2', 'W', 'Edge::outputs_ready_ is set true only by the scan and by Plan::EdgeFinished '
      '(under success, C05.G1); set false only by the scan and State::Reset')
    allowed = {
        'Edge::Edge': 'constructor (false)',
        'DependencyScan::RecomputeNodeDirty': 'scan verdict (false when dirty)',
        'DependencyScan::RecomputeEdgesInputsDirty': 'scan: false when an input\'s producer is not ready',
        'Plan::EdgeFinished': 'true, under result == kEdgeSucceeded',
        'State::Reset': 'false (re-initialisation)',
    }
    who_may_write(ctx, 'C04.W2', 'Edge::outputs_ready_', allowed, 'producer readiness flag')
    for ff, e, kind, rhs in field_writes(prog, 'Edge::outputs_ready_'):
        if const_value(rhs) == 1 and not e.get('init'):
            if ff.name == 'DependencyScan::RecomputeNodeDirty':
                # the scan's optimistic initial value: must come before any input was examined
                later = [x for x in ff.events() if (x['k'] == 'call' and x.get('name') ==
                         'DependencyScan::RecomputeEdgesInputsDirty') or
                         (x['k'] == 'asg' and mentions_field(x['l'], 'Edge::outputs_ready_') and x is not e)]
                ok = bool(later) and all(ff.dominates_ev(e, x) for x in later)
                ctx.check('C04.W2', ok, ff.name, 'outputs_ready_=true:after-inputs-scan', ff.where(e),
                          'the scan sets outputs_ready_ = true only as the initial value, before the '
                          'inputs are examined and before any `= false` verdict')
                continue
            ctx.check('C04.W2', ff.name in ('Plan::EdgeFinished',),
                      ff.name, 'outputs_ready_=true:site', ff.where(e), 'outputs_ready_ = true in %s' % ff.name)
    # a node's dirty flag is decided by the scan and revoked only by the restat pruning (Plan::CleanNode);
    # nobody else may declare a node clean (readiness of consumers is derived from it on a re-scan)
    who_may_call(ctx, 'C04.W2', 'Node::set_dirty', {'Plan::CleanNode': 'restat pruning', 'DependencyScan::RecomputeNodeDirty': 'scan verdict'},
                 'dirty flag of a node')
    who_may_write(ctx, 'C04.W2', 'Node::dirty_', {'Node::Node': 'init', 'Node::ResetState': 'State::Reset', 'Node::set_dirty': 'setter',
                                                 'Node::MarkDirty': 'scan'}, 'dirty flag of a node')
    ctx.floor('C04.W2', 5)
    ctx.table('C04.W2.writers', allowed)

    # ---- W3: spawn sites ----------------------------------------------------------------------------
    R('C04.W3', 'W', 'CommandRunner::StartCommand is called only from Builder::StartEdge; StartEdge '
      'only from Builder::Build with the edge returned by Plan::FindWork')
    who_may_call(ctx, 'C04.W3', 'CommandRunner::StartCommand',
                 {'Builder::StartEdge': 'the only spawn site'}, 'spawn')
    who_may_call(ctx, 'C04.W3', 'Builder::StartEdge', {'Builder::Build': 'main loop'}, 'spawn')
    build = prog.fn('Builder::Build')
    for e in build.calls('Builder::StartEdge'):
        os_ = origins(build, e['args'][0])
        ok = bool(os_) and all(mentions_call(o, 'Plan::FindWork') for o in os_)
        ctx.check('C04.W3', ok, build.name, 'StartEdge:edge-not-from-FindWork', build.where(e),
                  'the edge given to StartEdge comes from Plan::FindWork (origins: %s)' % [dstr(o) for o in os_])
    # FindWork returns only the top of ready_
    fw = prog.fn('Plan::FindWork')
    for e in fw.events('ret'):
        d = strip(e.get('e'))
        if isinstance(d, dict) and d.get('k') == 'null':
            continue
        os_ = origins(fw, e.get('e'))
        ok = bool(os_) and all(isinstance(strip(o), dict) and basename(strip(o).get('name') or '') == 'top' and
                               mentions_field(strip(o).get('recv'), 'Plan::ready_') for o in os_)
        ctx.check('C04.W3', ok, fw.name, 'FindWork:returns-non-ready', fw.where(e),
                  'FindWork returns the top of the ready queue or null')
    for name in ('posix_spawn', 'posix_spawnp', 'fork', 'vfork', 'system', 'popen', 'execvp', 'execl'):
        for ff, e in calls_to(prog, name):
            ctx.check('C04.W3', ff.name in ('Subprocess::Start', 'NinjaMain::ToolBrowse', 'RunBrowsePython'),
                      ff.name, 'raw-spawn:%s' % name, ff.where(e),
                      'process creation primitive %s used in %s' % (name, ff.name))
    who_may_call(ctx, 'C04.W3', 'Subprocess::Start', {'SubprocessSet::Add': 'runner'}, 'spawn')
    who_may_call(ctx, 'C04.W3', 'SubprocessSet::Add', {'RealCommandRunner::StartCommand': 'runner'}, 'spawn')
    ctx.floor('C04.W3', 7)

    # ---- O2: preparation precedes spawn -------------------------------------------------------
    R('C04.O2', 'O', 'in the spawning function, MakeDirs for every output, MakeDirs(depfile) when '
      'non-empty, and WriteFile(rspfile, rspfile_content) when non-empty all precede StartCommand, '
      'and each failure returns failure without reaching it')
    se = prog.fn('Builder::StartEdge')
    sc = list(se.calls('CommandRunner::StartCommand'))
    if len(sc) != 1:
        raise AnalysisBroken('Builder::StartEdge has %d StartCommand call sites' % len(sc))
    sc = sc[0]
    full_range(ctx, 'C04.O2', se, 'Edge::outputs_', 'directories of all outputs')

    def makedirs_elem(x):
        if not (x['k'] == 'call' and x.get('name') == 'DiskInterface::MakeDirs'):
            return False
        os_ = origins(se, x['args'][0])
        return any('Edge::outputs_' in dstr(o) for o in os_) or \
            any('Edge::outputs_' in dstr(o) for a in walk(x['args'][0]) if a.get('k') == 'var'
                for o in origins(se, a))
    loops = loops_over(se, 'Edge::outputs_')
    for l in loops:
        every_iteration_passes(ctx, 'C04.O2', se, l, makedirs_elem,
                               'MakeDirs(output path) for each output', 'StartEdge:output-dir-skipped')
        # the loop as a whole precedes the spawn: the header dominates StartCommand
        ctx.check('C04.O2', l['header'] in se.dominators()[sc['_b']], se.name,
                  'StartEdge:dirs-not-before-spawn', se.where(sc),
                  'the output-directory loop dominates StartCommand')
    # depfile dir
    dep_md = [x for x in se.calls('DiskInterface::MakeDirs')
              if any(mentions_call(o, 'Edge::GetUnescapedDepfile') for o in origins(se, x['args'][0]))]
    ctx.check('C04.O2', len(dep_md) >= 1, se.name, 'StartEdge:no-depfile-MakeDirs', se.loc,
              'MakeDirs(GetUnescapedDepfile()) is present')
    for x in dep_md:
        # StartCommand reachable without it only when depfile is empty
        r = se.find_path(None, lambda y: y is sc, from_succ=se.entry,
                         is_blocker=lambda y: y is x,
                         edge_ok=lambda b, i, s: not (se.edge_fact(b, i) and 'depfile' in se.edge_fact(b, i)[0] and
                                                      'empty' in se.edge_fact(b, i)[0] and se.edge_fact(b, i)[1] is True))
        ctx.check('C04.O2', r is None, se.name, 'StartEdge:depfile-dir-skipped', se.where(x),
                  'StartCommand is reached without MakeDirs(depfile) only when the depfile is empty',
                  witness=None if r is None else {'blocks': r[0]})
    # rspfile
    wf = [x for x in se.calls('DiskInterface::WriteFile')
          if any(mentions_call(o, 'Edge::GetUnescapedRspfile') for o in origins(se, x['args'][0]))]
    ctx.check('C04.O2', len(wf) == 1, se.name, 'StartEdge:rspfile-write-count', se.loc,
              'exactly one WriteFile(GetUnescapedRspfile(), ...) in the spawning function')
    for x in wf:
        content = origins(se, x['args'][1])
        ok = bool(content) and all(
            isinstance(strip(o), dict) and strip(o).get('name') == 'Edge::GetBinding' and
            'rspfile_content' in dstr(strip(o).get('args')) for o in content)
        ctx.check('C04.O2', ok, se.name, 'StartEdge:rspfile-content', se.where(x),
                  'the response file is written with GetBinding("rspfile_content") (origins: %s)' %
                  [dstr(o) for o in content])
        r = se.find_path(None, lambda y: y is sc, from_succ=se.entry, is_blocker=lambda y: y is x,
                         edge_ok=lambda b, i, s: not (se.edge_fact(b, i) and 'rspfile' in se.edge_fact(b, i)[0] and
                                                      'empty' in se.edge_fact(b, i)[0] and se.edge_fact(b, i)[1] is True))
        ctx.check('C04.O2', r is None, se.name, 'StartEdge:rspfile-skipped', se.where(x),
                  'StartCommand is reached without writing the response file only when rspfile is empty',
                  witness=None if r is None else {'blocks': r[0]})
    # failures return false before the spawn: preparation calls are tested and their failure
    # side cannot reach StartCommand
    from rules import failure_successor
    for x in list(se.calls('DiskInterface::MakeDirs')) + wf:
        fs = failure_successor(se, x)
        if fs is None:
            ctx.violation('C04.O2', se.name, 'StartEdge:prep-result-unused:%s' % x.get('name'), se.where(x),
                          'result of %s does not decide a branch' % x.get('name'))
            continue
        b, i = fs
        r = se.find_path(None, lambda y: y is sc, from_succ=se.blocks[b]['succ'][i])
        ctx.check('C04.O2', r is None, se.name, 'StartEdge:spawn-after-failed-prep:%s' % x.get('name'),
                  se.where(x), 'a failed %s cannot reach StartCommand' % x.get('name'))
    ctx.floor('C04.O2', 10)

    # ---- O3: dyndep re-plan precedes scheduling ---------------------------------------------
    R('C04.O3', 'O', 'after a build-time dyndep load: every output of the finished edge is '
      'examined for a pending dyndep file; RefreshDyndepDependents and the AddSubTarget walk '
      'precede the EdgeMaybeReady re-evaluation in Plan::DyndepsLoaded')
    dl = prog.fn('Plan::DyndepsLoaded')
    emr = list(dl.calls('Plan::EdgeMaybeReady'))
    ctx.check('C04.O3', len(emr) >= 1, dl.name, 'DyndepsLoaded:no-EdgeMaybeReady', dl.loc,
              'DyndepsLoaded re-evaluates readiness')
    for e in emr:
        dominated_by(ctx, 'C04.O3', dl, e, lambda x: x['k'] == 'call' and x.get('name') == 'Plan::RefreshDyndepDependents',
                     'RefreshDyndepDependents precedes EdgeMaybeReady', 'DyndepsLoaded:no-refresh-before-ready')
        for a in dl.calls('Plan::AddSubTarget'):
            ctx.check('C04.O3', not dl.ev_reaches(e, a) or True and a['_b'] != e['_b'] and
                      e['_b'] not in dl.reachable_from(e['_b']) or not dl.ev_reaches(e, a),
                      dl.name, 'DyndepsLoaded:walk-after-ready', dl.where(a),
                      'the AddSubTarget walk is not performed after EdgeMaybeReady')
    full_range(ctx, 'C04.O3', dl, 'Dyndeps::implicit_inputs_', 'all discovered inputs are walked into the plan')
    bl = prog.fn('Builder::LoadDyndeps')
    full_range(ctx, 'C04.O3', bl, 'Edge::outputs_', 'every output (explicit and implicit) may be a pending dyndep file')
    pef = prog.fn('Plan::EdgeFinished')
    ld = list(pef.calls('Builder::LoadDyndeps'))
    nf = list(pef.calls('Plan::NodeFinished'))
    def builder_present(b, i, s):
        ef = pef.edge_fact(b, i)
        if ef and strip(ef[2]).get('k') == 'mem' and strip(ef[2])['n'] == 'Plan::builder_':
            return ef[1]
        return True
    r = pef.find_path(None, lambda x: x['k'] == 'call' and x.get('name') == 'Plan::NodeFinished',
                      from_succ=pef.entry, edge_ok=builder_present,
                      is_blocker=lambda x: x['k'] == 'call' and x.get('name') == 'Builder::LoadDyndeps')
    ctx.check('C04.O3', bool(ld) and bool(nf) and r is None,
              pef.name, 'EdgeFinished:dyndeps-after-NodeFinished', pef.loc,
              'Plan::EdgeFinished loads dyndep information before waking dependents (NodeFinished)',
              witness=None if r is None else {'blocks': r[0]})
    full_range(ctx, 'C04.O3', pef, 'Edge::outputs_', 'dependents of every output are woken')
    nfn = prog.fn('Plan::NodeFinished')
    ls = loops_over(nfn, lambda d: (d.get('k') == 'mem' and d.get('n') == 'Node::out_edges_') or
                    (d.get('k') == 'call' and d.get('name') == 'Node::out_edges'))     # the member, its accessor, or a local copy of either
    if not ls:
        # out_edges() accessor: accept a loop over the accessor result
        ok = any(mentions_call(b['term'].get('cond'), 'Node::out_edges') for b in nfn.blocks.values() if b.get('term'))
        ctx.check('C04.O3', ok, nfn.name, 'NodeFinished:no-loop-over-out-edges', nfn.loc,
                  'NodeFinished iterates node->out_edges()')
    ctx.floor('C04.O3', 6)

    # ---- P2: spliced inputs wake their consumer ------------------------------------------------
    R('C04.P2', 'P', 'every function that inserts nodes into Edge::inputs_ also registers the edge '
      'as out-edge of those nodes (otherwise a finished producer never wakes the consumer)')
    n = 0
    for ff, e, kind, rhs in field_writes(prog, 'Edge::inputs_'):
        if kind in ('insert', 'push_back', 'emplace_back'):
            n += 1
            has = any(True for _ in ff.calls('Node::AddOutEdge'))
            ok = has or ff.name in P2_EXEMPT
            ctx.check('C04.P2', ok, ff.name, 'inputs_-insert-without-AddOutEdge', ff.where(e),
                      '%s inserts into inputs_ and calls Node::AddOutEdge%s' % (
                          ff.name, '' if has else ' (exempt: %s)' % P2_EXEMPT.get(ff.name)))
    ctx.floor('C04.P2', 3)
    check_unwanted_edge_finish(ctx)


P2_EXEMPT = {
    'ImplicitDepLoader::PreallocateSpace':
        'inserts placeholder slots only; its callers (LoadDepFile, LoadDepsFromLog) fill them and '
        'call AddOutEdge — checked as separate instances',
}


def check_unwanted_edge_finish(ctx):
    """C04.W4: an edge the plan does not want is declared finished - which marks its outputs ready and wakes its dependents - only
    where all of its inputs are ready: readiness is handed on, never invented."""
    from model import const_value as _cv, mentions_enum
    prog = ctx.prog
    ctx.rule('C04.W4', 'G', 'inside the plan, Plan::EdgeFinished(edge, kEdgeSucceeded) for an edge that did not run (want == kWantNothing, '
             'a phony edge) is reached only under Edge::AllInputsReady(): an unwanted edge passes readiness on to its dependents, '
             'it must not be ahead of its own inputs')
    n = 0
    for f, e in calls_to(prog, 'Plan::EdgeFinished'):
        if f.cls != 'Plan':
            continue
        if not any(mentions_enum(a, 'Plan::kEdgeSucceeded') for a in e.get('args') or []):
            continue
        n += 1
        facts = f.facts_at(e)
        ok = fact_holds(facts, lambda a: mentions_call(a, 'Edge::AllInputsReady'), True)
        if not ok:
            # through the callers: the function is entered only behind the test (caller context)
            r = f.find_path(None, lambda x: x is e, from_succ=f.entry,
                            edge_ok=lambda b, i, s2: not any(p_ is True and mentions_call(a_, 'Edge::AllInputsReady') for k_, p_, a_ in f.edge_facts(b, i)))
            ok = r is None
        ctx.check('C04.W4', ok, f.name, 'unwanted-edge:finished-before-inputs-ready', f.where(e),
                  'Plan::EdgeFinished(.., kEdgeSucceeded) in %s is reached only behind AllInputsReady(); facts: %s' % (f.name, facts_str(facts)[:6]))
    ctx.floor('C04.W4', 1)
